// the vector machine (one instantiation per translation unit)
#ifndef C02_MACH_H
#define C02_MACH_H
#include "C02/common.h"
template <class V, class T, bool PORTABLE> struct Mach : MachBase
{
    V *r[NREG];
    std::vector<int> m[NREG];
    static constexpr bool TRK = std::is_same<T, Tracked>::value;

    Mach()
    {
        for (auto &p : r)
            p = new V();
    }
    ~Mach()
    {
        for (auto &p : r)
            delete p;
    }
    static std::string evs(const Ev &e)
    {
        char b[128];
        if (TRK)
            snprintf(b, sizeof b, "%ld,%ld,%ld,%ld,%ld,%ld,%ld", e.ctor, e.mctor, e.dtor, e.asg, e.masg, e.alloc, e.dealloc);
        else
            snprintf(b, sizeof b, "-,-,-,-,-,%ld,%ld", e.alloc, e.dealloc);
        return b;
    }
    std::string show(int i)
    {
        // round 3: the raw capacity is NOT part of the compared line (std::vector leaves the growth policy to the
        // implementation); what the contract fixes about it is judged by capverdict() and printed as `cap=ok`
        std::string s = std::to_string(r[i]->size()) + ":";
        if (r[i]->size() == 0)
            s += "-";
        for (size_t k = 0; k < r[i]->size(); k++)
            s += (k ? "," : "") + std::to_string(peek(r[i]->data()[k]));
        return s;
    }
    void check(out &o)
    {
        size_t total = 0;
        for (int i = 0; i < NREG; i++)
        {
            V &v = *r[i];
            if (v.size() != m[i].size())
                o.fail("size r" + std::to_string(i) + " " + std::to_string(v.size()) + " std::vector " + std::to_string(m[i].size()));
            else
                for (size_t k = 0; k < v.size(); k++)
                    if (peek(v.data()[k]) != m[i][k])
                    {
                        o.fail("element r" + std::to_string(i) + "[" + std::to_string(k) + "]=" + std::to_string(peek(v.data()[k])) + " std::vector " + std::to_string(m[i][k]));
                        break;
                    }
            if (v.capacity() < v.size())
                o.fail("capacity<size");
            if (v.empty() != m[i].empty())
                o.fail("empty()");
            total += v.size();
            if (TRK)
                for (size_t k = 0; k < v.size(); k++)
                {
                    if (!g_live.count((const void *)(v.data() + k)))
                        o.fail("slot r" + std::to_string(i) + "[" + std::to_string(k) + "] holds no constructed object");
                    else if (!((const Tracked *)(const void *)(v.data() + k))->heap)
                        o.fail("slot r" + std::to_string(i) + "[" + std::to_string(k) + "] is moved-from");
                }
        }
        if (TRK && g_live.size() != total)
            o.fail(std::to_string(g_live.size()) + " constructed objects, " + std::to_string(total) + " elements");
        size_t bl = 0;
        for (int i = 0; i < NREG; i++)
            if (r[i]->data())
            {
                bl++;
                auto it = g_blocks.find((const char *)r[i]->data());
                if (it == g_blocks.end() || it->second.first != r[i]->capacity())
                    o.fail("capacity() is not the size of the allocated block");
            }
        // round 3: a vector without a block has no capacity (a failed allocation must not leave one behind)
        for (int i = 0; i < NREG; i++)
            if (!r[i]->data() && r[i]->capacity() != 0)
                o.fail("capacity() " + std::to_string(r[i]->capacity()) + " without a block");
        if (g_blocks.size() != bl)
            o.fail(std::to_string(g_blocks.size()) + " blocks allocated, " + std::to_string(bl) + " owned");
        if (!g_fault.empty())
            o.fail("lifetime " + g_fault);
    }
    static T mk(int x) { return T(x); }

    // a foreign array of elements (insx / tctor), built and destroyed outside the event / fuse window
    struct ExtArr
    {
        T *p;
        size_t n;
        ExtArr(const std::vector<int> &xs) : n(xs.size())
        {
            Ev keep = g_ev;
            long f = g_fuse;
            g_fuse = -1;
            p = std::allocator<T>().allocate(n ? n : 1);
            for (size_t k = 0; k < n; k++)
                new ((void *)(p + k)) T(xs[k]);
            g_ev = keep;
            g_fuse = f;
        }
        ~ExtArr()
        {
            Ev keep = g_ev;
            long f = g_fuse;
            g_fuse = -1;
            for (size_t k = 0; k < n; k++)
                p[k].~T();
            std::allocator<T>().deallocate(p, n ? n : 1);
            g_ev = keep;
            g_fuse = f;
        }
    };

    // what std::vector's contract fixes about capacity(): capacity() >= size() always; an in-place operation never
    // shrinks it; it reallocates (data pointer / allocator event) only when the required size exceeds the old
    // capacity (reference stability); operations that do not grow never touch the block; reserve(n) => capacity >= n
    struct Snap
    {
        size_t sz[NREG], cap[NREG];
        const void *data[NREG];
    };
    Snap snap()
    {
        Snap s;
        for (int i = 0; i < NREG; i++)
        {
            s.sz[i] = r[i] ? r[i]->size() : 0;
            s.cap[i] = r[i] ? r[i]->capacity() : 0;
            s.data[i] = r[i] ? (const void *)r[i]->data() : nullptr;
        }
        return s;
    }
    static int opclass(const std::string &op)
    { // 1 = grows in place, 2 = never grows, 0 = replaces the object / the buffer (no promise)
        static const char *grow[] = {"push", "pushself", "eback", "ebackself", "ins", "insi", "insself", "empl", "emplself", "insr", "insx", "inss", "resize", "reserve"};
        static const char *same[] = {"pop", "erase", "eraseto", "erase1", "clear", "eq", "ne", "lt", "at", "cat", "idx", "fb", "iter", "riter"};
        for (auto g : grow) if (op == g) return 1;
        for (auto g : same) if (op == g) return 2;
        return 0;
    }
    std::string capverdict(const std::string &op, int a, long narg, const Snap &b, const Ev &ev, bool threw)
    {
        for (int i = 0; i < NREG; i++)
            if (r[i]->capacity() < r[i]->size())
                return "BAD-capacity<size";
        if (threw)
            return "ok";
        int c = opclass(op);
        V &v = *r[a];
        if (c == 1)
        {
            size_t need = (op == "reserve" || op == "resize") ? (size_t)narg : v.size();
            if (v.capacity() < b.cap[a])
                return "BAD-shrunk";
            if (op == "reserve" && v.capacity() < (size_t)narg)
                return "BAD-reserve-too-small";
            if (need <= b.cap[a] && (v.data() != b.data[a] || ev.alloc != 0 || ev.dealloc != 0))
                return "BAD-reallocated-inside-capacity";
        }
        else if (c == 2)
        {
            if (v.capacity() != b.cap[a] || v.data() != b.data[a] || ev.alloc != 0 || ev.dealloc != 0)
                return "BAD-block-changed";
        }
        return "ok";
    }
    static long sumsz(const Snap &s)
    {
        long t = 0;
        for (int i = 0; i < NREG; i++) t += (long)s.sz[i];
        return t;
    }

    // `a <k> <op …>`: the k-th allocation of the call fails (std::bad_alloc); `al <n> <op …>`: every request above n
    // elements fails.  After a failure the oracle judges the state the exception left (strong guarantee where
    // std::vector gives it: no effects), then the SAME operation is run again unarmed and its line is the result,
    // so that the compared line does not depend on the growth policy (whether an allocation was needed at all).
    void step(const std::vector<std::string> &w0, out &o) override
    {
        if ((w0[0] == "a" || w0[0] == "al") && w0.size() >= 3)
        {
            std::vector<std::string> w(w0.begin() + 2, w0.end());
            long k = atol(w0[1].c_str());
            bool failed = step1(w, o, w0[0] == "a" ? k : -1, w0[0] == "al" ? k : -1);
            std::string first = o.oracle;
            if (failed)
            {
                o.tag("alloc-failed");
                step1(w, o, -1, -1); // the caller goes on using the object: the same request, now granted
            }
            else
                o.tag("alloc-fuse-not-reached");
            o.result += std::string(" af=") + (first == "ok" ? "ok" : "BAD");
            return;
        }
        if (w0[0] == "alx" && w0.size() >= 3)
        { // a request no allocator grants (2^31 .. 2^63 elements): refused, no effects, no retry
            std::vector<std::string> w(w0.begin() + 2, w0.end());
            bool failed = step1(w, o, -1, atol(w0[1].c_str()));
            if (!failed)
                o.fail("the huge request was not refused");
            o.tag("alloc-huge-refused");
            return;
        }
        step1(w0, o, -1, -1);
    }

    // returns true when the (injected) allocation failure left the member function
    bool step1(const std::vector<std::string> &w0, out &o, long afuse, long alimit)
    {
        // `x <k> <op …>`: the k-th (from 0) throwing-capable element operation inside the member function throws
        std::vector<std::string> w = w0;
        long arm = -1;
        if (w[0] == "x" && w.size() >= 3 && TRK)
        {
            arm = atol(w[1].c_str());
            w.erase(w.begin(), w.begin() + 2);
        }
        bool threw = false;
        std::unique_ptr<T> xarg; // a value argument of the harness: built before and destroyed after the window
        const std::string &op = w[0];
        auto I = [&](size_t k) { return k < w.size() ? atoi(w[k].c_str()) : 0; };
        std::string ret = "-";
        Ev ev;
        g_fault.clear();
        int a = I(1);
        V *&v = r[a % NREG];
        std::vector<int> &mv = m[a % NREG];
#define BEGIN_EV (g_ev = Ev(), g_fuse = arm, g_afuse = afuse, g_alimit = alimit)
#define END_EV (ev = g_ev, g_fuse = -1, g_afuse = -1, g_alimit = -1)
        bool athrew = false;
        const Snap before = snap();
        try
        {
        if (op == "push")
        {
            xarg.reset(new T(mk(I(2))));
            T &x = *xarg;
            BEGIN_EV;
            v->push_back(x);
            END_EV;
            mv.push_back(I(2));
            if (v->capacity() == v->size())
                o.tag("full");
        }
        else if (op == "pushself")
        {
            BEGIN_EV;
            v->push_back((*v)[I(2)]);
            END_EV;
            mv.push_back(int(mv[I(2)]));
            o.tag("alias");
        }
        else if (op == "eback")
        {
            BEGIN_EV;
            v->emplace_back(I(2));
            END_EV;
            mv.emplace_back(I(2));
        }
        else if (op == "ebackself")
        {
            BEGIN_EV;
            v->emplace_back((*v)[I(2)]);
            END_EV;
            mv.push_back(int(mv[I(2)]));
            o.tag("alias");
        }
        else if (op == "pop")
        {
            BEGIN_EV;
            v->pop_back();
            END_EV;
            mv.pop_back();
        }
        else if (op == "ins" || op == "insi")
        {
            xarg.reset(new T(mk(I(3))));
            T &x = *xarg;
            bool grow = v->size() == v->capacity();
            BEGIN_EV;
            auto it = op == "ins" ? v->insert(v->begin() + I(2), x) : v->insert((int)I(2), x);
            END_EV;
            ret = std::to_string(it - v->begin());
            auto mi = mv.insert(mv.begin() + I(2), I(3));
            if (mi - mv.begin() != it - v->begin())
                o.fail("insert returns a different position");
            o.tag(grow ? "ins-grow" : "ins-room");
            if ((size_t)I(2) + 1 == v->size())
                o.tag("ins-end");
        }
        else if (op == "insself")
        {
            bool grow = v->size() == v->capacity();
            BEGIN_EV;
            auto it = v->insert(v->begin() + I(2), (*v)[I(3)]);
            END_EV;
            ret = std::to_string(it - v->begin());
            int x = mv[I(3)];
            mv.insert(mv.begin() + I(2), x);
            o.tag(grow ? "alias-grow" : "alias");
        }
        else if (op == "empl")
        {
            bool grow = v->size() == v->capacity();
            BEGIN_EV;
            auto it = v->emplace(v->begin() + I(2), I(3));
            END_EV;
            ret = std::to_string(it - v->begin());
            mv.emplace(mv.begin() + I(2), I(3));
            o.tag(grow ? "empl-grow" : "empl-room");
        }
        else if (op == "emplself")
        {
            BEGIN_EV;
            auto it = v->emplace(v->begin() + I(2), (*v)[I(3)]);
            END_EV;
            ret = std::to_string(it - v->begin());
            int x = mv[I(3)];
            mv.insert(mv.begin() + I(2), x);
            o.tag("alias");
        }
        else if (op == "insr")
        { // a range of the vector's own elements
            std::vector<int> rng(mv.begin() + I(3), mv.begin() + I(4));
            bool grow = v->size() + rng.size() > v->capacity();
            BEGIN_EV;
            auto it = v->insert(v->begin() + I(2), (const T *)v->begin() + I(3), (const T *)v->begin() + I(4));
            END_EV;
            ret = std::to_string(it - v->begin());
            mv.insert(mv.begin() + I(2), rng.begin(), rng.end());
            o.tag(grow ? "insr-grow" : "insr-room");
            if (I(3) < I(2) && I(2) < I(4))
                o.tag("insr-straddle");
        }
        else if (op == "insx")
        { // a foreign range (exactly sized heap array)
            size_t n = w.size() - 3;
            std::vector<int> rng;
            for (size_t k = 0; k < n; k++)
                rng.push_back(I(3 + k));
            ExtArr ea(rng);
            T *ext = ea.p;
            bool grow = v->size() + n > v->capacity();
            BEGIN_EV;
            auto it = v->insert(v->begin() + I(2), (const T *)ext, (const T *)ext + n);
            END_EV;
            ret = std::to_string(it - v->begin());
            mv.insert(mv.begin() + I(2), rng.begin(), rng.end());
            o.tag(grow ? "insx-grow" : "insx-room");
        }
        else if (op == "inss")
        {
            if constexpr (!PORTABLE)
            {
                xarg.reset(new T(mk(I(2))));
                T &x = *xarg;
                BEGIN_EV;
                auto it = v->insert_sorted(x);
                END_EV;
                ret = std::to_string(it - v->begin());
                auto mi = mv.insert(std::upper_bound(mv.begin(), mv.end(), I(2)), I(2));
                if (mi - mv.begin() != it - v->begin())
                    o.fail("insert_sorted position");
            }
        }
        else if (op == "erase")
        {
            BEGIN_EV;
            v->erase(v->begin() + I(2), v->begin() + I(3));
            END_EV;
            mv.erase(mv.begin() + I(2), mv.begin() + I(3));
            if (I(2) != I(3) && (size_t)I(3) < mv.size() + (I(3) - I(2)))
                o.tag("erase-mid");
        }
        else if (op == "eraseto")
        { // igris-only: erase(iterator newend) truncates
            BEGIN_EV;
            v->erase(v->begin() + I(2));
            END_EV;
            mv.erase(mv.begin() + I(2), mv.end());
        }
        else if (op == "erase1")
        { // std::vector::erase(pos) removes ONE element (finding probe)
            BEGIN_EV;
            v->erase(v->begin() + I(2));
            END_EV;
            mv.erase(mv.begin() + I(2));
        }
        else if (op == "resize")
        {
            size_t before = mv.size(), capb = v->capacity();
            // dirty the spare slots of an int vector explicitly: resize must VALUE-initialise (0), whatever was there
            if (!TRK && v->data())
                for (size_t k = before; k < capb; k++)
                    memset((void *)(v->data() + k), 0x5a, sizeof(T));
            BEGIN_EV;
            v->resize((size_t)strtoull(w[2].c_str(), nullptr, 10));
            END_EV;
            mv.resize(I(2));
            o.tag((size_t)I(2) > before ? ((size_t)I(2) <= capb ? "resize-grow-in-capacity" : "resize-grow-realloc") : "resize-shrink");
        }
        else if (op == "reserve")
        {
            size_t oc = v->capacity();
            BEGIN_EV;
            v->reserve((size_t)strtoull(w[2].c_str(), nullptr, 10));
            END_EV;
            mv.reserve(I(2));
            if (v->capacity() < (size_t)I(2))
                o.fail("reserve: capacity too small");
            if (v->capacity() != oc)
                o.tag("realloc");
        }
        else if (op == "clear")
        {
            BEGIN_EV;
            v->clear();
            END_EV;
            mv.clear();
        }
        else if (op == "inval")
        {
            BEGIN_EV;
            // `invalidate()` is a public member that std::vector does not have: optional (round 3b); without it the
            // same observable (every element destroyed, the block given back, the object empty) through a move
            if constexpr (requires { v->invalidate(); })
                v->invalidate();
            else
            {
                V gone(std::move(*v));
            }
            END_EV;
            mv = std::vector<int>();
        }
        else if (op == "cctor" || op == "mctor" || op == "rctor" || op == "szctor" || op == "tctor" || op == "ilist")
        { // destroy register a, construct a new vector in its place
            BEGIN_EV;
            g_fuse = -1; // the destructor of the old object is outside the fuse window (it has no throwing operation anyway)
            delete v;
            v = nullptr;
            g_fuse = arm;
            int s = I(2) % NREG;
            if (op == "cctor")
            {
                v = new V(*r[s]);
                mv = std::vector<int>(m[s]);
                if (m[s].empty())
                    o.tag("copy-empty");
            }
            else if (op == "mctor")
            {
                v = new V(std::move(*r[s]));
                mv = std::vector<int>(std::move(m[s]));
                m[s].clear();
            }
            else if (op == "rctor")
            {
                v = new V(r[s]->begin() + I(3), r[s]->begin() + I(4));
                mv = std::vector<int>(m[s].begin() + I(3), m[s].begin() + I(4));
            }
            else if (op == "szctor")
            {
                v = new V((size_t)I(2));
                mv = std::vector<int>((size_t)I(2));
            }
            else if (op == "tctor")
            { // template <class I, class O> vector(I first, O last) with a foreign const range
                size_t n = w.size() - 2;
                std::vector<int> rng;
                for (size_t k = 0; k < n; k++)
                    rng.push_back(I(2 + k));
                ExtArr ea(rng);
                T *ext = ea.p;
                mv.clear();
                v = new V((const T *)ext, (const T *)ext + n);
                mv = rng;
            }
            else
            {
                if constexpr (!PORTABLE)
                {
                    // the backing array of the initializer list is n extra constructions + destructions
                    size_t n = w.size() - 2;
                    switch (n)
                    {
                    case 0: v = new V(std::initializer_list<T>{}); break;
                    case 1: v = new V{mk(I(2))}; break;
                    case 2: v = new V{mk(I(2)), mk(I(3))}; break;
                    case 3: v = new V{mk(I(2)), mk(I(3)), mk(I(4))}; break;
                    default: v = new V{mk(I(2)), mk(I(3)), mk(I(4)), mk(I(5))}; break;
                    }
                    mv.clear();
                    for (size_t k = 0; k < n && k < 4; k++)
                        mv.push_back(I(2 + k));
                }
                else
                    v = new V();
            }
            END_EV;
        }
        else if (op == "cas" || op == "mas")
        {
            int s = I(2) % NREG;
            BEGIN_EV;
            if (op == "cas")
                *v = *r[s];
            else
                *v = std::move(*r[s]);
            END_EV;
            if (op == "cas")
                mv = m[s];
            else if (a % NREG != s)
            {
                mv = std::move(m[s]);
                m[s].clear();
            }
            if (a % NREG == s)
                o.tag("self");
        }
        else if (op == "eq" || op == "ne" || op == "lt")
        {
            int s = I(2) % NREG;
            BEGIN_EV;
            bool b = false, e = false;
            if (op == "eq")
            {
                b = *v == *r[s];
                e = mv == m[s];
            }
            else if (op == "ne")
            {
                b = *v != *r[s];
                e = mv != m[s];
            }
            else
            {
                if constexpr (!PORTABLE)
                    b = *v < *r[s];
                e = mv < m[s];
            }
            END_EV;
            ret = b ? "1" : "0";
            if (b != e)
                o.fail("comparison differs from std::vector");
            o.tag(b ? "cmp-true" : "cmp-false");
        }
        else if (op == "at")
        {
            BEGIN_EV;
            if constexpr (!PORTABLE)
            {
                bool thrown = false, ethrown = false;
                int got = 0, exp = 0;
                try
                {
                    got = peek(v->at((size_t)I(2)));
                }
                catch (const std::out_of_range &)
                {
                    thrown = true;
                }
                try
                {
                    exp = mv.at((size_t)I(2));
                }
                catch (const std::out_of_range &)
                {
                    ethrown = true;
                }
                ret = thrown ? "throw" : std::to_string(got);
                if (thrown != ethrown || got != exp)
                    o.fail("at() differs from std::vector");
                if (thrown)
                    o.tag("at-throw");
            }
            END_EV;
        }
        else if (op == "cat")
        { // const at()
            BEGIN_EV;
            if constexpr (!PORTABLE)
            {
                const V &cv = *v;
                bool thrown = false, ethrown = false;
                int got = 0, exp = 0;
                try
                {
                    got = peek(cv.at((size_t)I(2)));
                }
                catch (const std::out_of_range &)
                {
                    thrown = true;
                }
                try
                {
                    exp = ((const std::vector<int> &)mv).at((size_t)I(2));
                }
                catch (const std::out_of_range &)
                {
                    ethrown = true;
                }
                ret = thrown ? "throw" : std::to_string(got);
                if (thrown != ethrown || got != exp)
                    o.fail("const at() differs from std::vector");
                if (thrown)
                    o.tag("at-throw");
            }
            END_EV;
        }
        else if (op == "idx")
        {
            BEGIN_EV;
            const V &cv = *v;
            int g1 = peek((*v)[(size_t)I(2)]), g2 = peek(cv[(size_t)I(2)]);
            END_EV;
            ret = std::to_string(g1);
            if (g1 != mv[I(2)] || g2 != mv[I(2)])
                o.fail("operator[] differs from std::vector");
        }
        else if (op == "fb")
        {
            BEGIN_EV;
            const V &cv = *v;
            int f = peek(v->front()), b = peek(v->back());
            int f2 = peek(cv.front()), b2 = peek(cv.back());
            END_EV;
            ret = std::to_string(f) + "," + std::to_string(b);
            if (f != mv.front() || b != mv.back() || f2 != f || b2 != b)
                o.fail("front/back differ from std::vector");
        }
        else if (op == "iter")
        { // begin()..end()
            BEGIN_EV;
            std::vector<int> got;
            for (auto it = v->begin(); it != v->end(); ++it)
                got.push_back(peek(*it));
            END_EV;
            ret = std::to_string(got.size());
            if (got != mv)
                o.fail("begin..end differs from std::vector");
        }
        else if (op == "riter")
        { // std::vector: for (it = rbegin(); it != rend(); ++it) visits the elements backwards
            BEGIN_EV;
            std::vector<long> got, exp;
            size_t guard = 0;
            for (auto it = v->rbegin(); it != v->rend() && guard < v->size() + 2; ++it, ++guard)
                got.push_back((long)(it - v->begin()));
            END_EV;
            for (size_t k = v->size(); k-- > 0;)
                exp.push_back((long)k);
            ret = std::to_string(got.size());
            if (got != exp)
                o.fail("rbegin..rend with ++ does not visit the elements in reverse order");
        }
        else if (op == "end")
        {
            BEGIN_EV;
            for (auto &p : r)
            {
                delete p;
                p = nullptr;
            }
            END_EV;
            Ev t = g_tot;
            t.ctor += ev.ctor; t.mctor += ev.mctor; t.dtor += ev.dtor; t.asg += ev.asg; t.masg += ev.masg;
            t.alloc += ev.alloc; t.dealloc += ev.dealloc;
            if (TRK && !g_live.empty())
                o.fail(std::to_string(g_live.size()) + " objects never destroyed");
            if (TRK && t.ctor + t.mctor != t.dtor)
                o.fail("constructed " + std::to_string(t.ctor + t.mctor) + " destroyed " + std::to_string(t.dtor));
            if (!g_blocks.empty() || t.alloc != t.dealloc)
                o.fail("allocated " + std::to_string(t.alloc) + " deallocated " + std::to_string(t.dealloc));
            if (!g_fault.empty())
                o.fail("lifetime " + g_fault);
            // round 3: the totals depend on how often the buffer was reallocated (growth policy); the property fixes
            // the BALANCE (constructed = destroyed, allocated = freed, nothing alive), which is what is printed
            bool bal = g_live.empty() && (!TRK || t.ctor + t.mctor == t.dtor) && g_blocks.empty() && t.alloc == t.dealloc;
            o.result = std::string("end bal=") + (bal ? "ok" : "BAD");
            for (auto q : g_live)
                delete ((Tracked *)q)->heap;
            g_live.clear();
            for (auto &p : r)
                p = new V();
            for (auto &x : m)
                x.clear();
            g_tot = Ev();
            return false;
        }
        else if (op == "widths")
        { // type widths the model embeds (size_t counters: no wrap below 2^64), read out of the compiled code
            // round 3b: the compared result carries what the property's observables are typed by (size(), capacity():
            // 8-byte counters - the model's are unbounded naturals); difference_type / size_type / the object size
            // in words are NOT fixed by the property: reported as tags, and the typedefs are optional
            char b[160];
            snprintf(b, sizeof b, "size=%zu cap=%zu", sizeof(decltype(v->size())), sizeof(decltype(v->capacity())));
            size_t dw = 0, iw = 0;
            if constexpr (requires { typename V::difference_type; })
                dw = sizeof(typename V::difference_type);
            if constexpr (requires { typename V::size_type; })
                iw = sizeof(typename V::size_type);
            std::string t = "diff" + std::to_string(dw) + ",idx" + std::to_string(iw) + ",obj" + std::to_string(sizeof(V) / sizeof(void *));
            o.tag(t.c_str());
            o.result = b;
            return false;
        }
        else
        {
            o.result = "bad-op";
            o.fail("unknown op");
            return false;
        }
        }
        catch (const Boom &)
        {
            threw = true;
        }
        catch (const std::bad_alloc &)
        {
            athrew = true;
        }
        g_fuse = -1;
        g_afuse = -1;
        g_alimit = -1;
        {
            Ev keep = g_ev; // the harness' own argument object is not an event of the operation
            xarg.reset();
            g_ev = keep;
        }
        if (threw)
        {
            // the injected exception left the member function.  STRONG guarantee where std::vector gives it
            // (single-element insertion at any position, resize, reserve, the constructors: no object comes to
            // exist): the mirror is left as it was and check() compares.  BASIC guarantee for the range insert and
            // copy assignment: the vector holds SOME valid sequence - the mirror is re-read from it and check()
            // still demands that every slot below size() holds a constructed, not moved-from object, that the
            // number of live objects is the sum of the sizes and that capacity() is the block size.
            ev = g_ev;
            ret = "threw";
            bool ctor_op = op == "cctor" || op == "tctor" || op == "rctor" || op == "szctor";
            bool basic = op == "insr" || op == "insx" || op == "cas";
            if (ctor_op)
            {
                if (!v)
                    v = new V();
                mv.clear();
            }
            else if (basic)
            {
                mv.clear();
                for (size_t k = 0; k < v->size(); k++)
                    mv.push_back(peek(v->data()[k]));
            }
            o.tag(basic ? "threw-basic" : ctor_op ? "threw-ctor" : "threw-strong");
        }
        else if (arm >= 0)
            o.tag("fuse-not-reached");
        if (athrew)
        {
            // the allocation failed.  std::vector: "no effects" for reserve / resize / push_back / emplace_back and
            // for every insert form when the exception does not come from an element operation; no object for the
            // constructors; a valid vector (basic guarantee) for copy assignment.
            ev = g_ev;
            ret = "badalloc";
            bool ctor_op = op == "cctor" || op == "tctor" || op == "rctor" || op == "szctor" || op == "ilist" || op == "mctor";
            if (ctor_op)
            {
                if (!v)
                    v = new V();
                mv.clear();
            }
            else if (op == "cas")
            {
                mv.clear();
                for (size_t k = 0; k < v->size() && k < v->capacity(); k++)
                    mv.push_back(peek(v->data()[k]));
            }
            else
            {
                int ai = a % NREG;
                if (v->capacity() != before.cap[ai] || (const void *)v->data() != before.data[ai])
                    o.fail("failed allocation changed capacity()/data(): capacity " + std::to_string(v->capacity()) + " was " + std::to_string(before.cap[ai]));
            }
        }
        g_tot.ctor += ev.ctor; g_tot.mctor += ev.mctor; g_tot.dtor += ev.dtor; g_tot.asg += ev.asg; g_tot.masg += ev.masg;
        g_tot.alloc += ev.alloc; g_tot.dealloc += ev.dealloc;
        std::string cv = capverdict(op, a % NREG, I(2), before, ev, threw || athrew);
        if (cv != "ok")
            o.fail("capacity contract: " + cv);
        // ledger verdict: objects constructed - destroyed by the operation = change of the number of elements
        bool ledok = !TRK || (ev.ctor + ev.mctor - ev.dtor == sumsz(snap()) - sumsz(before));
        if (!ledok)
            o.fail("constructed - destroyed objects of the operation differ from the change of the sizes");
        o.result = ret + " " + show(0) + " " + show(1) + " " + show(2) + " cap=" + cv + " led=" + (ledok ? "ok" : "BAD");
        check(o);
        return athrew;
    }
};
#endif
