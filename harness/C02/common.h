// C02 harness, shared by the translation units C02.cpp (dispatch + generator), C02_vec.cpp / C02_vect.cpp
// (igris/container/vector.h machines), C02_pt.cpp / C02_ptt.cpp (the std_portable.h twin), C02_eqx.cpp, C02_flat.cpp
// and C02_compat.cpp: ledger, the instrumented element type, the test allocator.  Round 3b: the single
// translation unit took > 2 minutes under ASan on a loaded machine; the units are compiled in parallel by bin/check.
#ifndef C02_COMMON_H
#define C02_COMMON_H
#include "common/hv.h"
#include <map>
#include <set>
#include <unordered_set>
#include <memory>
#include <algorithm>
#include <functional>
#include <stdexcept>
#include <assert.h>
#include <inttypes.h>
#include <math.h>
#include <new>
#include <stdarg.h>
#include <stddef.h>
#include <stdint.h>
#include <stdio.h>
#include <stdlib.h>
#include <string.h>

using namespace hv;

// ------------------------------------------------------------------ ledger
struct Ev
{
    long ctor = 0, mctor = 0, dtor = 0, asg = 0, masg = 0, alloc = 0, dealloc = 0;
};
inline Ev g_ev;                 // events of the current operation
inline Ev g_tot;                // events since reset
inline std::string g_fault;     // first lifetime fault of the current operation
inline std::unordered_set<const void *> g_live;
inline std::map<const char *, std::pair<size_t, size_t>> g_blocks; // base -> (count, elemsize)

inline void fault(const std::string &s)
{
    if (g_fault.empty())
        g_fault = s;
}

// exception injection: the element operations that may throw (default / value / copy construction, copy
// assignment; moves and the destructor are noexcept) count down a fuse; at 0 the operation throws BEFORE it
// changes anything and the fuse is disarmed.  -1 = disarmed.
struct Boom
{
};
inline long g_fuse = -1;
inline void tick()
{
    if (g_fuse == 0)
    {
        g_fuse = -1;
        throw Boom();
    }
    if (g_fuse > 0)
        g_fuse--;
}

// allocation-failure injection (round 3): the tracking allocator throws std::bad_alloc at the k-th allocation of
// the armed window (g_afuse, -1 = disarmed) or for every request above g_alimit elements (-1 = no limit)
inline long g_afuse = -1;
inline long g_alimit = -1;
inline long g_afired = 0;

struct Tracked
{
    int val;
    char *heap; // owned; nullptr = moved-from
    bool isreg() const { return g_live.count(this) != 0; }
    void reg(const char *what)
    {
        if (isreg())
        {
            fault(std::string(what) + "-over-live");
            delete heap; // the object that was here is lost: keep LSan quiet, the fault is reported
        }
        g_live.insert(this);
    }
    int rd(const char *what) const
    {
        if (!isreg())
        {
            fault(std::string(what) + "-reads-dead");
            return -777;
        }
        if (!heap)
        {
            fault(std::string(what) + "-reads-moved-from");
            return -778;
        }
        return val;
    }
    Tracked()
    {
        tick();
        reg("construct");
        val = 0;
        heap = new char(0);
        g_ev.ctor++;
    }
    Tracked(int v)
    {
        tick();
        reg("construct");
        val = v;
        heap = new char((char)v);
        g_ev.ctor++;
    }
    Tracked(const Tracked &o)
    {
        tick();
        int v = o.rd("copy-construct");
        reg("construct");
        val = v;
        heap = new char((char)v);
        g_ev.ctor++;
    }
    Tracked(Tracked &&o) noexcept
    {
        int v = o.rd("move-construct");
        reg("construct");
        val = v;
        heap = new char((char)v);
        if (o.isreg() && o.heap)
        {
            delete o.heap;
            o.heap = nullptr;
        }
        g_ev.mctor++;
    }
    Tracked &operator=(const Tracked &o)
    {
        tick();
        g_ev.asg++;
        int v = o.rd("assign");
        if (!isreg())
        {
            fault("assign-to-dead");
            g_live.insert(this); // treat as construction so that the run can go on
            heap = nullptr;
        }
        val = v;
        if (!heap)
            heap = new char(0);
        *heap = (char)v;
        return *this;
    }
    Tracked &operator=(Tracked &&o) noexcept
    {
        g_ev.masg++;
        if (this == &o)
            return *this;
        int v = o.rd("move-assign");
        if (!isreg())
        {
            fault("move-assign-to-dead");
            g_live.insert(this);
            heap = nullptr;
        }
        val = v;
        if (!heap)
            heap = new char(0);
        *heap = (char)v;
        if (o.isreg() && o.heap)
        {
            delete o.heap;
            o.heap = nullptr;
        }
        return *this;
    }
    ~Tracked()
    {
        g_ev.dtor++;
        if (!isreg())
        {
            fault("destroy-dead");
            return;
        }
        g_live.erase(this);
        delete heap;
        heap = nullptr;
    }
    bool operator==(const Tracked &o) const { return rd("==") == o.rd("=="); }
    bool operator!=(const Tracked &o) const { return rd("!=") != o.rd("!="); }
    bool operator<(const Tracked &o) const { return rd("<") < o.rd("<"); }
};

template <class T> struct TA
{
    using value_type = T;
    TA() = default;
    template <class U> TA(const TA<U> &) {}
    T *allocate(size_t n)
    {
        if (g_afuse == 0)
        {
            g_afuse = -1;
            g_afired++;
            throw std::bad_alloc();
        }
        if (g_afuse > 0)
            g_afuse--;
        if (g_alimit >= 0 && n > (size_t)g_alimit)
        {
            g_afired++;
            throw std::bad_alloc();
        }
        g_ev.alloc++;
        // an exactly sized heap block: ASan sees every access outside it
        T *p = std::allocator<T>().allocate(n);
        g_blocks[(const char *)p] = {n, sizeof(T)};
        return p;
    }
    void deallocate(T *p, size_t n)
    {
        g_ev.dealloc++;
        auto it = g_blocks.find((const char *)p);
        if (it == g_blocks.end())
        {
            fault("deallocate-unknown-block");
            return;
        }
        if (it->second.first != n)
            fault("deallocate-size " + std::to_string(n) + " allocated " + std::to_string(it->second.first));
        const char *lo = (const char *)p, *hi = lo + it->second.first * it->second.second;
        std::vector<const void *> lost;
        for (auto q : g_live)
            if ((const char *)q >= lo && (const char *)q < hi)
                lost.push_back(q);
        if (!lost.empty())
        {
            fault("deallocate-with-" + std::to_string(lost.size()) + "-live-objects");
            for (auto q : lost)
            {
                delete ((Tracked *)q)->heap;
                g_live.erase(q);
            }
        }
        size_t real = it->second.first;
        g_blocks.erase(it);
        std::allocator<T>().deallocate(p, real);
    }
    bool operator==(const TA &) const { return true; }
    bool operator!=(const TA &) const { return false; }
};

inline int peek(const int &x) { return x; }
inline int peek(const Tracked &x) { return x.val; }

// ------------------------------------------------------------------ vector machine
struct MachBase
{
    virtual ~MachBase() {}
    virtual void step(const std::vector<std::string> &w, out &o) = 0;
};

inline const int NREG = 3;

// factories, one per translation unit
MachBase *c02_mach_vi();  // igris/container/vector.h, int
MachBase *c02_mach_vt();  // igris/container/vector.h, Tracked
MachBase *c02_mach_pi();  // std_portable.h twin, int
MachBase *c02_mach_pt();  // std_portable.h twin, Tracked
MachBase *c02_mach_eqx(const std::string &elem, bool portable); // nullptr = unknown element type
std::string c02_long(bool portable, size_t n, out &o);
// hosted flat_map / flat_set + the std::map / std::set mirrors (C02_flat.cpp)
bool c02_flat_select(int ci);
std::string c02_flat_step(const std::string &line);
void c02_mirror_select(int ci);
std::string c02_mirror_step(const std::vector<std::string> &w, out &o);
#endif
