// C06 (round 3): constants and type widths of igris/util/printf_impl.c read out of
// the compiled translation unit.  The file is #included (its macros live in the
// .c file) with the one external symbol renamed; the functions below only
// report what the preprocessor / compiler sees there.
#define __printf c06c___printf
#include <igris/util/printf_impl.c>
#undef __printf

int c06c_print_i_buff_sz(void) { return PRINT_I_BUFF_SZ; }
const char *c06c_null_str(void) { return PRINT_S_NULL_STR; }
unsigned long c06c_null_str_size(void) { return sizeof PRINT_S_NULL_STR; }
unsigned c06c_ops(int i)
{
    static const unsigned t[] = {OPS_FLAG_LEFT_ALIGN, OPS_FLAG_WITH_SIGN, OPS_FLAG_EXTRA_SPACE, OPS_FLAG_WITH_SPEC,
                                 OPS_FLAG_ZERO_PAD,   OPS_PREC_IS_GIVEN,  OPS_LEN_MIN,          OPS_LEN_SHORT,
                                 OPS_LEN_LONG,        OPS_LEN_LONGLONG,   OPS_LEN_MAX,          OPS_LEN_SIZE,
                                 OPS_LEN_PTRDIFF,     OPS_LEN_LONGFP,     OPS_SPEC_UPPER_CASE,  OPS_SPEC_POINTER,
                                 OPS_SPEC_CHAR};
    return i >= 0 && i < (int)(sizeof t / sizeof t[0]) ? t[i] : 0;
}
// `sizeof tmp.vp * 2` of case 'p'
int c06c_ptr_digits(void) { return (int)(sizeof(void *) * 2); }
// the type `pc` is returned in
unsigned long c06c_sizeof_ret(void)
{
    va_list *ap = 0;
    return sizeof(c06c___printf(0, 0, 0, *ap));
}
// sizeof of the types case 'n' stores through: hh h l ll j z t (none)
unsigned long c06c_n_size(int i)
{
    static const unsigned long t[] = {sizeof(signed char), sizeof(short int), sizeof(long int), sizeof(long long int),
                                      sizeof(intmax_t),    sizeof(size_t),    sizeof(ptrdiff_t), sizeof(int)};
    return i >= 0 && i < 8 ? t[i] : 0;
}
