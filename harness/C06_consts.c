// C06 (round 3, made OPTIONAL in round 3b): constants and type widths of
// igris/util/printf_impl.c read out of the compiled translation unit.  The file
// is #included (its macros live in the .c file) with the one external symbol
// renamed; the functions below only report what the preprocessor / compiler sees
// there.
//
// Round 3b (fragility): every name used here except `__printf` (declared in the
// public header printf_impl.h) is INTERNAL to printf_impl.c - PRINT_I_BUFF_SZ,
// PRINT_S_NULL_STR, the OPS_* masks.  The property fixes none of them, so none
// may break the build: each use is guarded by #ifdef and degrades to "unknown"
// (-1 / NULL / 0) when the macro is renamed, removed, or turned into an enum or
// a const.  What is reported goes into the TAG field of the `consts` op, not
// into the compared result; the only judgement kept is the behavioural one
// (a print_i buffer that is known and below 23 bytes cannot hold 22 octal
// digits and the terminator; masks that are known must be distinct bits).
// Should printf_impl.c ever export a second external symbol, the duplicate
// definition is tolerated by -Wl,--allow-multiple-definition (checks/C06.json).
#define __printf c06c___printf
#include <igris/util/printf_impl.c>
#undef __printf

#ifdef PRINT_I_BUFF_SZ
int c06c_print_i_buff_sz(void) { return (int)(PRINT_I_BUFF_SZ); }
#else
int c06c_print_i_buff_sz(void) { return -1; }
#endif

#ifdef PRINT_S_NULL_STR
const char *c06c_null_str(void) { return PRINT_S_NULL_STR; }
unsigned long c06c_null_str_size(void) { return sizeof PRINT_S_NULL_STR; }
#else
const char *c06c_null_str(void) { return 0; }
unsigned long c06c_null_str_size(void) { return 0; }
#endif

// the OPS_* masks that exist as macros under the names of the original source; 0 = not known
unsigned c06c_ops(int i)
{
    static const unsigned t[] = {
#ifdef OPS_FLAG_LEFT_ALIGN
        OPS_FLAG_LEFT_ALIGN,
#else
        0,
#endif
#ifdef OPS_FLAG_WITH_SIGN
        OPS_FLAG_WITH_SIGN,
#else
        0,
#endif
#ifdef OPS_FLAG_EXTRA_SPACE
        OPS_FLAG_EXTRA_SPACE,
#else
        0,
#endif
#ifdef OPS_FLAG_WITH_SPEC
        OPS_FLAG_WITH_SPEC,
#else
        0,
#endif
#ifdef OPS_FLAG_ZERO_PAD
        OPS_FLAG_ZERO_PAD,
#else
        0,
#endif
#ifdef OPS_PREC_IS_GIVEN
        OPS_PREC_IS_GIVEN,
#else
        0,
#endif
#ifdef OPS_LEN_MIN
        OPS_LEN_MIN,
#else
        0,
#endif
#ifdef OPS_LEN_SHORT
        OPS_LEN_SHORT,
#else
        0,
#endif
#ifdef OPS_LEN_LONG
        OPS_LEN_LONG,
#else
        0,
#endif
#ifdef OPS_LEN_LONGLONG
        OPS_LEN_LONGLONG,
#else
        0,
#endif
#ifdef OPS_LEN_MAX
        OPS_LEN_MAX,
#else
        0,
#endif
#ifdef OPS_LEN_SIZE
        OPS_LEN_SIZE,
#else
        0,
#endif
#ifdef OPS_LEN_PTRDIFF
        OPS_LEN_PTRDIFF,
#else
        0,
#endif
#ifdef OPS_LEN_LONGFP
        OPS_LEN_LONGFP,
#else
        0,
#endif
#ifdef OPS_SPEC_UPPER_CASE
        OPS_SPEC_UPPER_CASE,
#else
        0,
#endif
#ifdef OPS_SPEC_POINTER
        OPS_SPEC_POINTER,
#else
        0,
#endif
#ifdef OPS_SPEC_CHAR
        OPS_SPEC_CHAR,
#else
        0,
#endif
    };
    return i >= 0 && i < (int)(sizeof t / sizeof t[0]) ? t[i] : 0;
}
// the type `pc` is returned in (public signature, printf_impl.h)
unsigned long c06c_sizeof_ret(void)
{
    va_list *ap = 0;
    return sizeof(c06c___printf(0, 0, 0, *ap));
}
// sizeof of the types ISO names for `%n` with hh h l ll j z t (none) - platform facts, not taken from the code
unsigned long c06c_n_size(int i)
{
    static const unsigned long t[] = {sizeof(signed char), sizeof(short int), sizeof(long int), sizeof(long long int),
                                      sizeof(intmax_t),    sizeof(size_t),    sizeof(ptrdiff_t), sizeof(int)};
    return i >= 0 && i < 8 ? t[i] : 0;
}
