// C02 harness: igris::vector (igris/container/vector.h AND the second copy in
// igris/container/std_portable.h), igris::flat_map / flat_set (hosted: over the
// libstdc++ vector; compat: over igris::vector through compat/std/{vector,map,set},
// see C02_compat.cpp) against the Lean model (IgrisModel/C02).
//
// Result line (compared with the model):  ret | the three vector registers as
// size:contents | cap=<verdict> (std::vector's capacity contract, see capverdict) | led=<verdict> (constructed -
// destroyed objects of the operation = change of the sizes).  Until round 2 the raw capacity and the raw event counts
//   ev=construct,move-construct,destroy,assign,move-assign,allocate,deallocate
// were part of the line; they depend on the growth policy, which the property does not fix (round 3, correction 0c).
// Oracle (independent of the model): a mirror std::vector<int> per register, the
// global live set of the instrumented element type (every constructed object
// registers `this`), a tracking allocator (block sizes, no live object inside a
// freed block) and ASan/UBSan/LSan.
// Round 3b: split into translation units compiled in parallel (checks/C02.json "sources"): this one = dispatch, the
// operations run before main() and the generator; C02_vec / C02_vect / C02_pt / C02_ptt = the four vector machines;
// C02_eqx; C02_flat; C02_compat.
#include "C02/common.h"
#include <igris/container/vector.h>
#include <igris/container/flat_map.h>
#include <igris/container/flat_set.h>
#include "C02/flat_ops.h" // g_fa_fired

// implemented in C02_compat.cpp (flat_map/flat_set/std::map/std::set over igris::vector)
std::string c02_compat(const std::string &line);

static int cmp_index(const std::string &name)
{
    if (name == "" || name == "less") return 0;
    if (name == "greater") return 1;
    if (name == "lastdigit") return 2;
    if (name == "sgreater") return 3;
    if (name == "dirdesc") return 4;
    return -1;
}

static MachBase *g_mach = nullptr;
static int g_mode = 0; // 0 none, 1 vector, 2 flat hosted, 3 flat compat

static void leftover(out &o)
{
    // a case that did not reach `end`
    delete g_mach;
    g_mach = nullptr;
    for (auto q : g_live)
        delete ((Tracked *)q)->heap;
    g_live.clear();
    g_blocks.clear();
    g_tot = Ev();
    (void)o;
}

// ---- calls BEFORE main(): a harness object of the earliest user priority runs a few operations from its constructor
// (static-initialisation-order dependencies: the function-local static of flat_map::operator[] const, allocator
// statics); a later op reports what it saw
struct PreMain
{
    std::string report;
    PreMain()
    {
        igris::vector<int> v;
        for (int i = 0; i < 5; i++)
            v.push_back(i * 3);
        v.insert(v.begin() + 1, 99);
        v.erase(v.begin() + 2, v.begin() + 4);
        igris::vector<int> c(v);
        igris::flat_map<int, int> m{{2, 20}, {1, 10}};
        const igris::flat_map<int, int> &cm = m;
        igris::flat_set<int> st;
        st.insert(4);
        st.insert(2);
        std::string s = std::to_string(v.size()) + ":";
        for (size_t k = 0; k < v.size(); k++)
            s += (k ? "," : "") + std::to_string(v[k]);
        s += " eq=" + std::to_string(c == v) + " cget=" + std::to_string(cm[7]) + "," + std::to_string(cm[1]) + " it=";
        for (auto &kv : m)
            s += std::to_string(kv.first) + ">" + std::to_string(kv.second) + ";";
        s += " set=" + std::to_string(st.count(2)) + std::to_string(st.count(3)) + std::to_string(st.size());
        report = s;
    }
};
static PreMain g_premain __attribute__((init_priority(101)));
static void run_op(const std::vector<std::string> &w, const std::string &line, out &o)
{
    if (!w.empty() && w[0] == "premain")
    {
        o.result = g_premain.report;
        if (o.result != "4:0,99,9,12 eq=1 cget=0,10 it=1>10;2>20; set=102")
            o.fail("operations run before main() answer differently");
        return;
    }
    if (w.size() == 3 && w[0] == "long")
    {
        size_t n = (size_t)atol(w[2].c_str());
        o.result = c02_long(w[1] == "p", n, o);
        o.tag("long-input");
        return;
    }
    if (w.empty())
    {
        o.result = "bad-op";
        return;
    }
    if (w[0] == "reset")
    {
        if (g_mach)
            leftover(o);
        g_fault.clear();
        std::string kind = w.size() > 1 ? w[1] : "";
        std::string var = w.size() > 2 ? w[2] : "";
        o.result = "ok";
        if (kind == "int" && var == "v") { g_mach = c02_mach_vi(); g_mode = 1; }
        else if (kind == "trk" && var == "v") { g_mach = c02_mach_vt(); g_mode = 1; }
        else if (kind == "int" && var == "p") { g_mach = c02_mach_pi(); g_mode = 1; }
        else if (kind == "trk" && var == "p") { g_mach = c02_mach_pt(); g_mode = 1; }
        else if (kind == "eqx" && w.size() > 3 && (w[3] == "v" || w[3] == "p"))
        {
            g_mode = 1;
            g_mach = c02_mach_eqx(var, w[3] == "p");
            if (!g_mach) { o.result = "bad-op"; o.fail("unknown element type"); g_mode = 0; }
        }
        else if (kind == "flat" && (var == "h" || var == "c") && cmp_index(w.size() > 3 ? w[3] : "") >= 0)
        {
            // `reset flat h|c [less|greater|lastdigit|sgreater]`
            int ci = cmp_index(w.size() > 3 ? w[3] : "");
            c02_mirror_select(ci);
            if (var == "h") { c02_flat_select(ci); g_mode = 2; }
            else if (ci == 4) { o.result = "bad-op"; o.fail("dirdesc is hosted only (compat/std/set declares no constructors)"); return; }
            else { c02_compat(line); g_mode = 3; }
        }
        else { o.result = "bad-op"; o.fail("unknown reset"); }
        return;
    }
    if (g_mode == 1 && g_mach)
        g_mach->step(w, o);
    else if (g_mode == 2 || g_mode == 3)
    {
        long fired = g_fa_fired;
        o.result = g_mode == 2 ? c02_flat_step(line) : c02_compat(line);
        // `afail <k> <op …>`: the oracle is the plain operation on std::map / std::set
        bool af = w[0] == "afail" && w.size() > 2;
        if (af)
            o.tag(g_fa_fired != fired ? "flat-alloc-refused" : "flat-alloc-not-reached");
        std::string exp = c02_mirror_step(af ? std::vector<std::string>(w.begin() + 2, w.end()) : w, o);
        if (o.result != exp)
            o.fail("std::map/std::set answer '" + exp + "'");
    }
    else
    {
        o.result = "bad-op";
        o.fail("no case");
    }
}

void c02_gen(rng &r, const std::string &tier); // C02_gen.cpp

int main(int argc, char **argv)
{
    return main_(argc, argv, c02_gen, run_op);
}
