// C02 harness: igris::vector (igris/container/vector.h AND the second copy in
// igris/container/std_portable.h), igris::flat_map / flat_set (hosted: over the
// libstdc++ vector; compat: over igris::vector through compat/std/{vector,map,set},
// see C02_compat.cpp) against the Lean model (IgrisModel/C02).
//
// Result line (compared with the model):  ret | the three vector registers as
// size:contents | cap=<verdict> (std::vector's capacity contract, see capverdict) | led=<verdict> (constructed -
// destroyed objects of the operation = change of the sizes).  Until round 2 the raw capacity and the raw event counts
//   ev=construct,move-construct,destroy,assign,move-assign,allocate,deallocate
// were part of the line; they depend on the growth policy, which the property does not fix (round 3, correction 0c).
// Oracle (independent of the model): a mirror std::vector<int> per register, the
// global live set of the instrumented element type (every constructed object
// registers `this`), a tracking allocator (block sizes, no live object inside a
// freed block) and ASan/UBSan/LSan.
#include "common/hv.h"
#include <map>
#include <set>
#include <unordered_set>
#include <memory>
#include <algorithm>
#include <functional>
#include <stdexcept>
#include <assert.h>
#include <inttypes.h>
#include <math.h>
#include <new>
#include <stdarg.h>
#include <stddef.h>
#include <stdint.h>
#include <stdio.h>
#include <stdlib.h>
#include <string.h>

#include <igris/container/vector.h>
#include <igris/container/flat_map.h>
#include <igris/container/flat_set.h>
// the second igris::vector lives in the same namespace: wrap it
namespace pt
{
#include <igris/container/std_portable.h>
}

using namespace hv;

// implemented in C02_compat.cpp (flat_map/flat_set/std::map/std::set over igris::vector)
std::string c02_compat(const std::string &line);

// ------------------------------------------------------------------ ledger
struct Ev
{
    long ctor = 0, mctor = 0, dtor = 0, asg = 0, masg = 0, alloc = 0, dealloc = 0;
};
static Ev g_ev;                 // events of the current operation
static Ev g_tot;                // events since reset
static std::string g_fault;     // first lifetime fault of the current operation
static std::unordered_set<const void *> g_live;
static std::map<const char *, std::pair<size_t, size_t>> g_blocks; // base -> (count, elemsize)

static void fault(const std::string &s)
{
    if (g_fault.empty())
        g_fault = s;
}

// exception injection: the element operations that may throw (default / value / copy construction, copy
// assignment; moves and the destructor are noexcept) count down a fuse; at 0 the operation throws BEFORE it
// changes anything and the fuse is disarmed.  -1 = disarmed.
struct Boom
{
};
static long g_fuse = -1;
static inline void tick()
{
    if (g_fuse == 0)
    {
        g_fuse = -1;
        throw Boom();
    }
    if (g_fuse > 0)
        g_fuse--;
}

// allocation-failure injection (round 3): the tracking allocator throws std::bad_alloc at the k-th allocation of
// the armed window (g_afuse, -1 = disarmed) or for every request above g_alimit elements (-1 = no limit)
static long g_afuse = -1;
static long g_alimit = -1;
static long g_afired = 0;

struct Tracked
{
    int val;
    char *heap; // owned; nullptr = moved-from
    bool isreg() const { return g_live.count(this) != 0; }
    void reg(const char *what)
    {
        if (isreg())
        {
            fault(std::string(what) + "-over-live");
            delete heap; // the object that was here is lost: keep LSan quiet, the fault is reported
        }
        g_live.insert(this);
    }
    int rd(const char *what) const
    {
        if (!isreg())
        {
            fault(std::string(what) + "-reads-dead");
            return -777;
        }
        if (!heap)
        {
            fault(std::string(what) + "-reads-moved-from");
            return -778;
        }
        return val;
    }
    Tracked()
    {
        tick();
        reg("construct");
        val = 0;
        heap = new char(0);
        g_ev.ctor++;
    }
    Tracked(int v)
    {
        tick();
        reg("construct");
        val = v;
        heap = new char((char)v);
        g_ev.ctor++;
    }
    Tracked(const Tracked &o)
    {
        tick();
        int v = o.rd("copy-construct");
        reg("construct");
        val = v;
        heap = new char((char)v);
        g_ev.ctor++;
    }
    Tracked(Tracked &&o) noexcept
    {
        int v = o.rd("move-construct");
        reg("construct");
        val = v;
        heap = new char((char)v);
        if (o.isreg() && o.heap)
        {
            delete o.heap;
            o.heap = nullptr;
        }
        g_ev.mctor++;
    }
    Tracked &operator=(const Tracked &o)
    {
        tick();
        g_ev.asg++;
        int v = o.rd("assign");
        if (!isreg())
        {
            fault("assign-to-dead");
            g_live.insert(this); // treat as construction so that the run can go on
            heap = nullptr;
        }
        val = v;
        if (!heap)
            heap = new char(0);
        *heap = (char)v;
        return *this;
    }
    Tracked &operator=(Tracked &&o) noexcept
    {
        g_ev.masg++;
        if (this == &o)
            return *this;
        int v = o.rd("move-assign");
        if (!isreg())
        {
            fault("move-assign-to-dead");
            g_live.insert(this);
            heap = nullptr;
        }
        val = v;
        if (!heap)
            heap = new char(0);
        *heap = (char)v;
        if (o.isreg() && o.heap)
        {
            delete o.heap;
            o.heap = nullptr;
        }
        return *this;
    }
    ~Tracked()
    {
        g_ev.dtor++;
        if (!isreg())
        {
            fault("destroy-dead");
            return;
        }
        g_live.erase(this);
        delete heap;
        heap = nullptr;
    }
    bool operator==(const Tracked &o) const { return rd("==") == o.rd("=="); }
    bool operator!=(const Tracked &o) const { return rd("!=") != o.rd("!="); }
    bool operator<(const Tracked &o) const { return rd("<") < o.rd("<"); }
};

template <class T> struct TA
{
    using value_type = T;
    TA() = default;
    template <class U> TA(const TA<U> &) {}
    T *allocate(size_t n)
    {
        if (g_afuse == 0)
        {
            g_afuse = -1;
            g_afired++;
            throw std::bad_alloc();
        }
        if (g_afuse > 0)
            g_afuse--;
        if (g_alimit >= 0 && n > (size_t)g_alimit)
        {
            g_afired++;
            throw std::bad_alloc();
        }
        g_ev.alloc++;
        // an exactly sized heap block: ASan sees every access outside it
        T *p = std::allocator<T>().allocate(n);
        g_blocks[(const char *)p] = {n, sizeof(T)};
        return p;
    }
    void deallocate(T *p, size_t n)
    {
        g_ev.dealloc++;
        auto it = g_blocks.find((const char *)p);
        if (it == g_blocks.end())
        {
            fault("deallocate-unknown-block");
            return;
        }
        if (it->second.first != n)
            fault("deallocate-size " + std::to_string(n) + " allocated " + std::to_string(it->second.first));
        const char *lo = (const char *)p, *hi = lo + it->second.first * it->second.second;
        std::vector<const void *> lost;
        for (auto q : g_live)
            if ((const char *)q >= lo && (const char *)q < hi)
                lost.push_back(q);
        if (!lost.empty())
        {
            fault("deallocate-with-" + std::to_string(lost.size()) + "-live-objects");
            for (auto q : lost)
            {
                delete ((Tracked *)q)->heap;
                g_live.erase(q);
            }
        }
        size_t real = it->second.first;
        g_blocks.erase(it);
        std::allocator<T>().deallocate(p, real);
    }
    bool operator==(const TA &) const { return true; }
    bool operator!=(const TA &) const { return false; }
};

static int peek(const int &x) { return x; }
static int peek(const Tracked &x) { return x.val; }

// ------------------------------------------------------------------ vector machine
struct MachBase
{
    virtual ~MachBase() {}
    virtual void step(const std::vector<std::string> &w, out &o) = 0;
};

static const int NREG = 3;

template <class V, class T, bool PORTABLE> struct Mach : MachBase
{
    V *r[NREG];
    std::vector<int> m[NREG];
    static constexpr bool TRK = std::is_same<T, Tracked>::value;

    Mach()
    {
        for (auto &p : r)
            p = new V();
    }
    ~Mach()
    {
        for (auto &p : r)
            delete p;
    }
    static std::string evs(const Ev &e)
    {
        char b[128];
        if (TRK)
            snprintf(b, sizeof b, "%ld,%ld,%ld,%ld,%ld,%ld,%ld", e.ctor, e.mctor, e.dtor, e.asg, e.masg, e.alloc, e.dealloc);
        else
            snprintf(b, sizeof b, "-,-,-,-,-,%ld,%ld", e.alloc, e.dealloc);
        return b;
    }
    std::string show(int i)
    {
        // round 3: the raw capacity is NOT part of the compared line (std::vector leaves the growth policy to the
        // implementation); what the contract fixes about it is judged by capverdict() and printed as `cap=ok`
        std::string s = std::to_string(r[i]->size()) + ":";
        if (r[i]->size() == 0)
            s += "-";
        for (size_t k = 0; k < r[i]->size(); k++)
            s += (k ? "," : "") + std::to_string(peek(r[i]->data()[k]));
        return s;
    }
    void check(out &o)
    {
        size_t total = 0;
        for (int i = 0; i < NREG; i++)
        {
            V &v = *r[i];
            if (v.size() != m[i].size())
                o.fail("size r" + std::to_string(i) + " " + std::to_string(v.size()) + " std::vector " + std::to_string(m[i].size()));
            else
                for (size_t k = 0; k < v.size(); k++)
                    if (peek(v.data()[k]) != m[i][k])
                    {
                        o.fail("element r" + std::to_string(i) + "[" + std::to_string(k) + "]=" + std::to_string(peek(v.data()[k])) + " std::vector " + std::to_string(m[i][k]));
                        break;
                    }
            if (v.capacity() < v.size())
                o.fail("capacity<size");
            if (v.empty() != m[i].empty())
                o.fail("empty()");
            total += v.size();
            if (TRK)
                for (size_t k = 0; k < v.size(); k++)
                {
                    if (!g_live.count((const void *)(v.data() + k)))
                        o.fail("slot r" + std::to_string(i) + "[" + std::to_string(k) + "] holds no constructed object");
                    else if (!((const Tracked *)(const void *)(v.data() + k))->heap)
                        o.fail("slot r" + std::to_string(i) + "[" + std::to_string(k) + "] is moved-from");
                }
        }
        if (TRK && g_live.size() != total)
            o.fail(std::to_string(g_live.size()) + " constructed objects, " + std::to_string(total) + " elements");
        size_t bl = 0;
        for (int i = 0; i < NREG; i++)
            if (r[i]->data())
            {
                bl++;
                auto it = g_blocks.find((const char *)r[i]->data());
                if (it == g_blocks.end() || it->second.first != r[i]->capacity())
                    o.fail("capacity() is not the size of the allocated block");
            }
        // round 3: a vector without a block has no capacity (a failed allocation must not leave one behind)
        for (int i = 0; i < NREG; i++)
            if (!r[i]->data() && r[i]->capacity() != 0)
                o.fail("capacity() " + std::to_string(r[i]->capacity()) + " without a block");
        if (g_blocks.size() != bl)
            o.fail(std::to_string(g_blocks.size()) + " blocks allocated, " + std::to_string(bl) + " owned");
        if (!g_fault.empty())
            o.fail("lifetime " + g_fault);
    }
    static T mk(int x) { return T(x); }

    // a foreign array of elements (insx / tctor), built and destroyed outside the event / fuse window
    struct ExtArr
    {
        T *p;
        size_t n;
        ExtArr(const std::vector<int> &xs) : n(xs.size())
        {
            Ev keep = g_ev;
            long f = g_fuse;
            g_fuse = -1;
            p = std::allocator<T>().allocate(n ? n : 1);
            for (size_t k = 0; k < n; k++)
                new ((void *)(p + k)) T(xs[k]);
            g_ev = keep;
            g_fuse = f;
        }
        ~ExtArr()
        {
            Ev keep = g_ev;
            long f = g_fuse;
            g_fuse = -1;
            for (size_t k = 0; k < n; k++)
                p[k].~T();
            std::allocator<T>().deallocate(p, n ? n : 1);
            g_ev = keep;
            g_fuse = f;
        }
    };

    // what std::vector's contract fixes about capacity(): capacity() >= size() always; an in-place operation never
    // shrinks it; it reallocates (data pointer / allocator event) only when the required size exceeds the old
    // capacity (reference stability); operations that do not grow never touch the block; reserve(n) => capacity >= n
    struct Snap
    {
        size_t sz[NREG], cap[NREG];
        const void *data[NREG];
    };
    Snap snap()
    {
        Snap s;
        for (int i = 0; i < NREG; i++)
        {
            s.sz[i] = r[i] ? r[i]->size() : 0;
            s.cap[i] = r[i] ? r[i]->capacity() : 0;
            s.data[i] = r[i] ? (const void *)r[i]->data() : nullptr;
        }
        return s;
    }
    static int opclass(const std::string &op)
    { // 1 = grows in place, 2 = never grows, 0 = replaces the object / the buffer (no promise)
        static const char *grow[] = {"push", "pushself", "eback", "ebackself", "ins", "insi", "insself", "empl", "emplself", "insr", "insx", "inss", "resize", "reserve"};
        static const char *same[] = {"pop", "erase", "eraseto", "erase1", "clear", "eq", "ne", "lt", "at", "cat", "idx", "fb", "iter", "riter"};
        for (auto g : grow) if (op == g) return 1;
        for (auto g : same) if (op == g) return 2;
        return 0;
    }
    std::string capverdict(const std::string &op, int a, long narg, const Snap &b, const Ev &ev, bool threw)
    {
        for (int i = 0; i < NREG; i++)
            if (r[i]->capacity() < r[i]->size())
                return "BAD-capacity<size";
        if (threw)
            return "ok";
        int c = opclass(op);
        V &v = *r[a];
        if (c == 1)
        {
            size_t need = (op == "reserve" || op == "resize") ? (size_t)narg : v.size();
            if (v.capacity() < b.cap[a])
                return "BAD-shrunk";
            if (op == "reserve" && v.capacity() < (size_t)narg)
                return "BAD-reserve-too-small";
            if (need <= b.cap[a] && (v.data() != b.data[a] || ev.alloc != 0 || ev.dealloc != 0))
                return "BAD-reallocated-inside-capacity";
        }
        else if (c == 2)
        {
            if (v.capacity() != b.cap[a] || v.data() != b.data[a] || ev.alloc != 0 || ev.dealloc != 0)
                return "BAD-block-changed";
        }
        return "ok";
    }
    static long sumsz(const Snap &s)
    {
        long t = 0;
        for (int i = 0; i < NREG; i++) t += (long)s.sz[i];
        return t;
    }

    // `a <k> <op …>`: the k-th allocation of the call fails (std::bad_alloc); `al <n> <op …>`: every request above n
    // elements fails.  After a failure the oracle judges the state the exception left (strong guarantee where
    // std::vector gives it: no effects), then the SAME operation is run again unarmed and its line is the result,
    // so that the compared line does not depend on the growth policy (whether an allocation was needed at all).
    void step(const std::vector<std::string> &w0, out &o) override
    {
        if ((w0[0] == "a" || w0[0] == "al") && w0.size() >= 3)
        {
            std::vector<std::string> w(w0.begin() + 2, w0.end());
            long k = atol(w0[1].c_str());
            bool failed = step1(w, o, w0[0] == "a" ? k : -1, w0[0] == "al" ? k : -1);
            std::string first = o.oracle;
            if (failed)
            {
                o.tag("alloc-failed");
                step1(w, o, -1, -1); // the caller goes on using the object: the same request, now granted
            }
            else
                o.tag("alloc-fuse-not-reached");
            o.result += std::string(" af=") + (first == "ok" ? "ok" : "BAD");
            return;
        }
        if (w0[0] == "alx" && w0.size() >= 3)
        { // a request no allocator grants (2^31 .. 2^63 elements): refused, no effects, no retry
            std::vector<std::string> w(w0.begin() + 2, w0.end());
            bool failed = step1(w, o, -1, atol(w0[1].c_str()));
            if (!failed)
                o.fail("the huge request was not refused");
            o.tag("alloc-huge-refused");
            return;
        }
        step1(w0, o, -1, -1);
    }

    // returns true when the (injected) allocation failure left the member function
    bool step1(const std::vector<std::string> &w0, out &o, long afuse, long alimit)
    {
        // `x <k> <op …>`: the k-th (from 0) throwing-capable element operation inside the member function throws
        std::vector<std::string> w = w0;
        long arm = -1;
        if (w[0] == "x" && w.size() >= 3 && TRK)
        {
            arm = atol(w[1].c_str());
            w.erase(w.begin(), w.begin() + 2);
        }
        bool threw = false;
        std::unique_ptr<T> xarg; // a value argument of the harness: built before and destroyed after the window
        const std::string &op = w[0];
        auto I = [&](size_t k) { return k < w.size() ? atoi(w[k].c_str()) : 0; };
        std::string ret = "-";
        Ev ev;
        g_fault.clear();
        int a = I(1);
        V *&v = r[a % NREG];
        std::vector<int> &mv = m[a % NREG];
#define BEGIN_EV (g_ev = Ev(), g_fuse = arm, g_afuse = afuse, g_alimit = alimit)
#define END_EV (ev = g_ev, g_fuse = -1, g_afuse = -1, g_alimit = -1)
        bool athrew = false;
        const Snap before = snap();
        try
        {
        if (op == "push")
        {
            xarg.reset(new T(mk(I(2))));
            T &x = *xarg;
            BEGIN_EV;
            v->push_back(x);
            END_EV;
            mv.push_back(I(2));
            if (v->capacity() == v->size())
                o.tag("full");
        }
        else if (op == "pushself")
        {
            BEGIN_EV;
            v->push_back((*v)[I(2)]);
            END_EV;
            mv.push_back(int(mv[I(2)]));
            o.tag("alias");
        }
        else if (op == "eback")
        {
            BEGIN_EV;
            v->emplace_back(I(2));
            END_EV;
            mv.emplace_back(I(2));
        }
        else if (op == "ebackself")
        {
            BEGIN_EV;
            v->emplace_back((*v)[I(2)]);
            END_EV;
            mv.push_back(int(mv[I(2)]));
            o.tag("alias");
        }
        else if (op == "pop")
        {
            BEGIN_EV;
            v->pop_back();
            END_EV;
            mv.pop_back();
        }
        else if (op == "ins" || op == "insi")
        {
            xarg.reset(new T(mk(I(3))));
            T &x = *xarg;
            bool grow = v->size() == v->capacity();
            BEGIN_EV;
            auto it = op == "ins" ? v->insert(v->begin() + I(2), x) : v->insert((int)I(2), x);
            END_EV;
            ret = std::to_string(it - v->begin());
            auto mi = mv.insert(mv.begin() + I(2), I(3));
            if (mi - mv.begin() != it - v->begin())
                o.fail("insert returns a different position");
            o.tag(grow ? "ins-grow" : "ins-room");
            if ((size_t)I(2) + 1 == v->size())
                o.tag("ins-end");
        }
        else if (op == "insself")
        {
            bool grow = v->size() == v->capacity();
            BEGIN_EV;
            auto it = v->insert(v->begin() + I(2), (*v)[I(3)]);
            END_EV;
            ret = std::to_string(it - v->begin());
            int x = mv[I(3)];
            mv.insert(mv.begin() + I(2), x);
            o.tag(grow ? "alias-grow" : "alias");
        }
        else if (op == "empl")
        {
            bool grow = v->size() == v->capacity();
            BEGIN_EV;
            auto it = v->emplace(v->begin() + I(2), I(3));
            END_EV;
            ret = std::to_string(it - v->begin());
            mv.emplace(mv.begin() + I(2), I(3));
            o.tag(grow ? "empl-grow" : "empl-room");
        }
        else if (op == "emplself")
        {
            BEGIN_EV;
            auto it = v->emplace(v->begin() + I(2), (*v)[I(3)]);
            END_EV;
            ret = std::to_string(it - v->begin());
            int x = mv[I(3)];
            mv.insert(mv.begin() + I(2), x);
            o.tag("alias");
        }
        else if (op == "insr")
        { // a range of the vector's own elements
            std::vector<int> rng(mv.begin() + I(3), mv.begin() + I(4));
            bool grow = v->size() + rng.size() > v->capacity();
            BEGIN_EV;
            auto it = v->insert(v->begin() + I(2), (const T *)v->begin() + I(3), (const T *)v->begin() + I(4));
            END_EV;
            ret = std::to_string(it - v->begin());
            mv.insert(mv.begin() + I(2), rng.begin(), rng.end());
            o.tag(grow ? "insr-grow" : "insr-room");
            if (I(3) < I(2) && I(2) < I(4))
                o.tag("insr-straddle");
        }
        else if (op == "insx")
        { // a foreign range (exactly sized heap array)
            size_t n = w.size() - 3;
            std::vector<int> rng;
            for (size_t k = 0; k < n; k++)
                rng.push_back(I(3 + k));
            ExtArr ea(rng);
            T *ext = ea.p;
            bool grow = v->size() + n > v->capacity();
            BEGIN_EV;
            auto it = v->insert(v->begin() + I(2), (const T *)ext, (const T *)ext + n);
            END_EV;
            ret = std::to_string(it - v->begin());
            mv.insert(mv.begin() + I(2), rng.begin(), rng.end());
            o.tag(grow ? "insx-grow" : "insx-room");
        }
        else if (op == "inss")
        {
            if constexpr (!PORTABLE)
            {
                xarg.reset(new T(mk(I(2))));
                T &x = *xarg;
                BEGIN_EV;
                auto it = v->insert_sorted(x);
                END_EV;
                ret = std::to_string(it - v->begin());
                auto mi = mv.insert(std::upper_bound(mv.begin(), mv.end(), I(2)), I(2));
                if (mi - mv.begin() != it - v->begin())
                    o.fail("insert_sorted position");
            }
        }
        else if (op == "erase")
        {
            BEGIN_EV;
            v->erase(v->begin() + I(2), v->begin() + I(3));
            END_EV;
            mv.erase(mv.begin() + I(2), mv.begin() + I(3));
            if (I(2) != I(3) && (size_t)I(3) < mv.size() + (I(3) - I(2)))
                o.tag("erase-mid");
        }
        else if (op == "eraseto")
        { // igris-only: erase(iterator newend) truncates
            BEGIN_EV;
            v->erase(v->begin() + I(2));
            END_EV;
            mv.erase(mv.begin() + I(2), mv.end());
        }
        else if (op == "erase1")
        { // std::vector::erase(pos) removes ONE element (finding probe)
            BEGIN_EV;
            v->erase(v->begin() + I(2));
            END_EV;
            mv.erase(mv.begin() + I(2));
        }
        else if (op == "resize")
        {
            size_t before = mv.size(), capb = v->capacity();
            // dirty the spare slots of an int vector explicitly: resize must VALUE-initialise (0), whatever was there
            if (!TRK && v->data())
                for (size_t k = before; k < capb; k++)
                    memset((void *)(v->data() + k), 0x5a, sizeof(T));
            BEGIN_EV;
            v->resize((size_t)strtoull(w[2].c_str(), nullptr, 10));
            END_EV;
            mv.resize(I(2));
            o.tag((size_t)I(2) > before ? ((size_t)I(2) <= capb ? "resize-grow-in-capacity" : "resize-grow-realloc") : "resize-shrink");
        }
        else if (op == "reserve")
        {
            size_t oc = v->capacity();
            BEGIN_EV;
            v->reserve((size_t)strtoull(w[2].c_str(), nullptr, 10));
            END_EV;
            mv.reserve(I(2));
            if (v->capacity() < (size_t)I(2))
                o.fail("reserve: capacity too small");
            if (v->capacity() != oc)
                o.tag("realloc");
        }
        else if (op == "clear")
        {
            BEGIN_EV;
            v->clear();
            END_EV;
            mv.clear();
        }
        else if (op == "inval")
        {
            BEGIN_EV;
            v->invalidate();
            END_EV;
            mv = std::vector<int>();
        }
        else if (op == "cctor" || op == "mctor" || op == "rctor" || op == "szctor" || op == "tctor" || op == "ilist")
        { // destroy register a, construct a new vector in its place
            BEGIN_EV;
            g_fuse = -1; // the destructor of the old object is outside the fuse window (it has no throwing operation anyway)
            delete v;
            v = nullptr;
            g_fuse = arm;
            int s = I(2) % NREG;
            if (op == "cctor")
            {
                v = new V(*r[s]);
                mv = std::vector<int>(m[s]);
                if (m[s].empty())
                    o.tag("copy-empty");
            }
            else if (op == "mctor")
            {
                v = new V(std::move(*r[s]));
                mv = std::vector<int>(std::move(m[s]));
                m[s].clear();
            }
            else if (op == "rctor")
            {
                v = new V(r[s]->begin() + I(3), r[s]->begin() + I(4));
                mv = std::vector<int>(m[s].begin() + I(3), m[s].begin() + I(4));
            }
            else if (op == "szctor")
            {
                v = new V((size_t)I(2));
                mv = std::vector<int>((size_t)I(2));
            }
            else if (op == "tctor")
            { // template <class I, class O> vector(I first, O last) with a foreign const range
                size_t n = w.size() - 2;
                std::vector<int> rng;
                for (size_t k = 0; k < n; k++)
                    rng.push_back(I(2 + k));
                ExtArr ea(rng);
                T *ext = ea.p;
                mv.clear();
                v = new V((const T *)ext, (const T *)ext + n);
                mv = rng;
            }
            else
            {
                if constexpr (!PORTABLE)
                {
                    // the backing array of the initializer list is n extra constructions + destructions
                    size_t n = w.size() - 2;
                    switch (n)
                    {
                    case 0: v = new V(std::initializer_list<T>{}); break;
                    case 1: v = new V{mk(I(2))}; break;
                    case 2: v = new V{mk(I(2)), mk(I(3))}; break;
                    case 3: v = new V{mk(I(2)), mk(I(3)), mk(I(4))}; break;
                    default: v = new V{mk(I(2)), mk(I(3)), mk(I(4)), mk(I(5))}; break;
                    }
                    mv.clear();
                    for (size_t k = 0; k < n && k < 4; k++)
                        mv.push_back(I(2 + k));
                }
                else
                    v = new V();
            }
            END_EV;
        }
        else if (op == "cas" || op == "mas")
        {
            int s = I(2) % NREG;
            BEGIN_EV;
            if (op == "cas")
                *v = *r[s];
            else
                *v = std::move(*r[s]);
            END_EV;
            if (op == "cas")
                mv = m[s];
            else if (a % NREG != s)
            {
                mv = std::move(m[s]);
                m[s].clear();
            }
            if (a % NREG == s)
                o.tag("self");
        }
        else if (op == "eq" || op == "ne" || op == "lt")
        {
            int s = I(2) % NREG;
            BEGIN_EV;
            bool b = false, e = false;
            if (op == "eq")
            {
                b = *v == *r[s];
                e = mv == m[s];
            }
            else if (op == "ne")
            {
                b = *v != *r[s];
                e = mv != m[s];
            }
            else
            {
                if constexpr (!PORTABLE)
                    b = *v < *r[s];
                e = mv < m[s];
            }
            END_EV;
            ret = b ? "1" : "0";
            if (b != e)
                o.fail("comparison differs from std::vector");
            o.tag(b ? "cmp-true" : "cmp-false");
        }
        else if (op == "at")
        {
            BEGIN_EV;
            if constexpr (!PORTABLE)
            {
                bool thrown = false, ethrown = false;
                int got = 0, exp = 0;
                try
                {
                    got = peek(v->at((size_t)I(2)));
                }
                catch (const std::out_of_range &)
                {
                    thrown = true;
                }
                try
                {
                    exp = mv.at((size_t)I(2));
                }
                catch (const std::out_of_range &)
                {
                    ethrown = true;
                }
                ret = thrown ? "throw" : std::to_string(got);
                if (thrown != ethrown || got != exp)
                    o.fail("at() differs from std::vector");
                if (thrown)
                    o.tag("at-throw");
            }
            END_EV;
        }
        else if (op == "cat")
        { // const at()
            BEGIN_EV;
            if constexpr (!PORTABLE)
            {
                const V &cv = *v;
                bool thrown = false, ethrown = false;
                int got = 0, exp = 0;
                try
                {
                    got = peek(cv.at((size_t)I(2)));
                }
                catch (const std::out_of_range &)
                {
                    thrown = true;
                }
                try
                {
                    exp = ((const std::vector<int> &)mv).at((size_t)I(2));
                }
                catch (const std::out_of_range &)
                {
                    ethrown = true;
                }
                ret = thrown ? "throw" : std::to_string(got);
                if (thrown != ethrown || got != exp)
                    o.fail("const at() differs from std::vector");
                if (thrown)
                    o.tag("at-throw");
            }
            END_EV;
        }
        else if (op == "idx")
        {
            BEGIN_EV;
            const V &cv = *v;
            int g1 = peek((*v)[(size_t)I(2)]), g2 = peek(cv[(size_t)I(2)]);
            END_EV;
            ret = std::to_string(g1);
            if (g1 != mv[I(2)] || g2 != mv[I(2)])
                o.fail("operator[] differs from std::vector");
        }
        else if (op == "fb")
        {
            BEGIN_EV;
            const V &cv = *v;
            int f = peek(v->front()), b = peek(v->back());
            int f2 = peek(cv.front()), b2 = peek(cv.back());
            END_EV;
            ret = std::to_string(f) + "," + std::to_string(b);
            if (f != mv.front() || b != mv.back() || f2 != f || b2 != b)
                o.fail("front/back differ from std::vector");
        }
        else if (op == "iter")
        { // begin()..end()
            BEGIN_EV;
            std::vector<int> got;
            for (auto it = v->begin(); it != v->end(); ++it)
                got.push_back(peek(*it));
            END_EV;
            ret = std::to_string(got.size());
            if (got != mv)
                o.fail("begin..end differs from std::vector");
        }
        else if (op == "riter")
        { // std::vector: for (it = rbegin(); it != rend(); ++it) visits the elements backwards
            BEGIN_EV;
            std::vector<long> got, exp;
            size_t guard = 0;
            for (auto it = v->rbegin(); it != v->rend() && guard < v->size() + 2; ++it, ++guard)
                got.push_back((long)(it - v->begin()));
            END_EV;
            for (size_t k = v->size(); k-- > 0;)
                exp.push_back((long)k);
            ret = std::to_string(got.size());
            if (got != exp)
                o.fail("rbegin..rend with ++ does not visit the elements in reverse order");
        }
        else if (op == "end")
        {
            BEGIN_EV;
            for (auto &p : r)
            {
                delete p;
                p = nullptr;
            }
            END_EV;
            Ev t = g_tot;
            t.ctor += ev.ctor; t.mctor += ev.mctor; t.dtor += ev.dtor; t.asg += ev.asg; t.masg += ev.masg;
            t.alloc += ev.alloc; t.dealloc += ev.dealloc;
            if (TRK && !g_live.empty())
                o.fail(std::to_string(g_live.size()) + " objects never destroyed");
            if (TRK && t.ctor + t.mctor != t.dtor)
                o.fail("constructed " + std::to_string(t.ctor + t.mctor) + " destroyed " + std::to_string(t.dtor));
            if (!g_blocks.empty() || t.alloc != t.dealloc)
                o.fail("allocated " + std::to_string(t.alloc) + " deallocated " + std::to_string(t.dealloc));
            if (!g_fault.empty())
                o.fail("lifetime " + g_fault);
            // round 3: the totals depend on how often the buffer was reallocated (growth policy); the property fixes
            // the BALANCE (constructed = destroyed, allocated = freed, nothing alive), which is what is printed
            bool bal = g_live.empty() && (!TRK || t.ctor + t.mctor == t.dtor) && g_blocks.empty() && t.alloc == t.dealloc;
            o.result = std::string("end bal=") + (bal ? "ok" : "BAD");
            for (auto q : g_live)
                delete ((Tracked *)q)->heap;
            g_live.clear();
            for (auto &p : r)
                p = new V();
            for (auto &x : m)
                x.clear();
            g_tot = Ev();
            return false;
        }
        else if (op == "widths")
        { // type widths the model embeds (size_t counters: no wrap below 2^64), read out of the compiled code
            char b[160];
            snprintf(b, sizeof b, "size=%zu cap=%zu diff=%zu idx=%zu obj=%zu", sizeof(decltype(v->size())), sizeof(decltype(v->capacity())),
                     sizeof(typename V::difference_type), sizeof(typename V::size_type), sizeof(V) / sizeof(void *));
            o.result = b;
            return false;
        }
        else
        {
            o.result = "bad-op";
            o.fail("unknown op");
            return false;
        }
        }
        catch (const Boom &)
        {
            threw = true;
        }
        catch (const std::bad_alloc &)
        {
            athrew = true;
        }
        g_fuse = -1;
        g_afuse = -1;
        g_alimit = -1;
        {
            Ev keep = g_ev; // the harness' own argument object is not an event of the operation
            xarg.reset();
            g_ev = keep;
        }
        if (threw)
        {
            // the injected exception left the member function.  STRONG guarantee where std::vector gives it
            // (single-element insertion at any position, resize, reserve, the constructors: no object comes to
            // exist): the mirror is left as it was and check() compares.  BASIC guarantee for the range insert and
            // copy assignment: the vector holds SOME valid sequence - the mirror is re-read from it and check()
            // still demands that every slot below size() holds a constructed, not moved-from object, that the
            // number of live objects is the sum of the sizes and that capacity() is the block size.
            ev = g_ev;
            ret = "threw";
            bool ctor_op = op == "cctor" || op == "tctor" || op == "rctor" || op == "szctor";
            bool basic = op == "insr" || op == "insx" || op == "cas";
            if (ctor_op)
            {
                if (!v)
                    v = new V();
                mv.clear();
            }
            else if (basic)
            {
                mv.clear();
                for (size_t k = 0; k < v->size(); k++)
                    mv.push_back(peek(v->data()[k]));
            }
            o.tag(basic ? "threw-basic" : ctor_op ? "threw-ctor" : "threw-strong");
        }
        else if (arm >= 0)
            o.tag("fuse-not-reached");
        if (athrew)
        {
            // the allocation failed.  std::vector: "no effects" for reserve / resize / push_back / emplace_back and
            // for every insert form when the exception does not come from an element operation; no object for the
            // constructors; a valid vector (basic guarantee) for copy assignment.
            ev = g_ev;
            ret = "badalloc";
            bool ctor_op = op == "cctor" || op == "tctor" || op == "rctor" || op == "szctor" || op == "ilist" || op == "mctor";
            if (ctor_op)
            {
                if (!v)
                    v = new V();
                mv.clear();
            }
            else if (op == "cas")
            {
                mv.clear();
                for (size_t k = 0; k < v->size() && k < v->capacity(); k++)
                    mv.push_back(peek(v->data()[k]));
            }
            else
            {
                int ai = a % NREG;
                if (v->capacity() != before.cap[ai] || (const void *)v->data() != before.data[ai])
                    o.fail("failed allocation changed capacity()/data(): capacity " + std::to_string(v->capacity()) + " was " + std::to_string(before.cap[ai]));
            }
        }
        g_tot.ctor += ev.ctor; g_tot.mctor += ev.mctor; g_tot.dtor += ev.dtor; g_tot.asg += ev.asg; g_tot.masg += ev.masg;
        g_tot.alloc += ev.alloc; g_tot.dealloc += ev.dealloc;
        std::string cv = capverdict(op, a % NREG, I(2), before, ev, threw || athrew);
        if (cv != "ok")
            o.fail("capacity contract: " + cv);
        // ledger verdict: objects constructed - destroyed by the operation = change of the number of elements
        bool ledok = !TRK || (ev.ctor + ev.mctor - ev.dtor == sumsz(snap()) - sumsz(before));
        if (!ledok)
            o.fail("constructed - destroyed objects of the operation differ from the change of the sizes");
        o.result = ret + " " + show(0) + " " + show(1) + " " + show(2) + " cap=" + cv + " led=" + (ledok ? "ok" : "BAD");
        check(o);
        return athrew;
    }
};

// ------------------------------------------------------------------ comparison with element types whose == is not
// the equality of the object representation (round 3): +0.0 / -0.0 and NaN, a record whose == ignores a field, a
// struct with padding bytes, a bool-like byte.  All are trivially copyable, so a bytewise "fast path" is tempting.
struct Rec
{
    int id, note;
    bool operator==(const Rec &o) const { return id == o.id; }
    bool operator!=(const Rec &o) const { return id != o.id; }
    bool operator<(const Rec &o) const { return id < o.id; }
};
struct Pad
{
    char tag; // 3 padding bytes follow
    int v;
    bool operator==(const Pad &o) const { return tag == o.tag && v == o.v; }
    bool operator!=(const Pad &o) const { return !(*this == o); }
    bool operator<(const Pad &o) const { return v < o.v; }
};
struct Flag
{
    unsigned char b; // any non-zero byte means "set"
    bool operator==(const Flag &o) const { return (b != 0) == (o.b != 0); }
    bool operator!=(const Flag &o) const { return (b != 0) != (o.b != 0); }
    bool operator<(const Flag &o) const { return (b != 0) < (o.b != 0); }
};
static_assert(std::is_trivially_copyable<Rec>::value && std::is_trivially_copyable<Pad>::value && std::is_trivially_copyable<Flag>::value, "");
template <class T> struct Decode;
template <> struct Decode<double>
{
    static double of(int c) { return c == 0 ? 0.0 : c == 1 ? -0.0 : c == 2 ? (double)NAN : (double)(c - 2); }
};
template <> struct Decode<float>
{
    static float of(int c) { return c == 0 ? 0.0f : c == 1 ? -0.0f : c == 2 ? (float)NAN : (float)(c - 2); }
};
template <> struct Decode<Rec>
{
    static Rec of(int c) { return Rec{c / 10, c % 10}; }
};
template <> struct Decode<Pad>
{
    static Pad of(int c)
    {
        Pad p;
        memset((void *)&p, 0x11 * (c % 10), sizeof p); // the padding bytes differ with c % 10
        p.tag = 'p';
        p.v = c / 10;
        return p;
    }
};
template <> struct Decode<Flag>
{
    static Flag of(int c) { return Flag{(unsigned char)c}; }
};
template <class V, class T, bool PORTABLE> struct EqMach : MachBase
{
    // `cmpx a1 a2 … | b1 b2 …` : A == B, A != B, A < B, A == A, copy(A) == A, B == A  against std::vector<T>
    void step(const std::vector<std::string> &w, out &o) override
    {
        if (w[0] != "cmpx")
        {
            o.result = "bad-op";
            o.fail("unknown op");
            return;
        }
        std::vector<T> sa, sb;
        bool second = false;
        for (size_t k = 1; k < w.size(); k++)
        {
            if (w[k] == "|") { second = true; continue; }
            (second ? sb : sa).push_back(Decode<T>::of(atoi(w[k].c_str())));
        }
        V a, b;
        for (size_t k = 0; k < sa.size(); k++)
        { // elementwise memcpy keeps the exact representation (padding bytes included)
            a.push_back(sa[k]);
            memcpy((void *)&a[k], (const void *)&sa[k], sizeof(T));
        }
        for (size_t k = 0; k < sb.size(); k++)
        {
            b.push_back(sb[k]);
            memcpy((void *)&b[k], (const void *)&sb[k], sizeof(T));
        }
        V ca(a);
        std::vector<T> sca(sa);
        std::string got, exp;
        auto bit = [](bool x) { return x ? "1" : "0"; };
        got += bit(a == b); exp += bit(sa == sb);
        got += bit(a != b); exp += bit(sa != sb);
        if constexpr (!PORTABLE)
            got += bit(a < b);
        else
            got += bit(std::lexicographical_compare(a.begin(), a.end(), b.begin(), b.end()));
        // C++17 meaning of operator< (std::lexicographical_compare with the element's <); the C++20 operator<=> of
        // std::vector<double> answers "unordered" (so: not less) as soon as a NaN is met - that difference is tagged
        exp += bit(std::lexicographical_compare(sa.begin(), sa.end(), sb.begin(), sb.end()));
        if ((sa < sb) != std::lexicographical_compare(sa.begin(), sa.end(), sb.begin(), sb.end()))
            o.tag("std20-spaceship-differs");
        got += bit(a == a); exp += bit(sa == sa);
        got += bit(ca == a); exp += bit(sca == sa);
        got += bit(b == a); exp += bit(sb == sa);
        o.result = got;
        if (got != exp)
            o.fail("comparison bits ==,!=,<,self==,copy==,reversed== are " + got + ", std::vector<T> gives " + exp);
        bool bytes_equal = sa.size() == sb.size() && (sa.empty() || memcmp((const void *)sa.data(), (const void *)sb.data(), sa.size() * sizeof(T)) == 0);
        if (bytes_equal != (sa == sb))
            o.tag("eq-differs-from-bytes");
        o.tag(sa == sb ? "cmpx-eq" : "cmpx-ne");
    }
};

// ------------------------------------------------------------------ flat_map / flat_set
#include "C02/flat_ops.h"
// hosted instantiations: comparator 0 = std::less (default), 1 = std::greater, 2 = by last digit (a strict
// weak order whose equivalence is coarser than ==), 3 = std::greater<std::string> on the decimal text
static FlatOps<igris::flat_map<int, int>, igris::flat_set<int>, int, int> g_flat0;
static FlatOps<igris::flat_map<int, int, std::greater<int>>, igris::flat_set<int, std::greater<int>>, int, int> g_flat1;
static FlatOps<igris::flat_map<int, int, ByLastDigit>, igris::flat_set<int, ByLastDigit>, int, int> g_flat2;
static FlatOps<igris::flat_map<std::string, int, std::greater<std::string>>, igris::flat_set<std::string, std::greater<std::string>>, int, std::string, std::string> g_flat3;
// comparator 4 = "dirdesc": the set is constructed from a comparator OBJECT, flat_set<int, Dir>(Dir(true)); the map
// has no such constructor and keeps the default-constructed (ascending) Dir
struct FlatOpsDir : FlatOps<igris::flat_map<int, int, Dir>, igris::flat_set<int, Dir>, int, int>
{
    void reset() override
    {
        fm = igris::flat_map<int, int, Dir>();
        fs = igris::flat_set<int, Dir>(Dir(true));
    }
};
static FlatOpsDir g_flat4;
static FlatBase *g_flats[5] = {&g_flat0, &g_flat1, &g_flat2, &g_flat3, &g_flat4};
static FlatBase *g_flat = &g_flat0;
static int cmp_index(const std::string &name)
{
    if (name == "" || name == "less") return 0;
    if (name == "greater") return 1;
    if (name == "lastdigit") return 2;
    if (name == "sgreater") return 3;
    if (name == "dirdesc") return 4;
    return -1;
}

// oracle: the same operation on real std::map / std::set, printed the same way
struct MirrorBase
{
    virtual ~MirrorBase() {}
    virtual void reset() = 0;
    virtual std::string step(const std::vector<std::string> &w, out &o) = 0;
};
// the same comparator type is handed to std::map / std::set
template <class K, class Cmp> struct FlatMirror : MirrorBase
{
    std::map<K, int, Cmp> mm;
    std::set<K, Cmp> ms;
    void reset() override
    {
        mm = std::map<K, int, Cmp>();
        ms = make_set((Cmp *)nullptr);
    }
    template <class C> static std::set<K, C> make_set(C *) { return std::set<K, C>(); }
    static std::set<K, Dir> make_set(Dir *) { return std::set<K, Dir>(Dir(true)); }
    std::string step(const std::vector<std::string> &w, out &o) override
    {
        auto I = [&](size_t k) { return MkKey<K>::of(k < w.size() ? atoi(w[k].c_str()) : 0); };
        auto V = [&](size_t k) { return k < w.size() ? atoi(w[k].c_str()) : 0; };
        const std::string &op = w[0];
        std::string exp = "-";
        if (op == "mset")
            mm[I(1)] = V(2);
        else if (op == "mget")
            exp = std::to_string(mm[I(1)]);
        else if (op == "mins")
        {
            auto p = mm.insert({I(1), V(2)});
            exp = std::to_string(unbox(p.first->first)) + ">" + std::to_string(p.first->second);
            o.tag(p.second ? "ins-new" : "ins-dup");
        }
        else if (op == "mempl")
        {
            auto p = mm.emplace(I(1), V(2));
            exp = std::to_string(p.second) + "," + std::to_string(p.first->second);
        }
        else if (op == "mfind")
        {
            auto it = mm.find(I(1));
            exp = it == mm.end() ? "end" : std::to_string(it->second);
        }
        else if (op == "mcount")
            exp = std::to_string(mm.count(I(1)));
        else if (op == "mat")
        {
            auto it = mm.find(I(1));
            exp = it == mm.end() ? "throw" : std::to_string(it->second);
            if (it == mm.end())
                o.tag("at-throw");
        }
        else if (op == "mclear")
            mm.clear();
        else if (op == "minit")
        {
            mm.clear();
            size_t n = std::min<size_t>((w.size() - 1) / 2, 4);
            for (size_t k = 0; k < n; k++)
                mm.insert({I(1 + 2 * k), V(2 + 2 * k)});
            o.tag(mm.size() != n ? "init-dup" : "init");
        }
        else if (op == "mcopy")
            exp = "10";
        else if (op == "miter")
        {
            exp = "";
            for (auto &kv : mm)
                exp += (exp.empty() ? "" : ",") + std::to_string(unbox(kv.first)) + ">" + std::to_string(kv.second);
            if (exp.empty())
                exp = "-";
            o.tag(mm.size() >= 3 ? "map-iter-3+" : "map-iter");
        }
        else if (op == "meq")
        { // two std::maps with the same entries are equal whatever the insertion order
            exp = "10";
            o.tag(mm.size() >= 2 ? "map-eq-2+" : "map-eq");
        }
        else if (op == "mcget")
        {
            auto it = mm.find(I(1));
            exp = it == mm.end() ? "0" : std::to_string(it->second);
            o.tag(it == mm.end() ? "cget-absent" : "cget-present");
        }
        else if (op == "mmisc")
        { // hosted only: forward | reverse | all the other members consistent
            std::string f, r;
            for (auto it = mm.begin(); it != mm.end(); ++it)
                f += (f.empty() ? "" : ",") + std::to_string(unbox(it->first)) + ">" + std::to_string(it->second);
            for (auto it = mm.rbegin(); it != mm.rend(); ++it)
                r += (r.empty() ? "" : ",") + std::to_string(unbox(it->first)) + ">" + std::to_string(it->second);
            exp = (f.empty() ? "-" : f) + "|" + (r.empty() ? "-" : r) + "|1";
        }
        else if (op == "smisc")
            exp = std::to_string(ms.size()) + "," + std::to_string(ms.size());
        else if (op == "ctrdtr")
            exp = std::to_string(V(1)) + "," + std::to_string(V(1)) + "," + std::to_string(V(1)) + ",1";
        else if (op == "mview")
        {
            static const std::map<int, int> ref{{1, 0}, {4, 10}, {7, 20}, {10, 30}};
            auto it = ref.find(V(1));
            exp = (it == ref.end() ? std::string("end") : std::to_string(std::distance(ref.begin(), it)) + ">" + std::to_string(it->second)) + ",4,4";
        }
        else if (op == "sins")
            o.tag(ms.insert(I(1)).second ? "set-new" : "set-dup");
        else if (op == "scount")
            exp = std::to_string(ms.count(I(1)));
        else if (op == "sclear")
            ms.clear();
        else if (op == "msize")
            exp = std::to_string(mm.size());
        else if (op == "ssize")
            exp = std::to_string(ms.size());
        else if (op == "siter")
        {
            exp = "";
            for (const K &k : ms)
                exp += (exp.empty() ? "" : ",") + std::to_string(unbox(k));
            if (exp.empty())
                exp = "-";
            o.tag(ms.size() >= 8 ? "set-iter-long" : "set-iter");
        }
        std::string s = exp + " m=" + std::to_string(mm.size()) + ":";
        bool first = true;
        // the map is printed in the order of the integer keys (flat_map's own order is not part of C02)
        std::vector<std::pair<int, int>> all;
        for (auto &kv : mm)
            all.push_back({unbox(kv.first), kv.second});
        std::stable_sort(all.begin(), all.end(), [](const std::pair<int, int> &x, const std::pair<int, int> &y) { return x.first < y.first; });
        for (auto &kv : all)
        {
            s += (first ? "" : ",") + std::to_string(kv.first) + ">" + std::to_string(kv.second);
            first = false;
        }
        if (first)
            s += "-";
        s += " s=" + std::to_string(ms.size()) + ":";
        first = true;
        for (const K &k : ms)
        {
            s += (first ? "" : ",") + std::to_string(unbox(k));
            first = false;
        }
        if (first)
            s += "-";
        return s;
    }
};
static FlatMirror<int, std::less<int>> g_mirror0;
static FlatMirror<int, std::greater<int>> g_mirror1;
static FlatMirror<int, ByLastDigit> g_mirror2;
static FlatMirror<std::string, std::greater<std::string>> g_mirror3;
static FlatMirror<int, Dir> g_mirror4;
static MirrorBase *g_mirrors[5] = {&g_mirror0, &g_mirror1, &g_mirror2, &g_mirror3, &g_mirror4};
static MirrorBase *g_mirror = &g_mirror0;

// ------------------------------------------------------------------ dispatch
using VI = igris::vector<int, TA<int>>;
using VT = igris::vector<Tracked, TA<Tracked>>;
using PI = pt::igris::vector<int, TA<int>>;
using PT = pt::igris::vector<Tracked, TA<Tracked>>;

static MachBase *g_mach = nullptr;
static int g_mode = 0; // 0 none, 1 vector, 2 flat hosted, 3 flat compat

static void leftover(out &o)
{
    // a case that did not reach `end`
    delete g_mach;
    g_mach = nullptr;
    for (auto q : g_live)
        delete ((Tracked *)q)->heap;
    g_live.clear();
    g_blocks.clear();
    g_tot = Ev();
    (void)o;
}

// ---- calls BEFORE main(): a harness object of the earliest user priority runs a few operations from its constructor
// (static-initialisation-order dependencies: the function-local static of flat_map::operator[] const, allocator
// statics); a later op reports what it saw
struct PreMain
{
    std::string report;
    PreMain()
    {
        igris::vector<int> v;
        for (int i = 0; i < 5; i++)
            v.push_back(i * 3);
        v.insert(v.begin() + 1, 99);
        v.erase(v.begin() + 2, v.begin() + 4);
        igris::vector<int> c(v);
        igris::flat_map<int, int> m{{2, 20}, {1, 10}};
        const igris::flat_map<int, int> &cm = m;
        igris::flat_set<int> st;
        st.insert(4);
        st.insert(2);
        std::string s = std::to_string(v.size()) + ":";
        for (size_t k = 0; k < v.size(); k++)
            s += (k ? "," : "") + std::to_string(v[k]);
        s += " eq=" + std::to_string(c == v) + " cget=" + std::to_string(cm[7]) + "," + std::to_string(cm[1]) + " it=";
        for (auto &kv : m)
            s += std::to_string(kv.first) + ">" + std::to_string(kv.second) + ";";
        s += " set=" + std::to_string(st.count(2)) + std::to_string(st.count(3)) + std::to_string(st.size());
        report = s;
    }
};
static PreMain g_premain __attribute__((init_priority(101)));

// one long history on ONE object (>= 300 KiB of elements): reserve, n push_backs, every element checked, insert in
// the middle, erase of a long range, resize up and down, copy, ==; linear in n.  The Lean driver does not run the slot
// model on it (a closed form of the spec): correspondence + oracle only.
template <class V> static std::string long_history(size_t n, out &o)
{
    V v;
    std::vector<int> m;
    v.reserve(n);
    m.reserve(n);
    const int *d0 = v.data();
    for (size_t i = 0; i < n; i++)
    {
        v.push_back((int)(i * 7 + 1));
        m.push_back((int)(i * 7 + 1));
    }
    if (v.data() != d0)
        o.fail("reallocation inside the reserved capacity");
    int x = -5;
    v.insert(v.begin() + n / 2, x);
    m.insert(m.begin() + n / 2, x);
    v.erase(v.begin() + 10, v.begin() + n / 4);
    m.erase(m.begin() + 10, m.begin() + n / 4);
    v.resize(v.size() + 1000);
    m.resize(m.size() + 1000);
    v.resize(v.size() - 500);
    m.resize(m.size() - 500);
    V c(v);
    bool same = v.size() == m.size();
    long long sum = 0;
    for (size_t i = 0; same && i < m.size(); i++)
    {
        same = v[i] == m[i];
        sum += v[i];
    }
    if (!same)
        o.fail("long history differs from std::vector");
    if (!(c == v) || (c != v))
        o.fail("copy of the long vector is not equal");
    return std::to_string(v.size()) + " " + std::to_string(sum) + " " + std::to_string(v.capacity() >= v.size());
}

static void run_op(const std::vector<std::string> &w, const std::string &line, out &o)
{
    if (!w.empty() && w[0] == "premain")
    {
        o.result = g_premain.report;
        if (o.result != "4:0,99,9,12 eq=1 cget=0,10 it=1>10;2>20; set=102")
            o.fail("operations run before main() answer differently");
        return;
    }
    if (w.size() == 3 && w[0] == "long")
    {
        size_t n = (size_t)atol(w[2].c_str());
        o.result = w[1] == "p" ? long_history<pt::igris::vector<int, TA<int>>>(n, o) : long_history<igris::vector<int, TA<int>>>(n, o);
        o.tag("long-input");
        return;
    }
    if (w.empty())
    {
        o.result = "bad-op";
        return;
    }
    if (w[0] == "reset")
    {
        if (g_mach)
            leftover(o);
        g_fault.clear();
        std::string kind = w.size() > 1 ? w[1] : "";
        std::string var = w.size() > 2 ? w[2] : "";
        o.result = "ok";
        if (kind == "int" && var == "v") { g_mach = new Mach<VI, int, false>(); g_mode = 1; }
        else if (kind == "trk" && var == "v") { g_mach = new Mach<VT, Tracked, false>(); g_mode = 1; }
        else if (kind == "int" && var == "p") { g_mach = new Mach<PI, int, true>(); g_mode = 1; }
        else if (kind == "trk" && var == "p") { g_mach = new Mach<PT, Tracked, true>(); g_mode = 1; }
        else if (kind == "eqx" && w.size() > 3 && (w[3] == "v" || w[3] == "p"))
        {
            bool pp = w[3] == "p";
            g_mode = 1;
#define EQM(T) (pp ? (MachBase *)new EqMach<pt::igris::vector<T>, T, true>() : (MachBase *)new EqMach<igris::vector<T>, T, false>())
            if (var == "dbl") g_mach = EQM(double);
            else if (var == "flt") g_mach = EQM(float);
            else if (var == "rec") g_mach = EQM(Rec);
            else if (var == "pad") g_mach = EQM(Pad);
            else if (var == "flag") g_mach = EQM(Flag);
            else { o.result = "bad-op"; o.fail("unknown element type"); g_mode = 0; }
        }
        else if (kind == "flat" && (var == "h" || var == "c") && cmp_index(w.size() > 3 ? w[3] : "") >= 0)
        {
            // `reset flat h|c [less|greater|lastdigit|sgreater]`
            int ci = cmp_index(w.size() > 3 ? w[3] : "");
            g_mirror = g_mirrors[ci];
            g_mirror->reset();
            if (var == "h") { g_flat = g_flats[ci]; g_flat->step("reset"); g_mode = 2; }
            else if (ci == 4) { o.result = "bad-op"; o.fail("dirdesc is hosted only (compat/std/set declares no constructors)"); return; }
            else { c02_compat(line); g_mode = 3; }
        }
        else { o.result = "bad-op"; o.fail("unknown reset"); }
        return;
    }
    if (g_mode == 1 && g_mach)
        g_mach->step(w, o);
    else if (g_mode == 2 || g_mode == 3)
    {
        o.result = g_mode == 2 ? g_flat->step(line) : c02_compat(line);
        std::string exp = g_mirror->step(w, o);
        if (o.result != exp)
            o.fail("std::map/std::set answer '" + exp + "'");
    }
    else
    {
        o.result = "bad-op";
        o.fail("no case");
    }
}

// ------------------------------------------------------------------ generator
struct Gen
{
    rng &R;
    std::vector<int> sz{0, 0, 0}, cap{0, 0, 0};
    bool portable = false;
    explicit Gen(rng &r) : R(r) {}
    std::string once; // prefix for the next emitted line only (`a <k> ` / `al <n> `: allocation failure)
    void emit(const std::string &s)
    {
        puts((once + s).c_str());
        once.clear();
    }
    static std::string S(int x) { return std::to_string(x); }
    int val() { return (int)R.range(0, 9); }
    int pos(int n) // boundary biased position in [0,n]
    {
        if (n == 0)
            return 0;
        switch (R.below(4))
        {
        case 0: return 0;
        case 1: return n;
        case 2: return n - 1;
        default: return (int)R.range(0, n);
        }
    }
    void begin(const char *ty, bool p)
    {
        portable = p;
        emit(std::string("reset ") + ty + (p ? " p" : " v"));
        sz = {0, 0, 0};
        cap = {0, 0, 0};
    }
    void grow(int r, int need)
    {
        if (need > cap[r])
            cap[r] = need;
    }
    // build register r with n elements and `slack` spare slots
    void build(int r, int n, int slack)
    {
        if (n + slack > 0)
        {
            emit("reserve " + S(r) + " " + S(n + slack));
            grow(r, n + slack);
        }
        for (int i = 0; i < n; i++)
        {
            emit((R.chance(50) ? "push " : "eback ") + S(r) + " " + S(1 + (int)R.below(9))); // non-zero: the memory is dirty afterwards
        }
        sz[r] = n;
    }
    // one operation on register r valid for the tracked size; returns false if not applicable.
    // fz >= 0: the operation is run with the exception fuse `x fz` (only kinds with a throwing-capable element
    // operation; the generator predicts whether the exception fires and what the vector holds afterwards)
    bool op(int kind, int r, int fz = -1)
    {
        int n = sz[r];
        std::string X = fz >= 0 ? "x " + S(fz) + " " : "";
        bool one = fz == 0; // kinds with exactly one throwing-capable operation throw iff the fuse is 0
        switch (kind)
        {
        case 0: emit(X + "push " + S(r) + " " + S(val())); if (one) return true; grow(r, n + 1); sz[r]++; return true;
        case 1: emit(X + "eback " + S(r) + " " + S(val())); if (one) return true; grow(r, n + 1); sz[r]++; return true;
        case 2: if (!n) return false; emit("pop " + S(r)); sz[r]--; return true;
        case 3: emit(X + (R.chance(80) ? "ins " : "insi ") + S(r) + " " + S(pos(n)) + " " + S(val())); if (one) return true; grow(r, n + 1); sz[r]++; return true;
        case 4: emit(X + "empl " + S(r) + " " + S(pos(n)) + " " + S(val())); if (one) return true; grow(r, n + 1); sz[r]++; return true;
        case 5: if (!n) return false; emit(X + "pushself " + S(r) + " " + S(pos(n - 1))); if (one) return true; grow(r, n + 1); sz[r]++; return true;
        case 6: if (!n) return false; emit(X + "insself " + S(r) + " " + S(pos(n)) + " " + S(pos(n - 1))); if (one) return true; grow(r, n + 1); sz[r]++; return true;
        case 7: if (!n) return false; emit(X + "ebackself " + S(r) + " " + S(pos(n - 1))); if (one) return true; grow(r, n + 1); sz[r]++; return true;
        case 8: if (!n) return false; emit(X + "emplself " + S(r) + " " + S(pos(n)) + " " + S(pos(n - 1))); if (one) return true; grow(r, n + 1); sz[r]++; return true;
        case 9:
        {
            int f = pos(n), l = pos(n);
            if (f > l) std::swap(f, l);
            int q = pos(n);
            emit(X + "insr " + S(r) + " " + S(q) + " " + S(f) + " " + S(l));
            if (l - f > 0) grow(r, n + l - f);
            if (fz >= 0 && fz < l - f) { sz[r] = q + fz; return true; } // basic guarantee: the prefix and the copies made so far
            sz[r] += l - f; return true;
        }
        case 10:
        {
            int k = (int)R.range(0, 4);
            int q = pos(n);
            std::string s = X + "insx " + S(r) + " " + S(q);
            for (int i = 0; i < k; i++) s += " " + S(val());
            emit(s);
            if (k > 0) grow(r, n + k);
            if (fz >= 0 && fz < k) { sz[r] = q + fz; return true; }
            sz[r] += k; return true;
        }
        case 11:
        {
            int f = pos(n), l = pos(n);
            if (f > l) std::swap(f, l);
            emit("erase " + S(r) + " " + S(f) + " " + S(l)); sz[r] -= l - f; return true;
        }
        case 12: { int k = pos(n); emit("eraseto " + S(r) + " " + S(k)); sz[r] = k; return true; }
        case 13: { int k = (int)R.range(0, n + 3); if (R.chance(30)) k = pos(n); emit(X + "resize " + S(r) + " " + S(k)); grow(r, k); if (fz >= 0 && fz < k - n) return true; sz[r] = k; return true; }
        case 14: { int k = (int)R.range(0, std::max(cap[r], n) + 3); emit("reserve " + S(r) + " " + S(k)); grow(r, k); return true; }
        case 15: emit("clear " + S(r)); sz[r] = 0; return true;
        case 16: emit("inval " + S(r)); sz[r] = 0; cap[r] = 0; return true;
        case 17: { int s = (r + 1 + (int)R.below(2)) % 3; emit(X + "cctor " + S(r) + " " + S(s)); if (fz >= 0 && fz < sz[s]) { sz[r] = 0; cap[r] = 0; return true; } sz[r] = sz[s]; cap[r] = sz[s]; return true; }
        case 18: { int s = (r + 1 + (int)R.below(2)) % 3; emit("mctor " + S(r) + " " + S(s)); sz[r] = sz[s]; cap[r] = cap[s]; sz[s] = 0; cap[s] = 0; return true; }
        case 19: { int s = (int)R.below(3); emit(X + "cas " + S(r) + " " + S(s)); if (s != r) { cap[r] = sz[s]; sz[r] = (fz >= 0 && fz < sz[s]) ? fz : sz[s]; } return true; }
        case 20: { int s = (int)R.below(3); emit("mas " + S(r) + " " + S(s)); if (s != r) { sz[r] = sz[s]; cap[r] = cap[s]; sz[s] = 0; cap[s] = 0; } return true; }
        case 21:
        {
            int s = (r + 1 + (int)R.below(2)) % 3;
            int f = pos(sz[s]), l = pos(sz[s]);
            if (f > l) std::swap(f, l);
            emit(X + "rctor " + S(r) + " " + S(s) + " " + S(f) + " " + S(l));
            if (fz >= 0 && fz < l - f) { sz[r] = 0; cap[r] = 0; return true; }
            sz[r] = l - f; cap[r] = l - f; return true;
        }
        case 22: return false;
        case 23:
        {
            int k = (int)R.range(0, 4);
            std::string s = X + "tctor " + S(r);
            for (int i = 0; i < k; i++) s += " " + S(val());
            emit(s);
            if (fz >= 0 && fz < k) { sz[r] = 0; cap[r] = 0; return true; }
            sz[r] = k; cap[r] = k; return true;
        }
        case 24:
        {
            if (portable) return false;
            int k = (int)R.range(0, 4);
            std::string s = "ilist " + S(r);
            for (int i = 0; i < k; i++) s += " " + S(val());
            emit(s); sz[r] = k; cap[r] = k; return true;
        }
        case 25: { int s = (int)R.below(3); emit(std::string(R.chance(50) ? "eq " : "ne ") + S(r) + " " + S(s)); return true; }
        case 26: { if (portable) return false; int s = (int)R.below(3); emit("lt " + S(r) + " " + S(s)); return true; }
        case 27: { if (portable) return false; emit(std::string(R.chance(50) ? "at " : "cat ") + S(r) + " " + S(R.chance(70) && n ? pos(n - 1) : n + (int)R.below(3))); return true; }
        case 28: if (!n) return false; emit("idx " + S(r) + " " + S(pos(n - 1))); return true;
        case 29: if (!n) return false; emit("fb " + S(r)); return true;
        case 30: emit("iter " + S(r)); return true;
        case 31: { if (portable) return false; emit("inss " + S(r) + " " + S(val())); grow(r, n + 1); sz[r]++; return true; }
        case 32: { int k = (int)R.range(0, 4); emit(X + "szctor " + S(r) + " " + S(k)); if (fz >= 0 && fz < k) { sz[r] = 0; cap[r] = 0; return true; } sz[r] = k; cap[r] = k; return true; }
        }
        return false;
    }
    static const int NKIND = 33;

    void history(const char *ty, bool p, int len)
    {
        bool trk = std::string(ty) == "trk";
        begin(ty, p);
        for (int i = 0; i < len; i++)
        {
            int r = (int)R.below(3);
            // keep sizes small so that every (position, capacity) state recurs
            int k;
            if (sz[r] > 7 && R.chance(60))
                k = R.chance(50) ? 11 : 12;
            else
                k = (int)R.below(NKIND);
            if (k == 22)
                k = 32;
            // exception injection (instrumented element type, vector.h): about one operation in eight of the kinds
            // that contain a throwing-capable element operation runs with a fuse of 0..3
            static const bool throwing[NKIND] = {1, 1, 0, 1, 1, 1, 1, 1, 1, 1, 1, 0, 0, 1, 0, 0, 0, 1, 0, 1, 0, 1, 0, 1, 0, 0, 0, 0, 0, 0, 0, 0, 1};
            if (trk && !p && throwing[k] && R.chance(13))
                op(k, r, (int)R.below(4));
            else
            {
                // allocation failure (all four builds): the k-th allocation of the call, or every request above a limit
                if (R.chance(10))
                    once = R.chance(70) ? "a " + S((int)R.below(2)) + " " : "al " + S((int)R.range(0, 6)) + " ";
                op(k, r);
                once.clear();
            }
        }
        emit("end");
    }

    // every (operation, position, size, spare capacity) for small sizes
    void exhaustive(const char *ty, bool p, int maxn, int stride, int &counter)
    {
        for (int n = 0; n <= maxn; n++)
            for (int slack : {0, 1, 3})
            {
                auto one = [&](const std::function<void()> &f) {
                    if ((counter++ % stride) != 0)
                        return;
                    begin(ty, p);
                    build(0, n, slack);
                    f();
                    emit("iter 0");
                    if (sz[0] > 0)
                        emit("fb 0");
                    emit("end");
                };
                for (int q = 0; q <= n; q++)
                {
                    one([&] { emit("ins 0 " + S(q) + " 7"); sz[0] = n + 1; });
                    one([&] { emit("empl 0 " + S(q) + " 7"); sz[0] = n + 1; });
                    one([&] { emit("eraseto 0 " + S(q)); sz[0] = q; });
                    one([&] { emit("insx 0 " + S(q) + " 7 8"); sz[0] = n + 2; });
                    one([&] { emit("insx 0 " + S(q) + " 7 8 9 6"); sz[0] = n + 4; });
                    for (int i = 0; i < n; i++)
                    {
                        one([&] { emit("insself 0 " + S(q) + " " + S(i)); sz[0] = n + 1; });
                        one([&] { emit("emplself 0 " + S(q) + " " + S(i)); sz[0] = n + 1; });
                    }
                    for (int f = 0; f <= n; f++)
                        for (int l = f; l <= n; l++)
                            one([&] { emit("insr 0 " + S(q) + " " + S(f) + " " + S(l)); sz[0] = n + l - f; });
                }
                for (int f = 0; f <= n; f++)
                    for (int l = f; l <= n; l++)
                    {
                        one([&] { emit("erase 0 " + S(f) + " " + S(l)); sz[0] = n - (l - f); });
                        one([&] { emit("rctor 1 0 " + S(f) + " " + S(l)); emit("eq 1 0"); });
                    }
                for (int i = 0; i < n; i++)
                {
                    one([&] { emit("pushself 0 " + S(i)); sz[0] = n + 1; });
                    one([&] { emit("ebackself 0 " + S(i)); sz[0] = n + 1; });
                }
                for (int k = 0; k <= n + 4; k++)
                {
                    one([&] { emit("resize 0 " + S(k)); sz[0] = k; });
                    one([&] { emit("reserve 0 " + S(k)); });
                }
                // value-initialisation on DIRTY memory: shrink (the slots keep the bytes of the destroyed elements), then
                // grow again inside the capacity; a recycled block (the freed block of the same size class comes back)
                for (int q = 0; q <= n; q++)
                    one([&] { emit("eraseto 0 " + S(q)); emit("resize 0 " + S(n + slack)); sz[0] = n + slack; });
                one([&] { emit("clear 0"); emit("resize 0 " + S(n + slack)); sz[0] = n + slack; });
                if (n)
                    one([&] { emit("pop 0"); emit("resize 0 " + S(n)); sz[0] = n; });
                one([&] { emit("inval 0"); emit("szctor 0 " + S(n + slack)); sz[0] = n + slack; });
                one([&] { emit("mctor 1 0"); emit("inval 1"); emit("szctor 0 " + S(n + slack)); sz[0] = n + slack; });
                one([&] { emit("push 0 5"); sz[0] = n + 1; });
                one([&] { emit("eback 0 5"); sz[0] = n + 1; });
                if (n)
                    one([&] { emit("pop 0"); sz[0] = n - 1; });
                one([&] { emit("clear 0"); sz[0] = 0; emit("push 0 1"); sz[0] = 1; });
                one([&] { emit("inval 0"); sz[0] = 0; emit("push 0 1"); sz[0] = 1; });
                one([&] { emit("cctor 1 0"); emit("eq 0 1"); emit("push 1 3"); emit("ne 0 1"); });
                one([&] { emit("mctor 1 0"); sz[0] = 0; emit("push 0 3"); sz[0] = 1; emit("push 1 4"); });
                // copy / move assignment onto targets of every shape
                for (int tn : {0, 1, 3})
                    for (int ts : {0, 2})
                    {
                        one([&] { build(1, tn, ts); emit("cas 1 0"); emit("eq 1 0"); emit("push 1 2"); });
                        one([&] { build(1, tn, ts); emit("mas 1 0"); sz[0] = 0; emit("push 0 2"); sz[0] = 1; emit("push 1 2"); });
                    }
                one([&] { emit("cas 0 0"); emit("mas 0 0"); });
                if (!p)
                {
                    for (int x = 0; x <= 9; x += 3)
                        one([&] { emit("inss 0 " + S(x)); sz[0] = n + 1; });
                    one([&] { emit("at 0 " + S(n)); emit("at 0 " + S(n + 5)); if (n) emit("at 0 " + S(n - 1)); if (n) emit("cat 0 " + S(n - 1)); });
                }
            }
    }

    // exception injection, exhaustively for small sizes (instrumented element type, vector.h): every operation that
    // contains a throwing-capable element operation, every position, every fuse value that fires; afterwards the
    // vector must be usable (push, iteration, front/back) and destructible without a leak (`end`)
    void exceptions(int maxn, int stride, int &counter)
    {
        for (int n = 0; n <= maxn; n++)
            for (int slack : {0, 1, 3})
            {
                auto one = [&](const std::string &line, int reg = 0) {
                    if ((counter++ % stride) != 0)
                        return;
                    begin("trk", false);
                    build(0, n, slack);
                    if (reg == 1)
                        build(1, 2, 1);
                    emit(line);
                    emit("push " + S(reg) + " 9");
                    emit("iter " + S(reg));
                    emit("fb " + S(reg));
                    emit("eq 0 1");
                    emit("end");
                };
                for (int q = 0; q <= n; q++)
                {
                    one("x 0 ins 0 " + S(q) + " 7");
                    one("x 0 empl 0 " + S(q) + " 7");
                    for (int k = 0; k < 3; k++)
                        one("x " + S(k) + " insx 0 " + S(q) + " 7 8 9");
                    for (int i = 0; i < n; i++)
                        one("x 0 insself 0 " + S(q) + " " + S(i));
                    for (int f = 0; f <= n; f++)
                        for (int l = f + 1; l <= n; l++)
                            for (int k : {0, l - f - 1})
                                if (k == 0 || l - f > 1)
                                    one("x " + S(k) + " insr 0 " + S(q) + " " + S(f) + " " + S(l));
                }
                one("x 0 push 0 5");
                one("x 0 eback 0 5");
                one("x 1 push 0 5"); // fuse not reached
                for (int i = 0; i < n; i++)
                    one("x 0 pushself 0 " + S(i));
                for (int m = n + 1; m <= n + 3; m++)
                    for (int k = 0; k < m - n; k++)
                        one("x " + S(k) + " resize 0 " + S(m));
                for (int k = 0; k < n; k++)
                {
                    one("x " + S(k) + " cas 1 0", 1);
                    one("x " + S(k) + " cctor 1 0", 1);
                    one("x " + S(k) + " rctor 1 0 0 " + S(n), 1);
                }
                for (int k = 0; k < 3; k++)
                {
                    one("x " + S(k) + " tctor 1 4 5 6", 1);
                    one("x " + S(k) + " szctor 1 3", 1);
                }
                if (n)
                    one("x 0 inss 0 4");
            }
    }

    // allocation failure, exhaustively for small sizes, all four builds: every growing operation at every position,
    // the constructors and copy assignment, with the first allocation failing (and a fuse that is not reached, and a
    // size limit); afterwards the object is used further (the retried operation, push, iteration, ==, destructors)
    void allocfail(const char *ty, bool p, int maxn, int stride, int &counter)
    {
        for (int n = 0; n <= maxn; n++)
            for (int slack : {0, 1, 3})
            {
                auto one = [&](const std::string &line, int reg = 0) {
                    if ((counter++ % stride) != 0)
                        return;
                    begin(ty, p);
                    build(0, n, slack);
                    if (reg == 1)
                        build(1, 2, 1);
                    emit(line);
                    emit("push " + S(reg) + " 9");
                    emit("iter " + S(reg));
                    emit("fb " + S(reg));
                    emit("reserve " + S(reg) + " " + S(n + slack + 6));
                    emit("cctor 2 " + S(reg));
                    emit("eq 2 " + S(reg));
                    emit("end");
                };
                for (int q = 0; q <= n; q++)
                {
                    one("a 0 ins 0 " + S(q) + " 7");
                    one("a 0 empl 0 " + S(q) + " 7");
                    one("a 0 insx 0 " + S(q) + " 7 8");
                    one("a 0 insx 0 " + S(q) + " 7 8 9 6");
                    for (int i = 0; i < n; i++)
                        one("a 0 insself 0 " + S(q) + " " + S(i));
                    for (int f = 0; f <= n; f++)
                        for (int l = f + 1; l <= n; l++)
                            if ((f + l + q) % 2 == 0)
                                one("a 0 insr 0 " + S(q) + " " + S(f) + " " + S(l));
                }
                one("a 0 push 0 5");
                one("a 0 eback 0 5");
                one("a 1 push 0 5"); // a second allocation does not exist
                for (int i = 0; i < n; i++)
                {
                    one("a 0 pushself 0 " + S(i));
                    one("a 0 ebackself 0 " + S(i));
                }
                for (int m : {n, n + slack, n + slack + 1, n + slack + 3})
                {
                    one("a 0 reserve 0 " + S(m));
                    one("a 0 resize 0 " + S(m));
                    one("al " + S(n + slack) + " reserve 0 " + S(m)); // the bounded allocator grants what is owned already
                    one("al " + S(n + slack) + " resize 0 " + S(m));
                }
                one("al 0 push 0 5");
                one("a 0 cas 1 0", 1);
                one("a 0 cctor 1 0", 1);
                one("a 0 mas 1 0", 1);
                one("a 0 mctor 1 0", 1);
                one("a 0 tctor 1 4 5 6", 1);
                one("a 0 szctor 1 3", 1);
                one("al 2 szctor 1 3", 1);
                for (int k = 0; k < n; k++)
                    one("a " + S(k) + " rctor 1 0 0 " + S(n), 1);
                if (n && !p)
                    one("a 0 inss 0 4");
            }
    }

    // ==, !=, < with element types whose == is not the equality of the object representation: every pair of vectors
    // of length <= 2 over a small alphabet of codes, plus longer random ones
    void eqx(const char *ty, bool p, const std::vector<int> &alpha, int extra)
    {
        std::vector<std::vector<int>> all{{}};
        for (int x : alpha)
            all.push_back({x});
        for (int x : alpha)
            for (int y : alpha)
                all.push_back({x, y});
        emit(std::string("reset eqx ") + ty + (p ? " p" : " v"));
        auto line = [&](const std::vector<int> &a, const std::vector<int> &b) {
            std::string s = "cmpx";
            for (int x : a) s += " " + S(x);
            s += " |";
            for (int x : b) s += " " + S(x);
            emit(s);
        };
        for (auto &a : all)
            for (auto &b : all)
                line(a, b);
        for (int i = 0; i < extra; i++)
        {
            std::vector<int> a, b;
            int n = (int)R.range(0, 6);
            for (int k = 0; k < n; k++)
                a.push_back(alpha[R.below(alpha.size())]);
            b = a;
            // mostly equal-valued twins that differ in representation, sometimes one element or the length changed
            for (auto &x : b)
                if (R.chance(40))
                    x = alpha[R.below(alpha.size())];
            if (R.chance(20))
                b.push_back(alpha[R.below(alpha.size())]);
            line(a, b);
        }
    }

    // the exception paths the std_portable.h copy shares with vector.h since the round-3 fixes (copy assignment and
    // the constructors; the single-element insertions build their temporary first): same fuses, same demands
    void exceptions_portable(int maxn)
    {
        for (int n = 0; n <= maxn; n++)
            for (int slack : {0, 2})
            {
                auto one = [&](const std::string &line, int reg = 0) {
                    begin("trk", true);
                    build(0, n, slack);
                    if (reg == 1)
                        build(1, 2, 1);
                    emit(line);
                    emit("push " + S(reg) + " 9");
                    emit("iter " + S(reg));
                    emit("eq 0 1");
                    emit("end");
                };
                one("x 0 push 0 5");
                one("x 0 ins 0 " + S(n / 2) + " 7");
                one("x 0 empl 0 " + S(n) + " 7");
                if (n)
                    one("x 0 insself 0 0 " + S(n - 1));
                for (int k = 0; k < n; k++)
                {
                    one("x " + S(k) + " cas 1 0", 1);
                    one("x " + S(k) + " cctor 1 0", 1);
                    one("x " + S(k) + " rctor 1 0 0 " + S(n), 1);
                }
                for (int k = 0; k < 3; k++)
                    one("x " + S(k) + " tctor 1 4 5 6", 1);
                one("x 0 szctor 1 3", 1);
            }
    }

    // comparisons: all pairs of short vectors over {1,2}
    void comparisons(const char *ty, bool p)
    {
        std::vector<std::vector<int>> all{{}};
        for (int len = 1; len <= 3; len++)
            for (int code = 0; code < (1 << len); code++)
            {
                std::vector<int> v;
                for (int i = 0; i < len; i++)
                    v.push_back(1 + ((code >> i) & 1));
                all.push_back(v);
            }
        for (auto &a : all)
        {
            begin(ty, p);
            std::string s = "tctor 0";
            for (int x : a) s += " " + S(x);
            emit(s);
            for (auto &b : all)
            {
                std::string t = "tctor 1";
                for (int x : b) t += " " + S(x);
                emit(t);
                emit("eq 0 1");
                emit("ne 0 1");
                if (!p)
                    emit("lt 0 1");
            }
            emit("end");
        }
    }

    // ---------------- flat_map / flat_set
    // cmp: "" (std::less), "greater", "lastdigit", "sgreater"
    std::string flat_reset(bool compat, const std::string &cmp)
    {
        return std::string("reset flat ") + (compat ? "c" : "h") + (cmp.empty() ? "" : " " + cmp);
    }
    void flat(bool compat, int len, int keys, int off = 0, const std::string &cmp = "")
    {
        emit(flat_reset(compat, cmp));
        for (int i = 0; i < len; i++)
        {
            int k = (int)R.range(0, keys) - off, v = (int)R.range(0, 99);
            switch (R.below(20))
            {
            case 17: emit(compat || R.chance(60) ? "miter" : R.chance(50) ? "mmisc" : R.chance(50) ? "smisc" : "mview " + S(k)); break;
            case 18: emit(R.chance(40) ? "meq" : "mcget " + S(k)); break;
            case 19: emit(R.chance(45) ? "miter" : R.chance(10) ? "ctrdtr " + S(v) : "mcget " + S(k)); break;
            case 13: emit(R.chance(50) ? "msize" : "ssize"); break;
            case 14: emit("siter"); break;
            case 15: emit("sins " + S(k)); break;
            case 0: emit("mset " + S(k) + " " + S(v)); break;
            case 1: emit("mget " + S(k)); break;
            case 2: case 3: emit("mins " + S(k) + " " + S(v)); break;
            case 4: emit("mempl " + S(k) + " " + S(v)); break;
            case 5: emit("mfind " + S(k)); break;
            case 6: emit("mcount " + S(k)); break;
            case 7: emit("mat " + S(k)); break;
            case 8: if (R.chance(10)) emit("mclear"); else emit("mcopy"); break;
            case 9: case 10: emit("sins " + S(k)); break;
            case 11: emit("scount " + S(k)); break;
            case 12: if (R.chance(10)) emit("sclear"); else emit("scount " + S(k)); break;
            default:
                if (R.chance(15))
                {
                    // initializer list, with duplicate keys in half of the cases (all 27 three-entry
                    // patterns: see flat_init_dups)
                    int n = (int)R.range(0, 4);
                    bool dups = R.chance(50);
                    std::vector<int> ks;
                    std::string s = "minit";
                    for (int j = 0; j < n; j++)
                    {
                        int kk;
                        do kk = (int)R.range(0, dups ? 2 : keys + 4) - off; while (!dups && std::find(ks.begin(), ks.end(), kk) != ks.end());
                        ks.push_back(kk);
                        s += " " + S(kk) + " " + S((int)R.range(0, 99));
                    }
                    emit(s);
                }
                else
                    emit("mcount " + S(k));
            }
        }
    }
    // step = 1: keys 0,1,2; step = 10 (by-last-digit comparator): 0,10,20 are ONE key, probed as 0,1,2 / 10 / 20
    void flat_init_dups(bool compat, const std::string &cmp = "", int step = 1)
    {
        for (int a = 0; a < 3; a++)
            for (int b = 0; b < 3; b++)
                for (int c = 0; c < 3; c++)
                {
                    emit(flat_reset(compat, cmp));
                    emit("minit " + S(a * step) + " 10 " + S(b * step) + " 20 " + S(c * step) + " 30");
                    if (step != 1)
                        for (int k = 0; k < 3; k++)
                        {
                            emit("mcount " + S(k * step));
                            emit("mfind " + S(k * step + 10));
                        }
                    for (int k = 0; k < 3; k++)
                    {
                        emit("mcount " + S(k));
                        emit("mfind " + S(k));
                        emit("mat " + S(k));
                    }
                    emit("mset 1 5");
                    emit("mcount 1");
                    emit("miter");
                    emit("meq");
                    emit("mcget 1");
                    emit("mcget 7");
                }
    }
    // every insertion order of up to 4 distinct keys (set + map insert)
    void flat_orders(bool compat, const std::string &cmp = "")
    {
        std::vector<int> p{1, 2, 3, 4};
        do
        {
            emit(flat_reset(compat, cmp));
            for (int k : p)
            {
                emit("sins " + S(k));
                emit("mins " + S(k) + " " + S(k * 10));
            }
            emit("sins " + S(p[1]));
            emit("mins " + S(p[2]) + " 77");
            emit("miter");
            // the same four keys through the other insertion paths (operator[] write / read, emplace), then one more
            // through insert: every path must keep the storage in key order
            emit("mclear");
            emit("mset " + S(p[0]) + " 1");
            emit("mempl " + S(p[1]) + " 2");
            emit("mget " + S(p[2]));
            emit("mins " + S(p[3]) + " 4");
            emit("mins " + S(p[0] + 4) + " 5");
            emit("miter");
            emit("meq");
            if (!compat)
            {
                emit("mmisc");
                emit("smisc");
            }
            if (!cmp.empty())
            {
                // keys that are equivalent to a stored one under the by-last-digit order, new ones under the others
                emit("sins " + S(p[0] + 10));
                emit("mins " + S(p[3] + 10) + " 88");
                emit("siter");
                emit("ssize");
                emit("msize");
                emit("scount " + S(p[2] + 20));
                emit("mcount " + S(p[1] + 20));
                emit("mat " + S(p[1] + 20));
            }
            for (int k = 0; k <= 5; k++)
            {
                emit("scount " + S(k));
                emit("mcount " + S(k));
            }
        } while (std::next_permutation(p.begin(), p.end()));
    }
};

static void gen(rng &r, const std::string &tier)
{
    bool th = tier == "thorough";
    Gen g(r);
    // findings (outside the normal stream)
    for (const char *ty : {"int", "trk"})
        for (bool p : {false, true})
        {
            g.begin(ty, p);
            g.emit("tctor 0 1 2 3 4");
            g.emit("@F:C02-erase-pos erase1 0 1");
            g.emit("end");
            g.begin(ty, p);
            g.emit("tctor 0 1 2 3");
            g.emit("@F:C02-reverse-iterators riter 0");
            g.emit("end");
        }
    // std_portable.h: resize / insert(pos, first, last) have no handler (the header contains no try / catch at all)
    g.begin("trk", true);
    g.emit("push 0 1");
    g.emit("@F:C02-portable-exception-paths x 1 resize 0 3");
    g.emit("@F:C02-portable-exception-paths end"); // the object left behind m_size is never destroyed
    g.begin("trk", true);
    g.emit("tctor 0 1 2 3");
    g.emit("@F:C02-portable-exception-paths x 1 insx 0 1 7 8 9");
    g.emit("@F:C02-portable-exception-paths end");
    int counter = (int)r.below(1000);
    for (const char *ty : {"trk", "int"})
        for (bool p : {false, true})
        {
            bool full = th || (std::string(ty) == "trk" && !p);
            g.exhaustive(ty, p, th ? 5 : 4, full ? 1 : 3, counter);
            if (std::string(ty) == "trk" || th)
                g.comparisons(ty, p);
        }
    g.exceptions(th ? 5 : 4, 1, counter);
    g.exceptions_portable(th ? 4 : 3);
    g.emit("premain");
    g.emit("long v 80000"); // 320 000 bytes of int
    g.emit("long p 80000");
    if (th)
        g.emit("long v 1000000");
    // requests no allocator grants: 2^31, 2^32, 2^61 (n * sizeof(T) = 2^63), 2^62, 2^63 elements
    for (const char *ty : {"trk", "int"})
        for (bool p : {false, true})
            for (const char *big : {"2147483648", "4294967296", "2305843009213693952", "4611686018427387904", "9223372036854775808"})
            {
                g.begin(ty, p);
                g.build(0, 2, 1);
                g.emit(std::string("alx 4096 reserve 0 ") + big);
                g.emit(std::string("alx 4096 resize 0 ") + big);
                g.emit("push 0 5");
                g.emit("iter 0");
                g.emit("end");
            }
    // round 3: type widths, allocation failure, comparison under a non-bytewise element equality
    for (const char *ty : {"trk", "int"})
        for (bool p : {false, true})
        {
            g.begin(ty, p);
            g.emit("widths 0");
            g.emit("end");
            bool full = th || (std::string(ty) == "trk" && !p);
            g.allocfail(ty, p, th ? 4 : 3, full ? 1 : 3, counter);
        }
    for (bool p : {false, true})
    {
        g.eqx("dbl", p, {0, 1, 2, 3}, th ? 400 : 40);
        g.eqx("flt", p, {0, 1, 2, 4}, th ? 400 : 40);
        g.eqx("rec", p, {10, 11, 20}, th ? 400 : 40);
        g.eqx("pad", p, {10, 13, 27}, th ? 400 : 40);
        g.eqx("flag", p, {0, 1, 2}, th ? 400 : 40);
    }
    int hist = th ? 4000 : 260;
    for (int i = 0; i < hist; i++)
    {
        const char *ty = r.chance(70) ? "trk" : "int";
        g.history(ty, r.chance(40), (int)r.range(20, 70));
    }
    for (bool c : {false, true})
    {
        g.flat_init_dups(c);
        g.flat_orders(c);
        for (int i = 0; i < (th ? 600 : 40); i++)
            g.flat(c, (int)r.range(20, 80), r.chance(50) ? 5 : 12);
        // long bisections: up to 41 keys (negative ones included) in the set / the map
        for (int i = 0; i < (th ? 150 : 10); i++)
            g.flat(c, (int)r.range(80, 160), 40, 20);
        // non-default comparators (handed to flat_map / flat_set / the compat std::map / std::set and to the
        // std::map / std::set of the oracle): descending, equivalence classes by last digit, descending text
        for (const char *cmp : {"greater", "lastdigit", "sgreater", "dirdesc"})
        {
            if (c && std::string(cmp) == "dirdesc")
                continue; // hosted only
            g.flat_init_dups(c, cmp, std::string(cmp) == "lastdigit" ? 10 : 1);
            g.flat_orders(c, cmp);
            for (int i = 0; i < (th ? 200 : 12); i++)
            {
                int keys = r.chance(50) ? 12 : 40;
                g.flat(c, (int)r.range(30, 100), keys, r.chance(50) ? keys / 2 : 0, cmp);
            }
        }
    }
}

int main(int argc, char **argv)
{
    return main_(argc, argv, gen, run_op);
}
