// C03 harness: helpers shared by the two generator translation units (C03_gen.cpp, C03_gen2.cpp;
// split in round 3b so that they compile in parallel).  Pure text generation, no igris code.
#ifndef IGRIS_VERIF_C03_GEN_H
#define IGRIS_VERIF_C03_GEN_H
// C03 harness, third translation unit (compiled in parallel, see checks/C03.json "sources"):
// the operation generator (`gen <seed> <tier>`); pure text generation, no igris code.
#include "common/hv.h"
#include <climits>
#include <cstring>
#include <algorithm>

using namespace hv;
typedef std::vector<uint8_t> bytes;
static std::string S(int64_t v) { return std::to_string(v); }

// ------------------------------------------------------------------------ gen
static const std::vector<uint8_t> SPECIAL = {0xff, 0x80, 0x00, 0x7f, 0x01, 0xfe, 0x81, 0xff, 0xff};
[[maybe_unused]] static uint8_t rbyte(rng &r, int mode) { return mode == 0 ? r.pick(SPECIAL) : (uint8_t)r.next(); }
[[maybe_unused]] static std::string rhex(rng &r, size_t n)
{
    bytes m(n);
    int mode = (int)r.below(3);
    for (auto &x : m) x = rbyte(r, mode);
    return hex(m);
}
[[maybe_unused]] static void P(const std::string &s) { puts(s.c_str()); }

// reach (head, tail) through the API only, with `fill` chosen bytes stored
[[maybe_unused]] static void reach(unsigned size, unsigned h, unsigned t, unsigned salt)
{
    P("reset ring " + S(size) + " " + S(size));
    if (t) { P("mh " + S(t)); P("mt " + S(t)); }
    unsigned k = (h + size - t) % size;
    if (k)
    {
        bytes d(k);
        for (unsigned i = 0; i < k; i++) d[i] = SPECIAL[(i + salt) % 7];
        P("write " + hex(d));
    }
}

void gen_ext(hv::rng &r, bool th);
void gen_lifetime();
void gen_round3(hv::rng &r, bool th);
void gen_round3b(hv::rng &r, bool th);
#endif
