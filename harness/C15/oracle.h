// C15: the oracles (reference editor, VT100 interpreters, key-grammar editor) and the `session` that drives one
// terminal object against them; shared by harness/C15.cpp (sline / readline ops) and harness/C15/term.cpp
// (terminal ops).  Round 3b: split out of C15.cpp so that the translation units compile in parallel.
#ifndef IGRIS_VERIF_C15_ORACLE_H
#define IGRIS_VERIF_C15_ORACLE_H
#include "common/hv.h"
#include "C15/iface.h"
#include "C15/alpha.h"
#include <deque>
#include <memory>
#include <functional>
#include <cstring>
using hv::hex;
using hv::out;
using namespace c15;

// ================================================================== the oracle
// Reference editor: two strings around the cursor, a capacity, a list of
// remembered lines.  Written from the key semantics, shares nothing with igris.
struct ref_editor
{
    size_t cap, depth;
    bool ctrlc; // terminal level: 0x03 aborts the line; readline level: 0x03 is a character
    std::string left, right;
    std::deque<std::string> hist; // most recent first, always `depth` entries (empty lines at first)
    size_t browse = 0;            // 0: editing; k: showing the k-th most recent line
    int esc = 0;                  // 0 text, 1 after ESC, 2 after ESC [, 3 after ESC [ 3
    uint8_t prev = 0;             // previous byte (0 after the swallowed half of a CR LF pair)

    ref_editor(size_t cap_, size_t depth_, bool ctrlc_) : cap(cap_), depth(depth_), ctrlc(ctrlc_), hist(depth_, std::string()) {}
    std::string line() const { return left + right; }
    size_t len() const { return left.size() + right.size(); }
    void load(const std::string &s)
    {
        left = s;
        right.clear();
    }
    void fresh_line()
    {
        left.clear();
        right.clear();
        browse = 0;
        esc = 0;
    }
    // returns: 0 nothing, 1 line accepted (in `accepted`), 2 interrupt
    int key(uint8_t c, std::string &accepted)
    {
        if (ctrlc && c == 3)
        {
            fresh_line();
            return 2;
        }
        switch (esc)
        {
        case 1:
            esc = (c == '[') ? 2 : 0;
            prev = c;
            return 0;
        case 2:
            esc = 0;
            prev = c;
            switch (c)
            {
            case 'A':
                if (depth && browse < depth)
                    load(hist[browse++]);
                break;
            case 'B':
                if (depth && browse > 0)
                {
                    browse--;
                    load(browse ? hist[browse - 1] : std::string());
                }
                break;
            case 'C':
                if (!right.empty())
                {
                    left.push_back(right[0]);
                    right.erase(0, 1);
                }
                break;
            case 'D':
                if (!left.empty())
                {
                    right.insert(right.begin(), left.back());
                    left.pop_back();
                }
                break;
            case '3':
                if (!right.empty())
                    right.erase(0, 1);
                esc = 3;
                break;
            }
            return 0;
        case 3:
            esc = 0;
            prev = c;
            return 0;
        }
        if (c == '\r' || c == '\n')
        {
            if ((prev == '\r' || prev == '\n') && prev != c)
            {
                prev = 0;
                return 0;
            }
            prev = c;
            accepted = line();
            if (depth && !accepted.empty() && accepted != hist[0])
            {
                // remembered as a C string: up to the first NUL (a NUL can be typed, it is not a key of the property)
                hist.push_front(accepted.substr(0, accepted.find('\0')));
                hist.pop_back();
            }
            browse = 0;
            return 1;
        }
        prev = c;
        if (c == 8)
        {
            if (!left.empty())
                left.pop_back();
        }
        else if (c == 27)
            esc = 1;
        else if (len() + 1 < cap)
            left.push_back((char)c);
        return 0;
    }
};

// VT100 interpreter for one row: enough for what a line editor may send.
struct ref_screen
{
    std::string row;
    size_t col = 0;
    int st = 0;
    long arg = -1;
    bool unknown = false; // saw something this interpreter does not understand
    void put(uint8_t b)
    {
        switch (st)
        {
        case 0:
            if (b == 27)
                st = 1;
            else if (b == '\r')
                col = 0;
            else if (b == '\n')
                row.clear();
            else if (b >= 0x20 && b <= 0x7e)
            {
                if (col > row.size())
                    row.append(col - row.size(), ' ');
                if (col == row.size())
                    row.push_back((char)b);
                else
                    row[col] = (char)b;
                col++;
            }
            else
                unknown = true;
            break;
        case 1:
            if (b == '[')
            {
                st = 2;
                arg = -1;
            }
            else
            {
                st = 0;
                unknown = true;
            }
            break;
        case 2:
            if (b >= '0' && b <= '9')
                arg = (arg < 0 ? 0 : arg) * 10 + (b - '0');
            else
            {
                long n = arg <= 0 ? 1 : arg;
                if (b == 'D')
                    col = (size_t)n > col ? 0 : col - n;
                else if (b == 'C')
                    col += n;
                else if (b == 'K')
                {
                    if (col < row.size())
                        row.resize(col);
                }
                else
                    unknown = true;
                st = 0;
            }
            break;
        }
    }
    void feed(const std::string &s)
    {
        for (unsigned char c : s)
            put(c);
    }
};

// A terminal with W columns and auto-wrap (xterm / VT100 with DECAWM on), as a grid: a glyph in the last column
// leaves the cursor there with the wrap pending; the next glyph goes to column 0 of the next row.  CUB / CUF stay on
// the row.  Written on its own (grid + cursor), shares nothing with the Lean WScreen.
struct wterm
{
    size_t W;
    std::vector<std::string> grid{std::string()};
    size_t r = 0, c = 0;
    bool pend = false;
    int st = 0;
    long arg = -1;
    explicit wterm(size_t w) : W(w) {}
    void glyph(char b)
    {
        if (pend)
        {
            r++;
            if (r == grid.size()) grid.push_back(std::string());
            c = 0;
            pend = false;
        }
        std::string &row = grid[r];
        if (c > row.size()) row.append(c - row.size(), ' ');
        if (c == row.size()) row.push_back(b);
        else row[c] = b;
        if (c + 1 < W) c++;
        else pend = true;
    }
    void put(uint8_t b)
    {
        if (st == 0)
        {
            if (b == 27) st = 1;
            else if (b == '\r') { c = 0; pend = false; }
            else if (b == '\n')
            {
                r++;
                if (r == grid.size()) grid.push_back(std::string());
                pend = false;
            }
            else if (b == 8) { if (c) c--; pend = false; }
            else if (b >= 0x20 && b <= 0x7e) glyph((char)b);
        }
        else if (st == 1)
        {
            if (b == '[') { st = 2; arg = -1; }
            else st = 0;
        }
        else
        {
            if (b >= '0' && b <= '9') arg = (arg < 0 ? 0 : arg) * 10 + (b - '0');
            else
            {
                size_t n = arg <= 0 ? 1 : (size_t)arg;
                if (b == 'D') { c = n > c ? 0 : c - n; pend = false; }
                else if (b == 'C') { c = c + n < W ? c + n : W - 1; pend = false; }
                else if (b == 'K') { if (c < grid[r].size()) grid[r].resize(c); }
                st = 0;
            }
        }
    }
    void feed(const std::string &s) { for (unsigned char ch : s) put(ch); }
    std::string show() const { return std::to_string(r) + "," + std::to_string(c) + "," + (pend ? "1" : "0") + "," + hex(grid[r]); }
};

// Second, decoder-free oracle (the grammar of lean/IgrisModel/C15/Keys.lean): the typed bytes are cut into key
// presses (level 1: Enter = CR | LF | CR LF | LF CR, Ctrl-C transparent for the pairing; level 2: ESC [ A/B/C/D,
// ESC [ 3 x, unknown ESC x / ESC [ x ignored, Ctrl-C aborts a sequence) and a key-press editor consumes them.
// No escape state, no "previous byte": the whole session is parsed at once.
struct key_editor
{
    size_t cap, depth;
    std::string left, right;
    std::deque<std::string> hist;
    size_t browse = 0;
    std::vector<std::string> events; // "X<hex>" / "S"
    key_editor(size_t c, size_t d) : cap(c), depth(d), hist(d, std::string()) {}
    enum { NL = -1, INTR = -2 };
    void fresh() { left.clear(); right.clear(); browse = 0; }
    void run(const std::string &bytes)
    {
        std::vector<int> sy;
        int pair = -1; // the byte that would be the second half of the Enter just seen
        for (unsigned char c : bytes)
        {
            if (c == 3) sy.push_back(INTR);
            else if (c == '\r' || c == '\n')
            {
                if (pair == c) pair = -1;
                else { sy.push_back(NL); pair = c == '\r' ? '\n' : '\r'; }
            }
            else { sy.push_back(c); pair = -1; }
        }
        size_t i = 0, n = sy.size();
        auto intr = [&]() { fresh(); events.push_back("S"); };
        while (i < n)
        {
            int s = sy[i++];
            if (s == INTR) intr();
            else if (s == NL)
            {
                std::string l = left + right;
                events.push_back("X" + hex(l));
                if (depth && !l.empty() && l != hist[0]) { hist.push_front(l.substr(0, l.find('\0'))); hist.pop_back(); }
                fresh();
            }
            else if (s == 8) { if (!left.empty()) left.pop_back(); }
            else if (s != 27) { if (left.size() + right.size() + 1 < cap) left.push_back((char)s); }
            else
            {
                if (i == n) break;
                int d = sy[i++];
                if (d == INTR) { intr(); continue; }
                if (d != '[') continue; // unknown ESC x (x may be Enter)
                if (i == n) break;
                int e = sy[i++];
                if (e == INTR) { intr(); continue; }
                switch (e)
                {
                case 'A': if (depth && browse < depth) { left = hist[browse++]; right.clear(); } break;
                case 'B': if (depth && browse > 0) { browse--; left = browse ? hist[browse - 1] : std::string(); right.clear(); } break;
                case 'C': if (!right.empty()) { left.push_back(right[0]); right.erase(0, 1); } break;
                case 'D': if (!left.empty()) { right.insert(right.begin(), left.back()); left.pop_back(); } break;
                case '3':
                    if (!right.empty()) right.erase(0, 1);
                    if (i < n) { if (sy[i] == INTR) intr(); i++; }
                    break;
                default: break; // unknown ESC [ x
                }
            }
        }
    }
};


static bool screen_safe(uint8_t c) { return (c >= 0x20 && c <= 0x7e) || c == 8 || c == 13 || c == 10 || c == 27 || c == 3; }

// one terminal session: implementation, reference editor and screen side by side
struct session
{
    std::unique_ptr<ivterm> v;
    ref_editor ref;
    ref_screen scr;
    bool cxx, echo, safe = true, pending_prompt = true; // nothing is printed before the first call
    unsigned cap;
    std::string prompt_now = "$ ", PROMPT = "$ "; // what set_prompt stored last / what the current row starts with
    std::string fail;
    bool want_record = true;
    unsigned tagbits = 0;
    static const char *tagname(int i)
    {
        static const char *N[] = {"enter-empty", "enter-line", "ctrl-c", "hist-recall", "hist-recall-deep", "recall-cursor-midline",
                                  "hist-recall-nonempty", "midline-redraw", "full-line-key", "crlf-pair", "delete-key", 0};
        return N[i];
    }
    void tag(const char *t)
    {
        for (int i = 0; tagname(i); i++)
            if (!strcmp(tagname(i), t))
                tagbits |= 1u << i;
    }
    static std::string tagstr(unsigned bits)
    {
        std::string r;
        for (int i = 0; tagname(i); i++)
            if (bits & (1u << i))
                r += std::string(r.empty() ? "" : ",") + tagname(i);
        return r;
    }
    void bad(const std::string &w, const std::string &keys)
    {
        if (fail.empty())
            fail = w + " after keys " + hex(keys);
    }
    std::string keys;
    std::vector<std::string> allev; // every callback event of the session, in order
    bool last_accept = false;
    // the whole session against the key grammar (decoder-free oracle)
    void check_grammar(unsigned depth)
    {
        key_editor ke(cap, depth);
        ke.run(keys);
        if (ke.events != allev)
        {
            size_t i = 0;
            while (i < ke.events.size() && i < allev.size() && ke.events[i] == allev[i]) i++;
            bad("callback event #" + std::to_string(i) + " is " + (i < allev.size() ? allev[i] : std::string("missing")) +
                    ", the key grammar expects " + (i < ke.events.size() ? ke.events[i] : std::string("none")),
                keys);
        }
        else if (!(cxx && last_accept) && (v->text() != ke.left + ke.right || v->cursor() != ke.left.size()))
            bad("final line / cursor differ from the key-press editor's '" + hex(ke.left + ke.right) + "' / " + std::to_string(ke.left.size()), keys);
    }
    session(bool cxx_, unsigned cap_, unsigned depth, bool echo_)
        : v(cxx_ ? make_vterm_x(cap_, depth, echo_) : make_vterm_c(cap_, depth, echo_)), ref(cap_, depth, true), cxx(cxx_), echo(echo_), cap(cap_)
    {
    }
    static bool printable(const std::string &p)
    {
        for (unsigned char ch : p) if (ch < 0x20 || ch > 0x7e) return false;
        return true;
    }
    void set_prompt(const std::string &p)
    {
        prompt_now = p;
        v->set_prompt(p);
    }
    void set_echo(bool e)
    {
        echo = e;
        safe = false; // the screen has missed (or will miss) output: only lines, events, bounds are judged from here on
        v->set_echo(e);
    }
    void prompt_printed()
    {
        PROMPT = prompt_now;
        if (!printable(PROMPT)) safe = false; // a prompt the screen cannot show (witness theorem)
    }
    std::string init_step()
    {
        v->echoed.clear();
        v->evs.clear();
        bool owed = pending_prompt;
        v->init_step();
        if (owed) prompt_printed();
        pending_prompt = false;
        if (!v->evs.empty()) bad("callback event during an init step", keys);
        if (echo ? v->echoed != (owed ? PROMPT : std::string()) : !v->echoed.empty())
            bad("init step wrote '" + hex(v->echoed) + "'", keys);
        scr.feed(v->echoed);
        check_screen();
        return v->echoed;
    }
    void check_screen()
    {
        if (!echo || !safe)
            return;
        std::string want = (pending_prompt ? std::string() : PROMPT) + ref.line();
        size_t wcol = (pending_prompt ? 0 : PROMPT.size()) + ref.left.size();
        if (scr.unknown)
            bad("terminal output contains a sequence outside {printable, CR, LF, ESC[nD, ESC[nC, ESC[K}", keys);
        else if (scr.row != want)
            bad("screen row '" + scr.row + "' != prompt + line '" + want + "'", keys);
        else if (scr.col != wcol)
            bad("screen cursor column " + std::to_string(scr.col) + " != " + std::to_string(wcol), keys);
    }
    // returns the canonical record of this key.  mode 0: (int16_t)(unsigned char)c; mode 1: the byte held in a
    // `char` and passed as it is (what igris' own callers do); mode 2: the int16_t `raw` (c = its low 8 bits)
    std::string key(uint8_t c, int mode = 0, int16_t raw = 0)
    {
        if (pending_prompt) prompt_printed(); // the call starts with the prologue
        keys.push_back((char)c);
        if (!screen_safe(c))
            safe = false;
        v->echoed.clear();
        v->evs.clear();
        size_t hist_browse_before = ref.browse;
        bool midline = !ref.right.empty();
        bool full = ref.len() + 1 >= cap;
        int esc_before = ref.esc;
        size_t cur_before = ref.left.size();
        if (mode == 0) v->key(c);
        else if (mode == 1)
        {
            char ch = (char)c;
            v->key16(ch);
        }
        else v->key16(raw);
        for (auto &e : v->evs) allev.push_back(e.exec ? "X" + hex(e.line) : std::string("S"));
        std::string acc;
        int r = ref.key(c, acc);
        last_accept = r == 1;
        // ---- events
        std::string es;
        if (want_record)
        {
            for (auto &e : v->evs)
                es += std::string(es.empty() ? "" : "+") + (e.exec ? "X" + hex(e.line) : "S");
            if (es.empty())
                es = "-";
        }
        if (r == 1)
        {
            if (v->evs.size() != 1 || !v->evs[0].exec)
                bad("Enter did not produce exactly one execute callback", keys);
            else
            {
                if (v->evs[0].line != acc)
                    bad("line handed to execute '" + hex(v->evs[0].line) + "' != reference editor's '" + hex(acc) + "'", keys);
                if (!v->evs[0].nul_ok)
                    bad("line handed to execute is not NUL-terminated", keys);
            }
            tag(acc.empty() ? "enter-empty" : "enter-line");
        }
        else if (r == 2)
        {
            if (v->evs.size() != 1 || v->evs[0].exec)
                bad("Ctrl-C did not produce exactly one SIGINT", keys);
            tag("ctrl-c");
        }
        else if (!v->evs.empty())
            bad("callback event on a key that neither accepts nor aborts the line", keys);
        // after accept / abort the terminal starts a fresh line
        if (r == 1)
            ref.fresh_line();
        // ---- the automata stay in their enumerated states (the `default:` branches are dead); judged when the
        //      state fields can be named (the escape state by the READLINE_STATE_* names, not their numbers)
        {
            int st = v->state(), rs = v->rlstate();
            if (st != NOT_VISIBLE && !(st == 2 || (cxx && r == 1 && st == 1)))
                bad("terminal automaton state " + std::to_string(st) + " after a key", keys);
            if (rs != NOT_VISIBLE && (rs < 0 || rs > 3 || rs != ref.esc))
                bad("readline escape state " + std::to_string(rs) + " != reference decoder's " + std::to_string(ref.esc), keys);
        }
        // ---- editor state (the line is not visible: the record carries the reference's values, the terminal is
        //      judged by its callbacks and its output)
        if (!v->line_visible())
        {
            if (cxx && r == 1) v->shadow((unsigned)acc.size(), (unsigned)cur_before, acc);
            else v->shadow((unsigned)ref.len(), (unsigned)ref.left.size(), ref.line());
        }
        unsigned len = v->len(), cur = v->cursor();
        if (!(cur <= len && len < cap))
            bad("bounds: cursor " + std::to_string(cur) + " len " + std::to_string(len) + " cap " + std::to_string(cap), keys);
        else if (cxx && r == 1)
        {
            // igris::vtermxx returns right after the execute callback: the line is
            // reset (and the prompt printed) at the start of the next call
            if (v->text() != acc)
                bad("edit buffer after Enter != accepted line", keys);
        }
        else if (v->text() != ref.line())
            bad("edit buffer '" + hex(v->text()) + "' != reference line '" + hex(ref.line()) + "'", keys);
        else if (cur != ref.left.size())
            bad("cursor " + std::to_string(cur) + " != reference cursor " + std::to_string(ref.left.size()), keys);
        // ---- echo off: the write callback is never used
        if (!echo && !v->echoed.empty())
            bad("echo is off but " + std::to_string(v->echoed.size()) + " bytes were written", keys);
        // ---- screen
        pending_prompt = cxx && r == 1;
        if (r == 2 || (r == 1 && !cxx)) prompt_printed(); // the new prompt ends this call's output
        scr.feed(v->echoed);
        check_screen();
        // ---- coverage markers
        if (ref.browse != hist_browse_before && ref.browse)
        {
            tag("hist-recall");
            if (ref.browse >= 2)
                tag("hist-recall-deep");
            if (midline)
                tag("recall-cursor-midline");
            if (!ref.line().empty())
                tag("hist-recall-nonempty");
        }
        if (midline && v->echoed.size() > 3)
            tag("midline-redraw");
        if (full && c >= 0x20 && c < 0x7f && esc_before == 0 && r == 0)
            tag("full-line-key");
        if (r == 0 && (c == '\r' || c == '\n') && ref.prev == 0)
            tag("crlf-pair");
        if (ref.esc == 3)
            tag("delete-key");
        if (!want_record)
            return std::string();
        return std::to_string(len) + "," + std::to_string(cur) + "," + hex(v->echoed) + "," + es;
    }
};

// ------------------------------------------------------------- FNV-1a digest
struct fnv
{
    uint64_t h = 0xcbf29ce484222325ull;
    void b(unsigned x) { h = (h ^ (uint64_t)(x & 255)) * 0x100000001b3ull; }
    void bytes(const std::string &s)
    {
        b((unsigned)s.size());
        for (unsigned char c : s)
            b(c);
    }
    void key(ivterm &v)
    {
        b(v.len());
        b(v.cursor());
        bytes(v.echoed);
        b((unsigned)v.evs.size());
        for (auto &e : v.evs)
            if (e.exec)
            {
                b(1);
                bytes(e.line);
            }
            else
                b(2);
    }
};


#endif
