// C15: the op generator (`gen <seed> <tier>`).  Generator-only code: compiled at -O0 (it runs for a fraction of
// a second; optimising and instrumenting its many string expressions was a third of the quick tier's wall time).
#pragma GCC optimize("O0")
#include "common/hv.h"
#include "C15/alpha.h"
using hv::hex;

// ===================================================================== gen
static void emit(const std::string &s) { puts(s.c_str()); }

static std::string hx(const std::string &s) { return hex(s); }

// a "mostly valid" typing session: words, edits in the middle, recalls, over-long lines
static std::string typing(hv::rng &r, unsigned cap, unsigned depth, size_t maxkeys, bool wide)
{
    static const std::string UP = "\x1b[A", DOWN = "\x1b[B", LEFT = "\x1b[D", RIGHT = "\x1b[C", DEL = "\x1b[3~";
    std::string k;
    auto letters = [&](size_t n)
    {
        for (size_t i = 0; i < n; i++)
            k.push_back(wide ? (char)r.range(0x20, 0x7e) : (char)('a' + r.below(r.chance(70) ? 3 : 26)));
    };
    int nl = (int)r.below(4); // newline style of this session: CR, LF, CRLF, LFCR
    auto enter = [&]()
    {
        int s = r.chance(85) ? nl : (int)r.below(4);
        k += s == 0 ? "\r" : s == 1 ? "\n" : s == 2 ? "\r\n" : "\n\r";
    };
    while (k.size() < maxkeys)
    {
        unsigned p = (unsigned)r.below(100);
        if (p < 22) letters(r.range(1, 3));
        else if (p < 28) letters(r.chance(50) ? cap - 1 : r.range(cap - 2 > 0 ? cap - 2 : 0, cap + 3)); // fill / overfill
        else if (p < 40) enter();
        else if (p < 50) { size_t n = r.range(1, depth + 2); for (size_t i = 0; i < n; i++) k += UP; }
        else if (p < 56) { size_t n = r.range(1, depth + 1); for (size_t i = 0; i < n; i++) k += DOWN; }
        else if (p < 68) { size_t n = r.range(1, r.chance(20) ? cap + 1 : 3); for (size_t i = 0; i < n; i++) k += LEFT; }
        else if (p < 75) { size_t n = r.range(1, 3); for (size_t i = 0; i < n; i++) k += RIGHT; }
        else if (p < 83) { size_t n = r.range(1, r.chance(15) ? cap + 1 : 2); k.append(n, '\x08'); }
        else if (p < 89) k += DEL;
        else if (p < 92) k.push_back('\x03');
        else if (p < 94) { k += "\x1b"; k.push_back((char)r.range(0x20, 0x7e)); }             // unknown ESC x
        else if (p < 96) { k += "\x1b["; k.push_back("EFGHZ012456789~;?"[r.below(17)]); }      // unknown ESC [ x
        else if (p < 97) { k += "\x1b[3"; k.push_back(r.chance(50) ? '~' : (char)r.range(0x20, 0x7e)); }
        else if (p < 98) k += r.chance(50) ? "\x1b\x1b[A" : "\x1b\x03[A";
        else if (p < 99) { k += "\x1b"; enter(); }
        else k.push_back("\x1b[ABCD3~"[r.below(8)]);
    }
    return k.substr(0, maxkeys);
}

// raw bytes, any value (NUL rarely), control keys frequent
static std::string noise(hv::rng &r, size_t n)
{
    static const std::string hot = "\x08\r\n\x1b[ABCD3~\x03\x7f\t";
    std::string k;
    for (size_t i = 0; i < n; i++)
        k.push_back(r.chance(55) ? hot[r.below(hot.size())] : r.chance(80) ? (char)r.range(0x20, 0x7e) : (char)r.range(r.chance(10) ? 0 : 1, 255));
    return k;
}

static void gen_sl_exhaustive(unsigned cap, unsigned L, const char *var)
{
    static const std::vector<std::string> toks = {"p61", "p62", "n6364", "n65666768", "n-", "b1", "b2", "d1", "d2", "l", "r", "z", "g"};
    std::vector<size_t> idx(L, 0);
    for (;;)
    {
        std::string s = std::string("sl ") + var + " " + std::to_string(cap);
        for (size_t i : idx) s += " " + toks[i];
        emit(s);
        size_t p = L;
        while (p > 0 && ++idx[p - 1] == toks.size()) idx[--p] = 0;
        if (p == 0) break;
    }
}

uint64_t c15_gen_seed = 1;
#define gen_seed c15_gen_seed
void c15_gen(hv::rng &r, const std::string &tier)
{
    bool th = tier == "thorough";
    const char *VAR[2] = {"c", "x"};
    emit("consts");
    // capacity 0 is outside the contract (sline_getline needs one byte for the terminator): recorded finding
    // (the two probes `sl c 0 p61`, `sl x 0 g` of the capacity-zero finding are ordinary ops since the sline half
    //  was repaired: see round 3 below)
    // ---- sline: exhaustive short op histories, then long random ones
    // (the seed picks the capacity that gets the deepest tree, see the key trees below)
    for (unsigned cap = 2; cap <= 4; cap++)
        gen_sl_exhaustive(cap, th && cap == 2 + gen_seed % 3 ? 5 : 4, VAR[cap & 1]);
    gen_sl_exhaustive(3, 3, "x");
    gen_sl_exhaustive(2, 3, "x");
    // (ext) sline_newdata with an explicit int length <= 0 or shorter than the data (C family), and the raw
    // accessors of igris::sline: clear, set_size_and_cursor with valid arguments (C++ family): exhaustive short histories
    {
        static const std::vector<std::string> tc = {"p61", "N-1:6263", "N0:62", "N1:6263", "N2:6263", "N-2147483648:61", "l", "b1", "g"};
        for (unsigned cap = 2; cap <= 4; cap++)
        {
            std::vector<size_t> idx(cap == 4 ? 3 : 4, 0);
            for (;;)
            {
                std::string s = "sl c " + std::to_string(cap);
                for (size_t i : idx) s += " " + tc[i];
                emit(s);
                size_t p = idx.size();
                while (p > 0 && ++idx[p - 1] == tc.size()) idx[--p] = 0;
                if (p == 0) break;
            }
        }
        for (unsigned cap = 2; cap <= 4; cap++)
        {
            std::vector<std::string> tx = {"p61", "p62", "n6364", "c", "l", "d1", "g", "s0,0"};
            for (unsigned l = 1; l < cap; l++)
                for (unsigned c = 0; c <= l; c++) tx.push_back("s" + std::to_string(l) + "," + std::to_string(c));
            std::vector<size_t> idx(cap == 4 ? 3 : 4, 0);
            for (;;)
            {
                std::string s = "sl x " + std::to_string(cap);
                for (size_t i : idx) s += " " + tx[i];
                emit(s);
                size_t p = idx.size();
                while (p > 0 && ++idx[p - 1] == tx.size()) idx[--p] = 0;
                if (p == 0) break;
            }
        }
    }
    for (int i = 0; i < (th ? 6000 : 1200); i++)
    {
        unsigned cap = (unsigned)r.range(2, r.chance(85) ? 12 : 40);
        bool vx = r.below(2);
        bool ext = r.chance(35); // histories that also use the calls added by the extension
        std::string s = std::string("sl ") + VAR[vx] + " " + std::to_string(cap);
        size_t n = r.range(1, 60);
        for (size_t j = 0; j < n; j++)
        {
            unsigned p = (unsigned)r.below(100);
            if (ext && r.chance(15))
            {
                if (!vx)
                {
                    size_t m = r.range(0, 5);
                    std::string d;
                    for (size_t q = 0; q < m; q++) d.push_back((char)r.range(0x41, 0x5a));
                    long nn = r.chance(30) ? -(long)r.range(1, 3) : r.chance(5) ? -2147483647L - 1 : (long)r.below(m + 1);
                    s += " N" + std::to_string(nn) + ":" + hx(d);
                }
                else if (r.chance(30)) s += " c";
                else
                {
                    unsigned l = (unsigned)r.below(cap), c = (unsigned)r.below(l + 1);
                    s += " s" + std::to_string(l) + "," + std::to_string(c);
                }
                continue;
            }
            if (p < 25) s += " p" + hv::hexn(r.chance(2) ? 0 : r.range(0x61, 0x7a), 2);
            else if (p < 40)
            {
                size_t m = r.chance(30) ? r.range(cap - 1, cap + 3) : r.range(0, 4);
                std::string d;
                for (size_t q = 0; q < m; q++) d.push_back((char)r.range(0x41, 0x5a));
                s += " n" + hx(d);
            }
            else if (p < 52) s += " b" + std::to_string(r.chance(25) ? r.range(cap - 1, cap + 2) : r.range(0, 2));
            else if (p < 62) s += " d" + std::to_string(r.chance(25) ? r.range(cap - 1, cap + 2) : r.range(0, 2));
            else if (p < 78) s += " l";
            else if (p < 88) s += " r";
            else if (p < 91) s += " z";
            else if (p < 97) s += " g";
            else s += " e" + hx(std::string(r.below(3), 'a'));
        }
        emit(s);
    }
    // ---- readline automaton alone (return codes), history depth 0 = no history buffer
    for (int i = 0; i < (th ? 4000 : 800); i++)
    {
        unsigned cap = (unsigned)r.range(2, 12), depth = (unsigned)r.range(0, 4);
        size_t n = r.chance(10) ? 400 : r.range(1, 80);
        std::string k = r.chance(75) ? typing(r, cap, depth ? depth : 1, n, r.chance(20)) : noise(r, n);
        for (char &c : k) if (c == 3) c = 'q'; // at this level 0x03 is an ordinary character: keep the streams comparable
        emit(std::string("rl ") + VAR[r.below(2)] + " " + std::to_string(cap) + " " + std::to_string(depth) + " " + hx(k));
    }
    // ---- (ext) readline_linecpy / igris::readline::linecpy after a typing session: destination sizes 0 .. cap + 3
    for (unsigned cap = 2; cap <= 4; cap++)
        for (unsigned maxlen = 0; maxlen <= cap + 1; maxlen++)
            for (unsigned typed = 0; typed <= cap; typed++)
                for (int var = 0; var < 2; var++)
                    emit(std::string("lc ") + VAR[var] + " " + std::to_string(cap) + " 1 " + std::to_string(maxlen) + " " + hx(std::string("abcde").substr(0, typed)));
    for (int i = 0; i < (th ? 2000 : 400); i++)
    {
        unsigned cap = (unsigned)r.range(2, 12), depth = (unsigned)r.range(0, 2);
        std::string k = typing(r, cap, depth ? depth : 1, r.range(0, 40), r.chance(20));
        for (char &c : k) if (c == 3) c = 'q';
        size_t maxlen = r.chance(15) ? 0 : r.chance(40) ? r.range(1, 3) : r.range(1, cap + 3);
        emit(std::string("lc ") + VAR[r.below(2)] + " " + std::to_string(cap) + " " + std::to_string(depth) + " " + std::to_string(maxlen) + " " + hx(k));
    }
    // ---- terminal: every byte sequence of length 3 over the 15-byte alphabet, listed one by one
    for (int var = 0; var < 2; var++)
        for (size_t a = 0; a < 15; a++)
            for (size_t b = 0; b < 15; b++)
                for (size_t c = 0; c < 15; c++)
                    emit(std::string("vt ") + VAR[var] + (var ? " 3 2 1 " : " 2 1 1 ") + hx(ALPHA_BYTES[a] + ALPHA_BYTES[b] + ALPHA_BYTES[c]));
    // ---- terminal: whole trees of key sequences as digests (op = 2-token prefix + every extension of <= L tokens).
    // The trees do not depend on random choices; the seed only selects which configuration gets the deepest tree
    // (thorough runs seeds s*1000+0..7, so the eight runs cover all eight / sixteen configurations).
    {
        struct cfg { unsigned cap, depth; };
        const std::vector<cfg> small = {{2, 1}, {3, 1}, {3, 2}, {4, 2}};
        const std::vector<cfg> mid = {{2, 1}, {3, 1}, {3, 2}, {4, 1}, {4, 2}, {5, 3}, {4, 4}, {6, 2}};
        unsigned k = (unsigned)(gen_seed % 8);
        // (round 3b, quick-tier time: the tree ops are 80 % of the harness' run time.  In the quick tier the deepest
        //  byte tree - length 5 - is walked below the third of the first bytes selected by the seed, length 4 below
        //  the others: seeds 1, 2, 3 together cover it; the thorough tier is unchanged)
        auto tree = [&](int var, cfg c, int alpha, unsigned L, bool third = false)
        {
            const auto &A = alpha ? ALPHA_KEYS : ALPHA_BYTES;
            for (size_t a = 0; a < A.size(); a++)
                for (size_t b = 0; b < A.size(); b++)
                {
                    // (round 3b: the deepest trees of the thorough tier - 4 levels below a 2-token prefix, 54 240
                    //  sessions and 0.7 - 0.9 s CPU per op - ran into the 3 s per-op CPU limit when 8 seeds run in
                    //  parallel on a busy machine.  The same tree is now cut into 15 (11) ops with a 3-token prefix
                    //  and 3 levels: the same set of key sequences, every node still digested)
                    if (L >= 4)
                    {
                        for (size_t d = 0; d < A.size(); d++)
                            emit(std::string("vtx ") + VAR[var] + " " + std::to_string(c.cap) + " " + std::to_string(c.depth) + " " + std::to_string(alpha) + " " +
                                 std::to_string(L - 1) + " " + hx(A[a] + A[b] + A[d]));
                        continue;
                    }
                    emit(std::string("vtx ") + VAR[var] + " " + std::to_string(c.cap) + " " + std::to_string(c.depth) + " " + std::to_string(alpha) + " " +
                         std::to_string(third && a % 3 != gen_seed % 3 ? L - 1 : L) + " " + hx(A[a] + A[b]));
                }
        };
        // 15-byte alphabet: every sequence up to length 4 in all 8 configurations, up to 5 (thorough 6) in one
        for (unsigned i = 0; i < 8; i++)
            tree(i & 1, small[i / 2], 0, i == k ? (th ? 4 : 3) : 2, i == k && !th);
        // 11 whole keys: every sequence up to length 4 in all 16 configurations, up to 5 (thorough 6) in two
        for (unsigned i = 0; i < 16; i++)
            tree(i & 1, mid[i / 2], 1, (i % 8) == k ? (th ? 4 : 3) : 2);
    }
    // ---- terminal: random sessions up to 400 keys, cap 2..12, depth 1..4
    for (int i = 0; i < (th ? 12000 : 2500); i++)
    {
        unsigned cap = (unsigned)r.range(2, 12), depth = (unsigned)r.range(1, 4);
        size_t n = r.chance(8) ? 400 : r.chance(50) ? r.range(1, 40) : r.range(40, 160);
        std::string k = r.chance(80) ? typing(r, cap, depth, n, r.chance(25)) : noise(r, n);
        emit(std::string("vt ") + VAR[r.below(2)] + " " + std::to_string(cap) + " " + std::to_string(depth) + (r.chance(6) ? " 0 " : " 1 ") + hx(k));
    }
    // ---- a few wide configurations (two-digit cursor moves, deep history)
    for (int i = 0; i < (th ? 600 : 120); i++)
    {
        unsigned cap = (unsigned)r.range(13, 130), depth = (unsigned)r.range(1, 9);
        std::string k = typing(r, cap, depth, r.range(50, 400), true);
        emit(std::string("vt ") + VAR[r.below(2)] + " " + std::to_string(cap) + " " + std::to_string(depth) + " 1 " + hx(k));
    }
    // ---- very deep history rings (history_size is a uint8_t: depths up to 255, index arithmetic near 256):
    // many distinct short lines, then recalls at every depth.  Added after seeded change C15-history-index-uint8
    // (ring index computed in 8 bits) was missed: it needs depth >= 129.
    // (ext) depths >= 256 too: the ring indices were uint8_t (fix: unsigned int), 256 divided by zero in C and
    // the browse index wrapped in C++.
    for (int i = 0; i < (th ? 170 : 32); i++)
    {
        static const unsigned DEPTHS[] = {255, 254, 200, 129, 128, 127, 130, 192, 250, 160, 100, 64, 256, 256, 257, 300, 511, 512, 260, 1000};
        const int NFIX = th ? 20 : 19;
        unsigned depth = i < NFIX ? DEPTHS[i] : (unsigned)r.range(65, r.chance(25) ? 400 : 255);
        unsigned cap = (unsigned)r.range(5, 9);
        size_t nlines = r.chance(50) && depth < 256 ? r.range(1, 70) : r.range(depth > 20 ? depth - 20 : 1, depth + 30);
        std::string k;
        size_t entered = 0;
        auto line = [&]()
        {
            // distinct 4-character lines (base-26 counter with a random first letter)
            size_t v = entered++;
            k.push_back((char)('a' + r.below(26)));
            for (int d = 0; d < 3; d++) { k.push_back((char)('a' + v % 26)); v /= 26; }
            k += "\r";
        };
        for (size_t j = 0; j < nlines; j++) line();
        for (int round = 0; round < 6; round++)
        {
            size_t ups = r.chance(30) ? 1 : r.chance(50) ? r.range(1, 8) : r.range(1, (entered < depth ? entered : depth) + 2);
            if (depth >= 256 && round == 0) ups = (entered < depth ? entered : depth) + 2; // to the oldest line and beyond
            for (size_t j = 0; j < ups; j++) k += "\x1b[A";
            size_t downs = r.below(ups + 2);
            for (size_t j = 0; j < downs; j++) k += "\x1b[B";
            if (r.chance(60)) k += "\r";          // accept the recalled line (duplicate-of-last check)
            else k.push_back('\x03');
            if (r.chance(50)) line();
        }
        emit(std::string("vt ") + VAR[i < NFIX && i >= 12 ? (i & 1) : r.below(2)] + " " + std::to_string(cap) + " " + std::to_string(depth) + " 1 " + hx(k));
    }

    // =================================================================== round 3
    emit("consts2");
    emit("premain " + hx(std::string(PREMAIN_KEYS)));
    // ---- a line without a buffer (cap 0: safe at the sline level since the two fixes) and the smallest buffer (cap 1)
    emit("sl c 0 p61");
    emit("sl x 0 g");
    emit("sl c 0 p61 g N2:6162 n6162 b1 d1 l r z g e-");
    emit("sl x 0 p61 g n6162 b1 d1 l r z c g");
    emit("@F:C15-capacity-zero rl c 0 1 1b5b41");
    gen_sl_exhaustive(0, 3, "c");
    gen_sl_exhaustive(0, 2, "x");
    gen_sl_exhaustive(1, 3, "c");
    gen_sl_exhaustive(1, 3, "x");
    // ---- buffers of 2^31 - 1 .. 2^32 - 1 bytes (lazily mapped; the line stays short): every call but the bulk
    //      insert, which misjudges the room there (finding C15-newdata-2g); the bulk insert just below 2^31
    for (const char *cap : {"2147483647", "2147483648", "2147483649", "4294967295"})
        emit(std::string("sl c ") + cap + " p61 p62 p63 l l p64 b1 d1 r g e6164 z p65 g");
    emit("sl c 2147483647 p61 N2:6263 n6465 l N1:66 g");
    emit("sl c 16777217 p61 N2:6263 n6465 l N1:66 N-1:67 g");
    emit("sl x 4 Z2:616263 Z2147483647:61626364 g");
    emit("sl x 6 p61 l Z1:6263 Z0:64 Z2147483647:6566676869 g");
    emit("@F:C15-newdata-2g sl c 2147483649 N2:6162");
    emit("@F:C15-newdata-2g sl c 2147483648 N1:62");
    emit("@F:C15-newdata-2g sl x 4 Z2147483648:61626364");
    // ---- twins, directly against each other: struct sline / igris::sline on the same calls
    {
        static const std::vector<std::string> tk = {"p61", "p62", "n6364", "n65666768", "N1:6364", "N-1:63", "b1", "d1", "l", "r", "z", "g", "e61"};
        for (unsigned cap = 2; cap <= 3; cap++)
            for (size_t a = 0; a < tk.size(); a++)
                for (size_t b = 0; b < tk.size(); b++)
                    for (size_t c = 0; c < tk.size(); c++)
                        emit("ts " + std::to_string(cap) + " " + tk[a] + " " + tk[b] + " " + tk[c]);
        for (int i = 0; i < (th ? 1500 : 250); i++)
        {
            unsigned cap = (unsigned)r.range(1, 12);
            std::string s = "ts " + std::to_string(cap);
            size_t n = r.range(1, 40);
            for (size_t j = 0; j < n; j++)
            {
                unsigned p = (unsigned)r.below(100);
                if (p < 30) s += " p" + hv::hexn(r.range(0x61, 0x7a), 2);
                else if (p < 45)
                {
                    size_t m = r.chance(30) ? r.range(cap - 1, cap + 3) : r.range(0, 4);
                    std::string d;
                    for (size_t q = 0; q < m; q++) d.push_back((char)r.range(0x41, 0x5a));
                    s += (r.chance(50) ? " n" + hx(d) : " N" + std::to_string((long)r.below(m + 2) - 1) + ":" + hx(d + "Z"));
                }
                else if (p < 55) s += " b" + std::to_string(r.range(0, 3));
                else if (p < 65) s += " d" + std::to_string(r.range(0, 3));
                else if (p < 80) s += " l";
                else if (p < 90) s += " r";
                else if (p < 93) s += " z";
                else s += " g";
            }
            emit(s);
        }
    }
    // ---- vterm.c / igris::vtermxx directly against each other (every pair of the byte alphabet, random sessions,
    //      history depth 0 = no history included)
    for (size_t a = 0; a < 15; a++)
        for (size_t b = 0; b < 15; b++)
            emit("tw 3 1 1 " + hx(ALPHA_BYTES[a] + ALPHA_BYTES[b]));
    for (int i = 0; i < (th ? 1500 : 250); i++)
    {
        unsigned cap = (unsigned)r.range(2, 12), depth = (unsigned)r.range(r.chance(15) ? 0 : 1, 4);
        size_t n = r.chance(5) ? 300 : r.range(1, 80);
        std::string k = r.chance(80) ? typing(r, cap, depth ? depth : 1, n, r.chance(25)) : noise(r, n);
        emit("tw " + std::to_string(cap) + " " + std::to_string(depth) + (r.chance(6) ? " 0 " : " 1 ") + hx(k));
    }
    // ---- history depth 0: vterm_automate_init(..., hbuffer, 0) / vtermxx::init(cap, 0) = a terminal without history
    for (int var = 0; var < 2; var++)
    {
        emit(std::string("vt ") + VAR[var] + " 4 0 1 " + hx("ab\rab\r\x1b[A\x1b[B" "c\r"));
        emit(std::string("vt ") + VAR[var] + " 2 0 1 " + hx("a\r\n\x1b[A\x1b[A\x03" "b\n"));
    }
    for (int i = 0; i < (th ? 300 : 60); i++)
    {
        unsigned cap = (unsigned)r.range(2, 10);
        std::string k = typing(r, cap, 2, r.range(1, 120), r.chance(25));
        emit(std::string("vt ") + VAR[r.below(2)] + " " + std::to_string(cap) + " 0 1 " + hx(k));
    }
    // ---- one object, everything a caller can do between keys: every script of <= 3 (C++: 2) tokens, random scripts
    {
        static const std::vector<std::string> tk = {"k61", "cc3", "c80", "cfe", "c7f", "i-1", "i353", "i-128", "i-2", "i32767", "i-32768", "i256", "I",
                                                    "P0724", "P3e", "P-", "E0", "E1", "k0d", "k03", "k1b5b41", "c0d"};
        for (int var = 0; var < 2; var++)
            for (size_t a = 0; a < tk.size(); a++)
                for (size_t b = 0; b < tk.size(); b++)
                {
                    if (var) { emit("vs x 4 1 " + tk[a] + " " + tk[b] + " k620d"); continue; }
                    for (size_t c = 0; c < tk.size(); c++)
                        emit("vs c 4 1 " + tk[a] + " " + tk[b] + " " + tk[c] + " k620d");
                }
        emit("@F:C15-char-ff vs c 4 1 I cff k0d");
        emit("@F:C15-char-ff vs x 4 1 k61 cff c0d");
        for (int i = 0; i < (th ? 2500 : 500); i++)
        {
            unsigned cap = (unsigned)r.range(2, 12), depth = (unsigned)r.range(1, 3);
            std::string s = std::string("vs ") + VAR[r.below(2)] + " " + std::to_string(cap) + " " + std::to_string(depth);
            if (r.chance(70)) s += " I";
            size_t n = r.range(1, 12);
            for (size_t j = 0; j < n; j++)
            {
                unsigned p = (unsigned)r.below(100);
                if (p < 35) s += " k" + hx(typing(r, cap, depth, r.range(1, 20), r.chance(25)));
                else if (p < 60)
                {
                    // through a `char`: ASCII, Latin-1 / UTF-8 bytes (every value but 0xff, the recorded finding)
                    std::string k;
                    size_t m = r.range(1, 6);
                    for (size_t q = 0; q < m; q++)
                        k.push_back(r.chance(50) ? (char)r.range(0x80, 0xfe) : r.chance(30) ? "\r\n\x08\x1b[AD"[r.below(7)] : (char)r.range(0x20, 0x7e));
                    s += " c" + hx(k);
                }
                else if (p < 70)
                {
                    static const long V[] = {-1, -2, -128, -129, -255, -256, -32768, 32767, 255, 256, 257, 0x141, 0x10d, 0x7f03, 127, 128, 0};
                    s += " i" + std::to_string(r.chance(70) ? V[r.below(17)] : (long)r.range(0, 65535) - 32768);
                }
                else if (p < 78) s += " I";
                else if (p < 90)
                {
                    std::string pr;
                    size_t m = r.range(0, 5);
                    for (size_t q = 0; q < m; q++) pr.push_back(r.chance(70) ? (char)r.range(0x20, 0x7e) : (char)r.range(1, 255));
                    s += " P" + hx(pr);
                }
                else s += r.chance(50) ? " E0" : " E1";
            }
            // `i-1` typed as a token is the init step; a raw -1 produced above is handled the same way
            emit(s);
        }
    }
    // ---- the echoed bytes on a terminal with W columns and auto-wrap
    {
        auto wsess = [&](unsigned cap, size_t W, bool strict, const std::string &k, const char *pre = "")
        {
            emit(std::string(pre) + "vw " + VAR[r.below(2)] + " " + std::to_string(cap) + " " + std::to_string(r.range(1, 3)) + " " + std::to_string(W) + (strict ? " 1 " : " 0 ") + hx(k));
        };
        // full line, cursor walks, inserts in the middle, Ctrl-C at the end of a full line: the exact fit and around it
        for (unsigned cap = 2; cap <= 6; cap++)
            for (int dw = 0; dw <= 3; dw++)
            {
                std::string fill(cap + 1, 'a');
                wsess(cap, 2 + cap + dw, false, fill + "\x03" + fill + "\x1b[D\x1b[D\x08" "b\x1b[3~\x1b[C\x1b[Cc\r" + fill + "\r\x1b[A\x1b[A\x03");
            }
        for (int i = 0; i < (th ? 2000 : 350); i++)
        {
            unsigned cap = (unsigned)r.range(2, 14);
            static const size_t DW[] = {0, 0, 0, 1, 2, 3, 10, 66};
            std::string k = typing(r, cap, 2, r.chance(10) ? 300 : r.range(5, 90), false);
            wsess(cap, 2 + cap + DW[r.below(8)], false, k);
        }
        // narrower than prompt + line: the two terminal emulators (Lean / C++) are compared, the display is not judged
        for (int i = 0; i < (th ? 600 : 100); i++)
        {
            unsigned cap = (unsigned)r.range(4, 30);
            std::string k = typing(r, cap, 2, r.range(5, 120), false);
            wsess(cap, r.range(2, 1 + cap), false, k);
        }
        emit("@F:C15-narrow-screen vw c 8 1 6 1 61626364651b5b441b5b4478");
        emit("@F:C15-narrow-screen vw x 12 1 8 1 " + hx(std::string("abcdefghij\x1b[D\x1b[D\x1b[D\x1b[D\x1b[D\x08")));
    }
    // ---- readline_linecpy with a destination of 65535 .. 2^32 + 1 bytes
    {
        static const char *ML[] = {"255", "256", "65535", "65536", "1048576", "2147483647", "2147483648", "2147483649", "4294967295", "4294967296", "4294967297"};
        for (const char *m : ML)
            for (int var = 0; var < 2; var++)
                for (unsigned typed = 0; typed <= 3; typed += 3)
                    emit(std::string("lh ") + VAR[var] + " 5 1 " + m + " " + hx(std::string("abcdef").substr(0, typed + (typed ? 1 : 0))));
    }
    // =================================================================== round 3b
    // ---- every count parameter over the whole range of its C type (seeded change C15-sline-delete-clamp-wrap was
    //      missed: a clamp written `cursor + count > len` wraps for count > UINT_MAX - cursor, and the stream never
    //      passed a count above cap + 2).  sline_backspace / sline_delete (unsigned int) and igris::sline::backspace /
    //      del (int): 0, 1, exactly what is there, one more, INT_MAX, INT_MAX + 1u, UINT_MAX - cursor,
    //      UINT_MAX - cursor + 1, UINT_MAX - 1, UINT_MAX, and as an int -1, -2, INT_MIN, INT_MAX; cursor at 0, 1, the
    //      middle, the end; line half full and full; then getline, an insert, getline (what a wrapped len would break)
    for (int var = 0; var < 2; var++)
        for (unsigned cap : {6u, 8u})
            for (unsigned cur : {0u, 1u, 2u, 5u})
                for (int which = 0; which < 2; which++)
                {
                    const unsigned len = 5;
                    unsigned there = which ? len - cur : cur; // characters a delete / a backspace can remove
                    std::vector<std::string> counts;
                    for (uint64_t c : {(uint64_t)0, (uint64_t)1, (uint64_t)there, (uint64_t)there + 1, (uint64_t)0x7fffffff, (uint64_t)0x80000000u,
                                       (uint64_t)0xffffffffu - cur, (uint64_t)0xffffffffu - cur + 1, (uint64_t)0xfffffffeu, (uint64_t)0xffffffffu,
                                       (uint64_t)0xffffffffu - there, (uint64_t)0x100000000ull - len})
                        if (c <= 0xffffffffull) counts.push_back(std::string(which ? "d" : "b") + std::to_string(c));
                    for (long c : {-1L, -2L, -2147483647L - 1, 2147483647L, 1L, -(long)cur, -(long)len})
                        counts.push_back(std::string(which ? "D" : "B") + std::to_string(c));
                    for (const std::string &c : counts)
                    {
                        std::string s = std::string("sl ") + VAR[var] + " " + std::to_string(cap) + " n6162636465";
                        for (unsigned j = cur; j < len; j++) s += " l";
                        emit(s + " " + c + " g p78 g " + c + " g");
                    }
                }
    // the same on a line without a buffer, on the smallest buffers and on a lazily mapped one of 2^32 - 1 bytes
    for (const char *c : {"b4294967295", "d4294967295", "B-1", "D-1", "d2147483648", "b2147483648"})
    {
        emit(std::string("sl c 0 ") + c + " g");
        emit(std::string("sl x 0 ") + c + " g");
        emit(std::string("sl c 1 ") + c + " p61 " + c + " g");
        emit(std::string("sl x 2 p61 ") + c + " p62 l " + c + " g");
        emit(std::string("sl c 4294967295 p61 p62 p63 l ") + c + " g p64 g");
    }
    // random histories in which backspace / delete counts come from the whole range
    for (int i = 0; i < (th ? 3000 : 400); i++)
    {
        unsigned cap = (unsigned)r.range(2, 12);
        bool vx = r.below(2);
        std::string s = std::string("sl ") + VAR[vx] + " " + std::to_string(cap);
        size_t n = r.range(2, 30);
        for (size_t j = 0; j < n; j++)
        {
            unsigned p = (unsigned)r.below(100);
            if (p < 30) s += " p" + hv::hexn(r.range(0x61, 0x7a), 2);
            else if (p < 40) { std::string d; size_t m = r.range(0, cap + 1); for (size_t q = 0; q < m; q++) d.push_back((char)r.range(0x41, 0x5a)); s += " n" + hx(d); }
            else if (p < 62)
            {
                const char *k = r.chance(50) ? "bB" : "dD";
                if (r.chance(40))
                {
                    // as an int: small, negative small (= UINT_MAX - k + 1), the ends of the range
                    static const long V[] = {-1, -2, -3, -4, -5, -6, -7, -8, -12, -2147483647L - 1, 2147483647L, -2147483647L, 0, 1, 2, 3};
                    s += std::string(" ") + k[1] + std::to_string(V[r.below(16)]);
                }
                else
                {
                    uint64_t c = r.chance(40) ? 0xffffffffull - r.below(cap + 2) : r.chance(30) ? 0x7fffffffull + r.below(3) : r.chance(50) ? 0x100000000ull - 1 - r.below(14) : r.range(0, cap + 1);
                    s += std::string(" ") + k[0] + std::to_string(c);
                }
            }
            else if (p < 80) s += " l";
            else if (p < 88) s += " r";
            else if (p < 90) s += " z";
            else s += " g";
        }
        emit(s);
    }
    // the twins on the same huge counts (struct sline's unsigned parameter against igris::sline's int)
    for (const char *c : {"b4294967295", "d4294967295", "B-1", "D-1", "d4294967294", "b2147483648", "D-2147483648", "d2147483647"})
        for (unsigned cur = 0; cur <= 3; cur++)
        {
            std::string s = "ts 5 n616263";
            for (unsigned j = cur; j < 3; j++) s += " l";
            emit(s + " " + c + " g p78 g");
        }
    // ---- counter-boundary capacities in the terminal stream: 255 / 256 / 257 filled to the brim and edited at the
    //      far end (the line length crosses the 8-bit boundary), 65535 / 65536 / 65537 with short lines (the capacity
    //      enters `len + 1 >= cap`, the ring offsets idx * cap and the memset of a recall), history depth 2 and 3
    for (unsigned cap : {255u, 256u, 257u})
        for (int var = 0; var < 2; var++)
        {
            std::string k;
            for (unsigned i = 0; i < cap + 3; i++) k.push_back((char)('a' + i % 26));          // overfill
            k += "\x1b[D\x1b[D\x1b[D\x08X\x1b[3~\r";                                           // edit 3 from the end, accept
            k += "zz\r\x1b[A\x1b[A\x1b[D\x08\x1b[B\x1b[A\x1b[A\r";                              // recall the long line, edit, browse, accept
            k += "\x1b[A\x03";
            emit(std::string("vt ") + VAR[var] + " " + std::to_string(cap) + " 2 1 " + hx(k));
        }
    for (unsigned cap : {65535u, 65536u, 65537u})
        for (int var = 0; var < 2; var++)
            emit(std::string("vt ") + VAR[var] + " " + std::to_string(cap) + (var ? " 3 1 " : " 2 1 ") +
                 hx(std::string("abc\rde\x1b[D\x08x\r\x1b[A\x1b[A\x1b[A\x1b[B\rq\x1b[A\x1b[A\x1b[A\x03" "f\r\x1b[A\r")));
    // the edit buffer alone at 255 .. 257 and 65535 .. 65537: a paste longer than the buffer, then edits at the far end
    for (unsigned cap : {255u, 256u, 257u, 65535u, 65536u, 65537u})
    {
        std::string d;
        for (unsigned i = 0; i < cap + 2; i++) d.push_back((char)('A' + i % 26));
        emit(std::string("sl ") + VAR[cap & 1] + " " + std::to_string(cap) + " n" + hx(d) + " p61 l l b1 d4294967295 p62 g");
    }
    // ---- one long session (>= 300 KiB of keys) per variant
    emit("vl c 6 3 310000 " + std::to_string(gen_seed));
    emit("vl x 5 2 " + std::string(th ? "310000 " : "40000 ") + std::to_string(gen_seed + 7));
}

