// C15: uniform view of the two implementations (C structs / C++ classes).
// readline.h and readlinexx.h (vterm.h / vtermxx.h) share their include
// guards, so each family lives in its own translation unit.
#ifndef IGRIS_VERIF_C15_IFACE_H
#define IGRIS_VERIF_C15_IFACE_H
#include <cstdint>
#include <string>
#include <vector>

namespace c15
{
    struct ev
    {
        bool exec;          // false: SIGINT
        std::string line;   // (data, size) of the execute callback
        bool nul_ok;        // data[size] == 0
    };

    struct isline
    {
        virtual ~isline() {}
        virtual int putchar(uint8_t c) = 0;
        virtual int newdata(const std::string &d, bool &has_ret) = 0;
        // sline_newdata(data, n) with the length exactly as given (C: int, may be negative; C++: size_t, n >= 0)
        virtual int newdata_n(const std::string &d, int n, bool &has_ret) = 0;
        virtual bool newdata_sz(const std::string &, size_t) { return false; }   // igris::sline::newdata(data, size_t) with the size as given
        virtual bool clear() = 0;                                     // igris::sline::clear (false: no such call in this family)
        virtual bool set_size_cursor(unsigned len, unsigned cur) = 0; // igris::sline::set_size_and_cursor
        virtual int backspace(unsigned n) = 0;
        virtual int del(unsigned n) = 0;
        // the count given as an `int` (round 3b): igris::sline::backspace(int) / del(int) take it as it is, the C
        // family writes the conversion to the `unsigned int` parameter out
        virtual int backspace_i(int n) = 0;
        virtual int del_i(int n) = 0;
        virtual int left() = 0;
        virtual int right() = 0;
        virtual void reset() = 0;
        virtual std::string getline() = 0;   // the C string returned
        virtual bool equal(const std::string &s) = 0;
        virtual unsigned len() = 0;
        virtual unsigned cursor() = 0;
        virtual std::string text() = 0;      // buf[0 .. len)
    };

    struct ireadline
    {
        virtual ~ireadline() {}
        virtual int putchar(uint8_t c) = 0;
        virtual void newline_reset() = 0;
        virtual unsigned len() = 0;
        virtual unsigned cursor() = 0;
        virtual std::string text() = 0;
        virtual std::string tail() = 0;      // " H<head>,<cur>,<state>,<hist-hex>" or ""
        virtual int linecpy(char *dst, size_t maxlen) = 0;   // readline_linecpy / igris::readline::linecpy
        virtual int state() = 0;             // escape automaton state (READLINE_STATE_*)
    };

    // canonical number of a readline escape state, through the READLINE_STATE_* names of the header (the numbers
    // themselves are not fixed by the property); -100: the state field is not visible to the harness
    #define C15_CANON_RSTATE(x) ((x) == READLINE_STATE_NORMAL ? 0 : (x) == READLINE_STATE_ESCSEQ ? 1 : (x) == READLINE_STATE_ESCSEQ_MOVE ? 2 : (x) == READLINE_STATE_ESCSEQ_MOVE_WAIT_7E ? 3 : 100 + (x))
    enum { NOT_VISIBLE = -100 };

    struct ivterm
    {
        virtual ~ivterm() {}
        std::string echoed;                  // bytes written since the last take()
        std::vector<ev> evs;
        virtual void init_step() = 0;
        virtual void key(uint8_t c) = 0;
        virtual void key16(int16_t c) = 0;   // the parameter exactly as given (a `char` argument is converted by the compiler)
        virtual void set_prompt(const std::string &p) = 0;
        virtual void set_echo(bool e) = 0;
        // Internal state (round 3b: OPTIONAL).  The terminal has no public accessor for its line: the harness reads
        // the private / internal members when they can be named; when a member was renamed or removed
        // (`line_visible()` false, `state()` = NOT_VISIBLE) the session falls back to the reference editor's values
        // for the record (`shadow`), and the implementation is judged by what it does: callback events, written
        // bytes, screen.
        virtual bool line_visible() = 0;
        virtual int state() = 0;             // terminal automaton state, or NOT_VISIBLE
        virtual int rlstate() = 0;           // its readline's escape automaton state (canonical 0..3), or NOT_VISIBLE
        virtual unsigned len_() = 0;
        virtual unsigned cursor_() = 0;
        virtual std::string text_() = 0;
        unsigned sh_len = 0, sh_cur = 0;
        std::string sh_text;
        void shadow(unsigned l, unsigned c, const std::string &t) { sh_len = l; sh_cur = c; sh_text = t; }
        unsigned len() { return line_visible() ? len_() : sh_len; }
        unsigned cursor() { return line_visible() ? cursor_() : sh_cur; }
        std::string text() { return line_visible() ? text_() : sh_text; }
    };

    isline *make_sline_c(unsigned cap);
    isline *make_sline_x(unsigned cap);
    ireadline *make_readline_c(unsigned cap, unsigned depth);
    ireadline *make_readline_x(unsigned cap, unsigned depth);
    ivterm *make_vterm_c(unsigned cap, unsigned depth, bool echo);
    ivterm *make_vterm_x(unsigned cap, unsigned depth, bool echo);

    // constants of the compiled headers
    std::string consts_c();
    std::string consts2_x();   // sizeof of igris::readline's ring indices (0: not visible), as tags
}
#endif
