// C15: key alphabets and the pre-main session shared by the runner (harness/C15.cpp) and the generator (gen.cpp)
#ifndef IGRIS_VERIF_C15_ALPHA_H
#define IGRIS_VERIF_C15_ALPHA_H
#include <string>
#include <vector>
static const std::vector<std::string> ALPHA_BYTES = {"a", "b", "\x08", "\r", "\n", "\x1b", "[", "A", "B", "C", "D", "3", "~", "\x03", "x"};
static const std::vector<std::string> ALPHA_KEYS = {"a", "b", "\x08", "\r", "\n", "\x1b[A", "\x1b[B", "\x1b[D", "\x1b[C", "\x1b[3~", "\x03"};
static const char PREMAIN_KEYS[] = "ab\r\x1b[Ac\x1b[Dd\n\x03\x1b[A\x1b[A\r";
#endif
