// C15: the C++ family (igris::sline, igris::readline, igris::vtermxx).
#include <algorithm>
#include <cstring>
#include <memory>
#include <string>
#include <vector>
#include <utility>
#include <cstdint>
#include <cinttypes>
#include <cstdlib>
#include <type_traits>
#include "iface.h"
#include <igris/container/sline.h>
#include <igris/shell/vtermxx.h>

// igris::vtermxx keeps its readline private; the harness reads len / cursor /
// text through it.  Access by explicit instantiation (no change to the header).
namespace
{
    template <class Tag, typename Tag::type M> struct rob
    {
        friend typename Tag::type get(Tag) { return M; }
    };
    struct vt_rl
    {
        typedef igris::readline igris::vtermxx::*type;
        friend type get(vt_rl);
    };
    template struct rob<vt_rl, &igris::vtermxx::rl>;
    struct vt_state
    {
        typedef int igris::vtermxx::*type;
        friend type get(vt_state);
    };
    template struct rob<vt_state, &igris::vtermxx::state>;
    struct rl_state
    {
        typedef int igris::readline::*type;
        friend type get(rl_state);
    };
    template struct rob<rl_state, &igris::readline::_state>;
    // type-agnostic variant (the member's type is deduced: a narrowed index type must show as a
    // difference of `consts2`, not as a harness that no longer compiles)
    template <class Tag, auto M> struct rob2
    {
        friend auto get2(Tag) { return M; }
    };
    struct rl_head
    {
        friend auto get2(rl_head);
    };
    template struct rob2<rl_head, &igris::readline::_headhist>;
    struct rl_cur
    {
        friend auto get2(rl_cur);
    };
    template struct rob2<rl_cur, &igris::readline::_curhist>;
}

namespace c15
{
    // igris::sline::newdata(char) returns sline_putchar's result since
    // `fix: readline reports READLINE_OVERFLOW`; tolerate the older void form
    template <class S> static int put1(S &s, char c)
    {
        if constexpr (std::is_void_v<decltype(s.newdata(c))>)
        {
            size_t before = s.current_size();
            s.newdata(c);
            return (int)(s.current_size() - before);
        }
        else
            return s.newdata(c);
    }

    struct sline_x : isline
    {
        igris::sline s;
        sline_x(unsigned cap) { s.init(cap); }
        int putchar(uint8_t c) override { return put1(s, (char)c); }
        int newdata(const std::string &d, bool &has_ret) override
        {
            has_ret = false;
            // exactly sized source: an over-read of the caller's data is seen too
            char *src = (char *)malloc(d.size() ? d.size() : 1);
            memcpy(src, d.data(), d.size());
            s.newdata(src, d.size());
            free(src);
            return 0;
        }
        int newdata_n(const std::string &d, int n, bool &has_ret) override
        {
            has_ret = false;
            char *src = (char *)malloc(d.size() ? d.size() : 1);
            memcpy(src, d.data(), d.size());
            s.newdata(src, (size_t)(n < 0 ? 0 : n));
            free(src);
            return 0;
        }
        bool newdata_sz(const std::string &d, size_t sz) override
        {
            char *src = (char *)malloc(d.size() ? d.size() : 1);
            memcpy(src, d.data(), d.size());
            s.newdata(src, sz);
            free(src);
            return true;
        }
        bool clear() override { s.clear(); return true; }
        bool set_size_cursor(unsigned len, unsigned cur) override { s.set_size_and_cursor(len, cur); return true; }
        int backspace(unsigned n) override { return s.backspace((int)n); }
        int del(unsigned n) override { return s.del((int)n); }
        int backspace_i(int n) override { return s.backspace(n); }
        int del_i(int n) override { return s.del(n); }
        int left() override { return s.left(); }
        int right() override { return s.right(); }
        void reset() override { s.reset(); }
        std::string getline() override
        {
            const char *p = s.getline();
            return s.storage_size() ? std::string(p) : std::string(); // no buffer: nothing to read
        }
        bool equal(const std::string &str) override { return s.equal(str.c_str()); }
        unsigned len() override { return (unsigned)s.current_size(); }
        unsigned cursor() override { return (unsigned)(s.current_size() - s.rightsize()); }
        std::string text() override { return std::string(s.data(), s.current_size()); }
    };
    isline *make_sline_x(unsigned cap) { return new sline_x(cap); }

    struct readline_x : ireadline
    {
        igris::readline rl;
        readline_x(unsigned cap, unsigned depth) { rl.init(cap, depth); }
        int putchar(uint8_t c) override { return rl.newdata((char)c); }
        void newline_reset() override { rl.newline_reset(); }
        unsigned len() override { return (unsigned)rl.line().current_size(); }
        unsigned cursor() override { return (unsigned)(rl.line().current_size() - rl.line().rightsize()); }
        std::string text() override { return std::string(rl.line().data(), rl.line().current_size()); }
        std::string tail() override { return ""; }
        int linecpy(char *dst, size_t maxlen) override { return rl.linecpy(dst, maxlen); }
        int state() override { return rl.*get(rl_state()); }
    };
    ireadline *make_readline_x(unsigned cap, unsigned depth) { return new readline_x(cap, depth); }

    struct vterm_x : ivterm
    {
        igris::vtermxx v;
        void on_write(const char *d, unsigned n) { echoed.append(d, n); }
        void on_exec(const char *d, unsigned n) { evs.push_back(ev{true, std::string(d, n), d[n] == 0}); }
        void on_sig(int) { evs.push_back(ev{false, "", true}); }
        vterm_x(unsigned cap, unsigned depth, bool echo)
        {
            v.init(cap, depth);
            v.set_echo(echo ? 1 : 0);
            v.set_write_callback(igris::delegate<void, const char *, unsigned int>(&vterm_x::on_write, this));
            v.set_execute_callback(igris::delegate<void, const char *, unsigned int>(&vterm_x::on_exec, this));
            v.set_signal_callback(igris::delegate<void, int>(&vterm_x::on_sig, this));
        }
        void init_step() override { v.init_step(); }
        void key(uint8_t c) override { v.newdata((int16_t)c); }
        void key16(int16_t c) override { v.newdata(c); }
        std::string pstore;
        void set_prompt(const std::string &p) override { pstore = p; v.set_prompt(pstore.c_str()); }
        void set_echo(bool e) override { v.set_echo(e ? 1 : 0); }
        int state() override { return v.*get(vt_state()); }
        int rlstate() override { return (v.*get(vt_rl())).*get(rl_state()); }
        unsigned len() override { return (unsigned)(v.*get(vt_rl())).line().current_size(); }
        unsigned cursor() override { return (unsigned)((v.*get(vt_rl())).line().current_size() - (v.*get(vt_rl())).line().rightsize()); }
        std::string text() override { return std::string((v.*get(vt_rl())).line().data(), (v.*get(vt_rl())).line().current_size()); }
    };
    ivterm *make_vterm_x(unsigned cap, unsigned depth, bool echo) { return new vterm_x(cap, depth, echo); }

    std::string consts2_x()
    {
        igris::readline r;
        return std::to_string(sizeof(r.*get2(rl_head()))) + " " + std::to_string(sizeof(r.*get2(rl_cur())));
    }
}
