// C15: the C++ family (igris::sline, igris::readline, igris::vtermxx).
#include <algorithm>
#include <cstring>
#include <memory>
#include <string>
#include <vector>
#include <utility>
#include <cstdint>
#include <cinttypes>
#include <cstdlib>
#include <type_traits>
#include "iface.h"
#include <igris/container/sline.h>
#include <igris/shell/vtermxx.h>

// igris::vtermxx keeps its readline private and has no accessor for it; the harness reads len / cursor / text /
// the automaton states through the private members.  Round 3b: this translation unit is compiled with
// -fno-access-control (checks/C15.json) and every internal name is used inside `if constexpr (requires ...)`:
// a renamed / removed / retyped member degrades to "not visible" (the session then judges the terminal by its
// callbacks and written bytes only) instead of breaking the build.
namespace
{
    template <class V> auto *rl_of(V &v)
    {
        if constexpr (requires { v.rl.line().current_size(); }) return &v.rl;
        else return (igris::readline *)nullptr;
    }
    template <class V> int vstate_of(V &v)
    {
        if constexpr (requires { (int)v.state; }) return (int)v.state;
        else return c15::NOT_VISIBLE;
    }
    template <class R> int rstate_of(R &r)
    {
        if constexpr (requires { (int)r._state; }) return C15_CANON_RSTATE((int)r._state);
        else return c15::NOT_VISIBLE;
    }
    template <class V> constexpr bool rl_visible = requires(V &v) { v.rl.line().current_size(); };
}

namespace c15
{
    // igris::sline::newdata(char) returns sline_putchar's result since
    // `fix: readline reports READLINE_OVERFLOW`; tolerate the older void form
    template <class S> static int put1(S &s, char c)
    {
        if constexpr (std::is_void_v<decltype(s.newdata(c))>)
        {
            size_t before = s.current_size();
            s.newdata(c);
            return (int)(s.current_size() - before);
        }
        else
            return s.newdata(c);
    }

    struct sline_x : isline
    {
        igris::sline s;
        sline_x(unsigned cap) { s.init(cap); }
        int putchar(uint8_t c) override { return put1(s, (char)c); }
        int newdata(const std::string &d, bool &has_ret) override
        {
            has_ret = false;
            // exactly sized source: an over-read of the caller's data is seen too
            char *src = (char *)malloc(d.size() ? d.size() : 1);
            memcpy(src, d.data(), d.size());
            s.newdata(src, d.size());
            free(src);
            return 0;
        }
        int newdata_n(const std::string &d, int n, bool &has_ret) override
        {
            has_ret = false;
            char *src = (char *)malloc(d.size() ? d.size() : 1);
            memcpy(src, d.data(), d.size());
            s.newdata(src, (size_t)(n < 0 ? 0 : n));
            free(src);
            return 0;
        }
        bool newdata_sz(const std::string &d, size_t sz) override
        {
            char *src = (char *)malloc(d.size() ? d.size() : 1);
            memcpy(src, d.data(), d.size());
            s.newdata(src, sz);
            free(src);
            return true;
        }
        bool clear() override { s.clear(); return true; }
        bool set_size_cursor(unsigned len, unsigned cur) override { s.set_size_and_cursor(len, cur); return true; }
        int backspace(unsigned n) override { return s.backspace((int)n); }
        int del(unsigned n) override { return s.del((int)n); }
        int backspace_i(int n) override { return s.backspace(n); }
        int del_i(int n) override { return s.del(n); }
        int left() override { return s.left(); }
        int right() override { return s.right(); }
        void reset() override { s.reset(); }
        std::string getline() override
        {
            const char *p = s.getline();
            return s.storage_size() ? std::string(p) : std::string(); // no buffer: nothing to read
        }
        bool equal(const std::string &str) override { return s.equal(str.c_str()); }
        unsigned len() override { return (unsigned)s.current_size(); }
        unsigned cursor() override { return (unsigned)(s.current_size() - s.rightsize()); }
        std::string text() override { return std::string(s.data(), s.current_size()); }
    };
    isline *make_sline_x(unsigned cap) { return new sline_x(cap); }

    struct readline_x : ireadline
    {
        igris::readline rl;
        readline_x(unsigned cap, unsigned depth) { rl.init(cap, depth); }
        int putchar(uint8_t c) override { return rl.newdata((char)c); }
        void newline_reset() override { rl.newline_reset(); }
        unsigned len() override { return (unsigned)rl.line().current_size(); }
        unsigned cursor() override { return (unsigned)(rl.line().current_size() - rl.line().rightsize()); }
        std::string text() override { return std::string(rl.line().data(), rl.line().current_size()); }
        std::string tail() override { return ""; }
        int linecpy(char *dst, size_t maxlen) override { return rl.linecpy(dst, maxlen); }
        int state() override { return rstate_of(rl); }
    };
    ireadline *make_readline_x(unsigned cap, unsigned depth) { return new readline_x(cap, depth); }

    struct vterm_x : ivterm
    {
        igris::vtermxx v;
        void on_write(const char *d, unsigned n) { echoed.append(d, n); }
        void on_exec(const char *d, unsigned n) { evs.push_back(ev{true, std::string(d, n), d[n] == 0}); }
        void on_sig(int) { evs.push_back(ev{false, "", true}); }
        vterm_x(unsigned cap, unsigned depth, bool echo)
        {
            v.init(cap, depth);
            v.set_echo(echo ? 1 : 0);
            v.set_write_callback(igris::delegate<void, const char *, unsigned int>(&vterm_x::on_write, this));
            v.set_execute_callback(igris::delegate<void, const char *, unsigned int>(&vterm_x::on_exec, this));
            v.set_signal_callback(igris::delegate<void, int>(&vterm_x::on_sig, this));
        }
        void init_step() override { v.init_step(); }
        void key(uint8_t c) override { v.newdata((int16_t)c); }
        void key16(int16_t c) override { v.newdata(c); }
        std::string pstore;
        void set_prompt(const std::string &p) override { pstore = p; v.set_prompt(pstore.c_str()); }
        void set_echo(bool e) override { v.set_echo(e ? 1 : 0); }
        bool line_visible() override { return rl_visible<igris::vtermxx>; }
        int state() override { return vstate_of(v); }
        int rlstate() override
        {
            if constexpr (rl_visible<igris::vtermxx>) return rstate_of(*rl_of(v));
            else return NOT_VISIBLE;
        }
        template <class V> static unsigned len_of(V &v)
        {
            if constexpr (rl_visible<V>) return (unsigned)rl_of(v)->line().current_size();
            else return 0;
        }
        template <class V> static unsigned cur_of(V &v)
        {
            if constexpr (rl_visible<V>) return (unsigned)(rl_of(v)->line().current_size() - rl_of(v)->line().rightsize());
            else return 0;
        }
        template <class V> static std::string text_of(V &v)
        {
            if constexpr (rl_visible<V>) return std::string(rl_of(v)->line().data(), rl_of(v)->line().current_size());
            else return std::string();
        }
        unsigned len_() override { return len_of(v); }
        unsigned cursor_() override { return cur_of(v); }
        std::string text_() override { return text_of(v); }
    };
    ivterm *make_vterm_x(unsigned cap, unsigned depth, bool echo) { return new vterm_x(cap, depth, echo); }

    template <class R> static size_t head_size(R &r)
    {
        if constexpr (requires { sizeof(r._headhist); }) return sizeof(r._headhist);
        else return 0;
    }
    template <class R> static size_t cur_size(R &r)
    {
        if constexpr (requires { sizeof(r._curhist); }) return sizeof(r._curhist);
        else return 0;
    }
    std::string consts2_x()
    {
        igris::readline r;
        return "w-xx-headhist=" + std::to_string(head_size(r)) + ",w-xx-curhist=" + std::to_string(cur_size(r)) +
               (rl_visible<igris::vtermxx> ? ",xx-internals-visible" : ",xx-internals-NOT-visible");
    }
}
