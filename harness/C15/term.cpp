// C15: the terminal-level ops (vt, vtx, vs, vw, tw, vl, premain): one translation unit of the harness.
#include "C15/oracle.h"

void run_vt(const std::vector<std::string> &w, out &o)
{
    bool cxx = w[1] == "x";
    unsigned cap = (unsigned)strtoul(w[2].c_str(), 0, 10), depth = (unsigned)strtoul(w[3].c_str(), 0, 10);
    bool echo = w[4] != "0";
    auto keys = hv::unhex(w[5]);
    session s(cxx, cap, depth, echo);
    std::string res = "I" + hex(s.init_step());
    for (uint8_t c : keys)
        res += " " + s.key(c);
    s.check_grammar(depth);
    o.result = res;
    if (!s.fail.empty()) o.fail(s.fail);
    o.tags = session::tagstr(s.tagbits);
    if (depth >= 256) o.tag("depth-ge-256");
    if (!echo) o.tag("echo-off");
}

void run_vtx(const std::vector<std::string> &w, out &o)
{
    bool cxx = w[1] == "x";
    unsigned cap = (unsigned)strtoul(w[2].c_str(), 0, 10), depth = (unsigned)strtoul(w[3].c_str(), 0, 10);
    const auto &alpha = w[4] == "0" ? ALPHA_BYTES : ALPHA_KEYS;
    unsigned L = (unsigned)strtoul(w[5].c_str(), 0, 10);
    auto pv = hv::unhex(w[6]);
    std::string prefix(pv.begin(), pv.end());
    fnv d;
    uint64_t count = 0;
    std::string firstfail;
    unsigned alltags = 0;
    // digest of the prefix itself
    {
        session s(cxx, cap, depth, true);
        d.bytes(s.init_step());
        for (unsigned char c : prefix)
        {
            s.key(c);
            d.key(*s.v);
        }
        if (!s.fail.empty()) firstfail = s.fail;
    }
    // preorder walk; every node is replayed from a fresh terminal
    std::vector<size_t> path;
    std::function<void(unsigned)> walk = [&](unsigned left)
    {
        if (!left) return;
        for (size_t t = 0; t < alpha.size(); t++)
        {
            path.push_back(t);
            session s(cxx, cap, depth, true);
            s.want_record = false;
            s.init_step();
            for (unsigned char c : prefix) s.key(c);
            for (size_t i = 0; i + 1 < path.size(); i++)
                for (unsigned char c : alpha[path[i]]) s.key(c);
            for (unsigned char c : alpha[t])
            {
                s.key(c);
                d.key(*s.v);
            }
            count++;
            s.check_grammar(depth);
            if (!s.fail.empty() && firstfail.empty()) firstfail = s.fail;
            alltags |= s.tagbits;
            walk(left - 1);
            path.pop_back();
        }
    };
    walk(L);
    o.result = std::to_string(count) + " " + hv::hexn(d.h, 16);
    if (!firstfail.empty()) o.fail(firstfail);
    o.tags = session::tagstr(alltags);
    o.tag("tree");
}


// vs <c|x> <cap> <depth> <token>...   one terminal object, everything a caller can do between keys:
//   k<hex> keys as (int16_t)(unsigned char)   c<hex> keys held in a `char` (the call path of igris' own callers)
//   i<int> a raw int16_t   I init step   P<hex> set_prompt   E0 / E1 set_echo
void run_vs(const std::vector<std::string> &w, out &o)
{
    bool cxx = w[1] == "x";
    unsigned cap = (unsigned)strtoul(w[2].c_str(), 0, 10), depth = (unsigned)strtoul(w[3].c_str(), 0, 10);
    session s(cxx, cap, depth, true);
    std::string res;
    auto add = [&](const std::string &r) { res += (res.empty() ? "" : " ") + r; };
    for (size_t i = 4; i < w.size(); i++)
    {
        const std::string &t = w[i];
        std::string arg = t.substr(1);
        switch (t[0])
        {
        case 'k':
            for (uint8_t c : hv::unhex(arg)) add(s.key(c));
            break;
        case 'c':
            for (uint8_t c : hv::unhex(arg))
            {
                add(s.key(c, 1));
                o.tag(c >= 0x80 ? "char-path-high-byte" : "char-path");
            }
            break;
        case 'i':
        {
            long v = strtol(arg.c_str(), 0, 10);
            if (v == -1) add("I" + hex(s.init_step()));
            else
            {
                add(s.key((uint8_t)(v & 0xff), 2, (int16_t)v));
                o.tag(v < 0 ? "int16-negative" : v > 255 ? "int16-above-255" : "int16");
            }
            break;
        }
        case 'I':
            add("I" + hex(s.init_step()));
            o.tag("init-step-midway");
            break;
        case 'P':
        {
            auto d = hv::unhex(arg);
            std::string p(d.begin(), d.end());
            s.set_prompt(p);
            add("=");
            o.tag(session::printable(p) ? "set-prompt" : "set-prompt-unprintable");
            break;
        }
        case 'E':
            s.set_echo(arg != "0");
            add("=");
            o.tag("set-echo");
            break;
        default:
            o.result = "bad-op";
            return;
        }
    }
    s.check_grammar(depth);
    o.result = res.empty() ? "-" : res;
    if (!s.fail.empty()) o.fail(s.fail);
    if (!s.tagbits) return;
    std::string ts = session::tagstr(s.tagbits);
    o.tags += (o.tags.empty() ? "" : ",") + ts;
}

// vw <c|x> <cap> <depth> <W> <strict> <keys-hex>: the echoed bytes on a W-column terminal with auto-wrap.
// Oracle: W >= |prompt| + cap: current row = prompt + line, column = |prompt| + cursor, no wrap pending after every
// key.  strict = 1: for ANY W the rows since the prompt must be the text cut every W glyphs (a correct wrapped
// display) - fails on narrow terminals (finding C15-narrow-screen).
void run_vw(const std::vector<std::string> &w, out &o)
{
    bool cxx = w[1] == "x";
    unsigned cap = (unsigned)strtoul(w[2].c_str(), 0, 10), depth = (unsigned)strtoul(w[3].c_str(), 0, 10);
    size_t W = strtoul(w[4].c_str(), 0, 10);
    bool strict = w[5] == "1";
    auto keys = hv::unhex(w[6]);
    if (W < 2) { o.result = "bad-op"; return; }
    session s(cxx, cap, depth, true);
    wterm t(W);
    t.feed(s.init_step());
    size_t base = t.r; // grid row the current prompt starts on
    std::string res = "I" + t.show();
    bool fits = W >= s.PROMPT.size() + cap;
    std::string fail;
    bool wrapped = false;
    for (uint8_t c : keys)
    {
        bool owed = s.pending_prompt;
        s.key(c);
        if (owed) base = t.r;
        t.feed(s.v->echoed);
        if (c == 3 || (s.last_accept && !s.cxx)) base = t.r; // this call ended with a new prompt
        res += " " + t.show();
        if (t.r > base) wrapped = true;
        if (!s.safe || !fail.empty()) continue;
        std::string text = (s.pending_prompt ? std::string() : s.PROMPT) + s.ref.line();
        size_t idx = (s.pending_prompt ? 0 : s.PROMPT.size()) + s.ref.left.size();
        if (fits)
        {
            if (t.grid[t.r] != text || t.c != idx || t.pend)
                fail = "on " + std::to_string(W) + " columns the row is '" + t.grid[t.r] + "' column " + std::to_string(t.c) + (t.pend ? " (wrap pending)" : "") +
                       ", expected '" + text + "' column " + std::to_string(idx) + " after keys " + hex(s.keys);
        }
        else if (strict)
        {
            // a correct wrapped display: rows base.. = text cut every W glyphs
            std::vector<std::string> want;
            for (size_t i = 0; i < text.size() || i == 0; i += W) want.push_back(text.substr(i, W));
            std::vector<std::string> got(t.grid.begin() + base, t.grid.end());
            while (got.size() > want.size() && got.back().empty()) got.pop_back();
            if (got != want)
            {
                std::string g, x;
                for (auto &r : got) g += "'" + r + "' ";
                for (auto &r : want) x += "'" + r + "' ";
                fail = "on " + std::to_string(W) + " columns the rows are " + g + "- a correct display of prompt + line shows " + x + "after keys " + hex(s.keys);
            }
        }
    }
    o.result = res;
    if (!s.fail.empty()) o.fail(s.fail);
    else if (!fail.empty()) o.fail(fail);
    o.tag(fits ? (W == s.PROMPT.size() + cap ? "wterm-exact-fit" : "wterm-fits") : "wterm-narrow");
    if (wrapped) o.tag("wterm-wrapped");
}

// lh <c|x> <cap> <depth> <maxlen> <keys-hex>: readline_linecpy with a HUGE maxlen (2^31 - 1 .. 2^32 + 1): the
// destination really has maxlen bytes (lazily mapped); result: return value + the first min(maxlen, cap + 2) bytes
struct premain_t
{
    std::string result, fail;
    premain_t()
    {
        for (int var = 0; var < 2; var++)
        {
            session s(var == 1, 4, 2, true);
            std::string res = "I" + hex(s.init_step());
            for (const char *p = PREMAIN_KEYS; *p; p++) res += " " + s.key((uint8_t)*p);
            s.check_grammar(2);
            result += (var ? " | " : "") + res;
            if (!s.fail.empty() && fail.empty()) fail = s.fail;
        }
    }
};
static premain_t premain_obj __attribute__((init_priority(101)));

// tw <cap> <depth> <echo> <keys-hex>: vterm.c and igris::vtermxx side by side, compared DIRECTLY with each other
// (events, line, cursor after every key; written bytes equal up to the prompt vtermxx still owes)
void run_tw(const std::vector<std::string> &w, out &o)
{
    unsigned cap = (unsigned)strtoul(w[1].c_str(), 0, 10), depth = (unsigned)strtoul(w[2].c_str(), 0, 10);
    bool echo = w[3] != "0";
    auto keys = hv::unhex(w[4]);
    session a(false, cap, depth, echo), b(true, cap, depth, echo);
    std::string res = "I" + hex(a.init_step());
    std::string wa = a.v->echoed, wb;
    b.init_step();
    wb = b.v->echoed;
    std::string sofar, fail;
    for (uint8_t c : keys)
    {
        sofar.push_back((char)c);
        res += " " + a.key(c);
        b.key(c);
        wa += a.v->echoed;
        wb += b.v->echoed;
        if (!fail.empty()) continue;
        auto evs = [](ivterm &v) { std::string s; for (auto &e : v.evs) s += e.exec ? "X" + hex(e.line) + ";" : "S;"; return s; };
        bool owes = b.pending_prompt;
        if (evs(*a.v) != evs(*b.v)) fail = "callback events differ: vterm.c " + evs(*a.v) + " vtermxx " + evs(*b.v);
        else if (!owes && (a.v->text() != b.v->text() || a.v->cursor() != b.v->cursor())) fail = "line / cursor differ: vterm.c '" + hex(a.v->text()) + "' vtermxx '" + hex(b.v->text()) + "'";
        else if (wa != wb + (owes && echo ? b.prompt_now : std::string())) fail = "written bytes differ (beyond the prompt vtermxx owes)";
        else if (a.v->rlstate() != NOT_VISIBLE && b.v->rlstate() != NOT_VISIBLE && a.v->rlstate() != b.v->rlstate() && !owes) fail = "escape states differ";
        if (!fail.empty()) fail += " after keys " + hex(sofar);
    }
    o.result = res;
    if (!a.fail.empty()) o.fail(a.fail);
    else if (!b.fail.empty()) o.fail(b.fail);
    else if (!fail.empty()) o.fail("twins: " + fail);
    o.tags = session::tagstr(a.tagbits);
    o.tag("twins");
}

// ts <cap> <op>...: struct sline and igris::sline side by side on the same calls (tokens of `sl` both families have)
void run_vl(const std::vector<std::string> &w, out &o)
{
    bool cxx = w[1] == "x";
    unsigned cap = (unsigned)strtoul(w[2].c_str(), 0, 10), depth = (unsigned)strtoul(w[3].c_str(), 0, 10);
    size_t n = strtoul(w[4].c_str(), 0, 10);
    uint64_t st = strtoull(w[5].c_str(), 0, 10);
    session s(cxx, cap, depth, true);
    s.want_record = false;
    fnv d;
    d.bytes(s.init_step());
    for (size_t i = 0; i < n; i++)
    {
        st = (st * 1103515245ull + 12345ull) % 2147483648ull;
        s.key((uint8_t)ALPHA_BYTES[(st / 65536) % 15][0]);
        d.key(*s.v);
    }
    s.check_grammar(depth);
    o.result = std::to_string(n) + " " + hv::hexn(d.h, 16);
    if (!s.fail.empty()) o.fail(s.fail);
    o.tags = session::tagstr(s.tagbits);
    o.tag(n >= 300 * 1024 ? "long-session-300KiB" : "long-session");
}


// the session run before main(), for op `premain`
void premain_report(std::string &result, std::string &fail)
{
    result = premain_obj.result;
    fail = premain_obj.fail;
}
