// C02 harness, one instantiation of the vector machine (see C02/common.h)
#include "C02/common.h"
#include <igris/container/vector.h>
#include "C02/mach.h"

MachBase *c02_mach_vi() { return new Mach<igris::vector<int, TA<int>>, int, false>(); }
