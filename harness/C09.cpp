// C09 harness: binary serialization (archive stack = C09/a.cpp, serializer
// stack = C09/s.cpp) against the Lean model IgrisModel/C09.
//
// Oracle (independent of the Lean model and of igris): decode(encode(v)) == v,
// consumed == produced, and the bytes equal a reference encoder written here
// from the documented layout (scalars little-endian fixed width; string/buffer
// = u16 length + bytes; vector/map = u16 count + elements; pair/tuple/user type
// = the fields).  Every input the real readers see is an exactly sized heap
// copy (ASan).  For TRUNCATED inputs (an input that the strict reference decoder
// written from the documented layout cannot decode: bytes missing, hostile counts)
// the property states one thing only: "never reads beyond the bytes supplied,
// however truncated".  The oracle for them is therefore: no access outside the
// exactly sized block (ASan), the reader position stays within [0, size of the
// input], the decode terminates.  The compared result of such a decode is the
// canonical word `truncated-ok`, NOT the decoded value (round 3c correction: the
// value a truncated input decodes to - zero-extended today - is not fixed by the
// property; what today's code yields is recorded in tags only).
#include "C09/common.h"

// ------------------------------------------------------------------ reference layout
static void ref_le(uint64_t v, int w, bytes &o)
{
    for (int i = 0; i < w; i++) o.push_back((uint8_t)(v >> (8 * i)));
}
static void ref_enc(const DT &t, const DV &v, bytes &o)
{
    switch (t.k)
    {
    case DT::SC: ref_le(v.bits, SCW[t.sc], o); break;
    case DT::STR:
    case DT::BUF:
        ref_le(v.bytes.size(), 2, o);
        o.insert(o.end(), v.bytes.begin(), v.bytes.end());
        break;
    case DT::VEC:
        ref_le(v.kids.size(), 2, o);
        for (auto &k : v.kids) ref_enc(t.kids[0], k, o);
        break;
    case DT::PAIR:
    case DT::TUPLE:
    case DT::STRUCT:
        for (size_t i = 0; i < t.kids.size(); i++) ref_enc(t.kids[i], v.kids.at(i), o);
        break;
    case DT::MAP:
        ref_le(v.kids.size(), 2, o);
        for (auto &e : v.kids)
        {
            ref_enc(t.kids[0], e.kids.at(0), o);
            ref_enc(t.kids[1], e.kids.at(1), o);
        }
        break;
    }
}

// std::less<K> of every type that can be a std::map key, written from the C++ rules: integers numerically,
// float/double by the hardware comparison, std::string bytewise, vector / pair / tuple / user type (std::tie) /
// map (over its entries as pairs) lexicographically.  Keys never contain NaN (the generator excludes them).
static bool dv_less(const DT &t, const DV &a, const DV &b)
{
    switch (t.k)
    {
    case DT::SC:
        if (t.sc == 8) { float x, y; uint32_t p = (uint32_t)a.bits, q = (uint32_t)b.bits; memcpy(&x, &p, 4); memcpy(&y, &q, 4); return x < y; }
        if (t.sc == 9) { double x, y; memcpy(&x, &a.bits, 8); memcpy(&y, &b.bits, 8); return x < y; }
        if (sc_signed(t.sc))
        {
            int sh = 64 - 8 * SCW[t.sc];
            return ((int64_t)(a.bits << sh) >> sh) < ((int64_t)(b.bits << sh) >> sh);
        }
        return a.bits < b.bits;
    case DT::STR:
    case DT::BUF:
    {
        size_t n = std::min(a.bytes.size(), b.bytes.size());
        for (size_t i = 0; i < n; i++)
        {
            unsigned char x = a.bytes[i], y = b.bytes[i];
            if (x != y) return x < y;
        }
        return a.bytes.size() < b.bytes.size();
    }
    case DT::PAIR:
    case DT::TUPLE:
    case DT::STRUCT:
        for (size_t i = 0; i < t.kids.size(); i++)
        {
            if (dv_less(t.kids[i], a.kids[i], b.kids[i])) return true;
            if (dv_less(t.kids[i], b.kids[i], a.kids[i])) return false;
        }
        return false;
    case DT::VEC:
    {
        size_t n = std::min(a.kids.size(), b.kids.size());
        for (size_t i = 0; i < n; i++)
        {
            if (dv_less(t.kids[0], a.kids[i], b.kids[i])) return true;
            if (dv_less(t.kids[0], b.kids[i], a.kids[i])) return false;
        }
        return a.kids.size() < b.kids.size();
    }
    case DT::MAP:
    {
        size_t n = std::min(a.kids.size(), b.kids.size());
        for (size_t i = 0; i < n; i++)
            for (int side = 0; side < 2; side++)
            {
                if (dv_less(t.kids[side], a.kids[i].kids[side], b.kids[i].kids[side])) return true;
                if (dv_less(t.kids[side], b.kids[i].kids[side], a.kids[i].kids[side])) return false;
            }
        return a.kids.size() < b.kids.size();
    }
    }
    return false;
}

// reference decoder.  clamp=false: strict (false on a short input);
// clamp=true: bytes that are not there read as zero, the position stops at n.
static bool ref_dec(const DT &t, const uint8_t *p, size_t n, size_t &pos, bool clamp, DV &v)
{
    auto rd = [&](int w, uint64_t &out) -> bool {
        out = 0;
        size_t avail = n - pos, len = std::min<size_t>(w, avail);
        if (!clamp && len < (size_t)w) return false;
        for (size_t i = 0; i < len; i++) out |= (uint64_t)p[pos + i] << (8 * i);
        pos += len;
        return true;
    };
    uint64_t c;
    switch (t.k)
    {
    case DT::SC: return rd(SCW[t.sc], v.bits);
    case DT::STR:
    case DT::BUF:
    {
        if (!rd(2, c)) return false;
        if (!clamp && n - pos < c) return false;
        // bounded reader: a std::string has its announced length, the missing bytes are zero;
        // an igris::buffer is a view into the input and is cut to the bytes that exist
        size_t len = std::min<size_t>(c, n - pos);
        v.bytes.assign((const char *)p + pos, len);
        if (t.k == DT::STR) v.bytes.resize(c, '\0');
        pos += len;
        return true;
    }
    case DT::VEC:
        if (!rd(2, c)) return false;
        for (uint64_t i = 0; i < c; i++)
        {
            v.kids.emplace_back();
            if (!ref_dec(t.kids[0], p, n, pos, clamp, v.kids.back())) return false;
        }
        return true;
    case DT::PAIR:
    case DT::TUPLE:
    case DT::STRUCT:
        for (size_t i = 0; i < t.kids.size(); i++)
        {
            v.kids.emplace_back();
            if (!ref_dec(t.kids[i], p, n, pos, clamp, v.kids.back())) return false;
        }
        return true;
    case DT::MAP:
        if (!rd(2, c)) return false;
        for (uint64_t i = 0; i < c; i++)
        {
            DV e;
            e.kids.resize(2);
            if (!ref_dec(t.kids[0], p, n, pos, clamp, e.kids[0])) return false;
            if (!ref_dec(t.kids[1], p, n, pos, clamp, e.kids[1])) return false;
            // ordered insert, equivalent key keeps the first entry
            size_t j = 0;
            bool dup = false;
            for (; j < v.kids.size(); j++)
            {
                if (dv_less(t.kids[0], e.kids[0], v.kids[j].kids[0])) break;
                if (!dv_less(t.kids[0], v.kids[j].kids[0], e.kids[0])) { dup = true; break; }
            }
            if (!dup) v.kids.insert(v.kids.begin() + j, e);
        }
        return true;
    }
    return false;
}

// size of a decoded value (one per scalar / byte / container node) and of the value an exhausted input decodes to
static size_t dv_nodes(const DT &t, const DV &v)
{
    size_t n = 1;
    switch (t.k)
    {
    case DT::SC: return 1;
    case DT::STR: case DT::BUF: return 1 + v.bytes.size();
    case DT::VEC: for (auto &k : v.kids) n += dv_nodes(t.kids[0], k); return n;
    case DT::MAP: for (auto &e : v.kids) n += 1 + dv_nodes(t.kids[0], e.kids[0]) + dv_nodes(t.kids[1], e.kids[1]); return n;
    default: for (size_t i = 0; i < t.kids.size(); i++) n += dv_nodes(t.kids[i], v.kids.at(i)); return n;
    }
}
static size_t dt_blank(const DT &t)
{
    size_t n = 1;
    switch (t.k)
    {
    case DT::SC: case DT::STR: case DT::BUF: return 1;
    case DT::VEC: return 1 + dt_blank(t.kids[0]);
    case DT::MAP: return 2 + dt_blank(t.kids[0]) + dt_blank(t.kids[1]);
    default: for (auto &k : t.kids) n += dt_blank(k); return n;
    }
}

// ------------------------------------------------------------------ tags
struct feat
{
    bool empty = false, nul = false, nan = false, l255 = false, l256 = false, l65535 = false, big = false,
         map = false, ustruct = false, vecobj = false, neg = false, kfloat = false, kvec = false, ktuple = false, kuser = false, kmap = false,
         kzero = false;
    int depth = 0;
};
static int walk(const DT &t, const DV &v, feat &f)
{
    int d = 0;
    auto len = [&](size_t n) {
        if (n == 0) f.empty = true;
        if (n == 255) f.l255 = true;
        if (n == 256) f.l256 = true;
        if (n == 65535) f.l65535 = true;
    };
    switch (t.k)
    {
    case DT::SC:
        if (t.sc == 8 && (v.bits & 0x7f800000u) == 0x7f800000u && (v.bits & 0x7fffffu)) f.nan = true;
        if (t.sc == 9 && (v.bits & 0x7ff0000000000000ull) == 0x7ff0000000000000ull && (v.bits & 0xfffffffffffffull)) f.nan = true;
        if (sc_signed(t.sc) && (v.bits >> (8 * SCW[t.sc] - 1))) f.neg = true;
        return 0;
    case DT::STR:
    case DT::BUF:
        len(v.bytes.size());
        if (v.bytes.find('\0') != std::string::npos) f.nul = true;
        return 0;
    case DT::VEC:
        len(v.kids.size());
        if (t.kids[0].k != DT::SC) f.vecobj = true;
        if (t.kids[0].k == DT::SC && v.kids.size() * SCW[t.kids[0].sc] >= 65536) f.big = true;
        for (auto &k : v.kids) d = std::max(d, walk(t.kids[0], k, f));
        return d + 1;
    case DT::MAP:
        f.map = true;
        len(v.kids.size());
        switch (t.kids[0].k)
        {
        case DT::SC:
            if (sc_float(t.kids[0].sc))
            {
                f.kfloat = true;
                for (auto &e : v.kids)
                    if ((e.kids[0].bits << (t.kids[0].sc == 8 ? 33 : 1)) == 0) f.kzero = true;
            }
            break;
        case DT::VEC: f.kvec = true; break;
        case DT::TUPLE: case DT::PAIR: f.ktuple = true; break;
        case DT::STRUCT: f.kuser = true; break;
        case DT::MAP: f.kmap = true; break;
        default: break;
        }
        for (auto &e : v.kids)
        {
            d = std::max(d, walk(t.kids[0], e.kids[0], f));
            d = std::max(d, walk(t.kids[1], e.kids[1], f));
        }
        return d + 1;
    case DT::STRUCT: f.ustruct = true; // fallthrough
    case DT::PAIR:
    case DT::TUPLE:
        for (size_t i = 0; i < t.kids.size(); i++) d = std::max(d, walk(t.kids[i], v.kids.at(i), f));
        return d + 1;
    }
    return 0;
}
static void tag1(out &o, const char *t)
{
    if (("," + o.tags + ",").find(std::string(",") + t + ",") == std::string::npos) o.tag(t);
}
static void tag_value(const DT &t, const DV &v, out &o)
{
    feat f;
    int d = walk(t, v, f);
    if (f.empty) tag1(o, "empty-container");
    if (f.nul) tag1(o, "embedded-nul");
    if (f.nan) tag1(o, "nan");
    if (f.neg) tag1(o, "negative");
    if (f.l255) tag1(o, "len255");
    if (f.l256) tag1(o, "len256");
    if (f.l65535) tag1(o, "len65535");
    if (f.big) tag1(o, "image>=65536");
    if (f.map) tag1(o, "map");
    if (f.kfloat) tag1(o, "key-float");
    if (f.kzero) tag1(o, "key-signed-zero");
    if (f.kvec) tag1(o, "key-vector");
    if (f.ktuple) tag1(o, "key-pair-tuple");
    if (f.kuser) tag1(o, "key-user-type");
    if (f.kmap) tag1(o, "key-map");
    if (f.ustruct) tag1(o, "user-type");
    if (f.vecobj) tag1(o, "vector-of-objects");
    if (d >= 3) tag1(o, "depth3");
    else if (d == 2) tag1(o, "depth2");
}

// all scalar bits / string bytes complemented, same shape (stale-memory poison)
static DV flipped(const DT &t, const DV &v)
{
    DV r;
    switch (t.k)
    {
    case DT::SC: r.bits = ~v.bits & (SCW[t.sc] == 8 ? ~0ull : ((1ull << (8 * SCW[t.sc])) - 1)); break;
    case DT::STR:
    case DT::BUF:
        r.bytes = v.bytes;
        for (auto &c : r.bytes) c = (char)~c;
        break;
    case DT::VEC:
        for (auto &k : v.kids) r.kids.push_back(flipped(t.kids[0], k));
        break;
    case DT::MAP: r = v; break;
    default:
        for (size_t i = 0; i < t.kids.size(); i++) r.kids.push_back(flipped(t.kids[i], v.kids.at(i)));
    }
    return r;
}

// ------------------------------------------------------------------ run
static stack_iface &stack_of(char c) { return c == 'a' ? stack_a() : stack_s(); }

static void op_roundtrip(char st, const std::vector<std::string> &descs, const std::vector<std::string> &vals,
                         const std::string &resthex, out &o)
{
    stack_iface &S = stack_of(st);
    std::vector<DT> dts(descs.size());
    std::vector<DV> dvs(descs.size());
    for (size_t i = 0; i < descs.size(); i++)
    {
        if (!dt_of(descs[i], dts[i]) || !dv_of(dts[i], vals[i], dvs[i])) { o.result = "bad-op"; o.fail("unparsable op"); return; }
        if (!S.has(descs[i])) { o.result = "unsupported"; o.fail("type not in the harness family: " + descs[i]); return; }
        tag_value(dts[i], dvs[i], o);
    }
    bytes rest = unhex(resthex);
    if (!rest.empty()) o.tag("rest-nonempty");
    if (descs.size() > 1) o.tag("sequence");
    bytes enc = S.encode_seq(descs, dvs);
    bytes ref;
    for (size_t i = 0; i < descs.size(); i++) ref_enc(dts[i], dvs[i], ref);
    if (enc != ref)
        o.fail("encoded bytes differ from the documented layout: got " + std::to_string(enc.size()) + " bytes, layout says " + std::to_string(ref.size()));
    bytes input = enc;
    input.insert(input.end(), rest.begin(), rest.end());
    o.result = hex(enc);
    {
        exact_buf eb(input);
        size_t consumed = 0;
        std::vector<DV> back = S.decode_seq(descs, eb.p, eb.n, consumed);
        for (size_t i = 0; i < descs.size(); i++)
        {
            std::string got = show(dts[i], back[i]);
            o.result += " " + got;
            if (got != vals[i]) o.fail("deserialize(serialize(v)) != v for " + descs[i]);
        }
        o.result += " " + std::to_string(consumed);
        if (consumed != enc.size())
            o.fail("consumed " + std::to_string(consumed) + " bytes, serialize produced " + std::to_string(enc.size()));
    }
    if (descs.size() == 1)
    {
        // the public one-call API must agree with the explicit writer/reader
        bytes e2 = S.encode_api(descs[0], dvs[0]);
        if (e2 != enc) o.fail("igris::serialize(v) differs from serialize(writer, v)");
        if (e2 == ref)
        {
            DV b2 = S.decode_api(descs[0], e2);
            if (show(dts[0], b2) != vals[0]) o.fail("igris::deserialize<T>(igris::serialize(v)) != v");
        }
    }
}

static void op_decode(char st, const std::string &desc, const std::string &inhex, const std::string *expect, out &o)
{
    stack_iface &S = stack_of(st);
    DT dt;
    if (!dt_of(desc, dt)) { o.result = "bad-op"; o.fail("unparsable op"); return; }
    if (!S.has(desc)) { o.result = "unsupported"; o.fail("type not in the harness family: " + desc); return; }
    bytes input = unhex(inhex);
    // complete = the strict decoder of the documented layout accepts the input (trailing bytes allowed)
    bool complete;
    {
        DV sv;
        size_t spos = 0;
        complete = ref_dec(dt, input.data(), input.size(), spos, false, sv);
    }
    // reference: both readers are bounded (missing bytes read as zero)
    DV rv;
    size_t rpos = 0;
    bool rok = ref_dec(dt, input.data(), input.size(), rpos, true, rv);
    if (!rok) { o.result = "fault"; o.tag("short-input-not-run"); return; }
    exact_buf eb(input);
    size_t consumed = 0;
    std::vector<DV> back = S.decode_seq({desc}, eb.p, eb.n, consumed);
    std::string got = show(dt, back[0]);
    tag_value(dt, back[0], o);
    size_t nodes = dv_nodes(dt, back[0]);
    if (nodes > 16 * (input.size() + 1)) tag1(o, "hostile-count");
    // cost model of today's code: nodes(v) <= blank(T) * (1 + 65535 * consumed).  Not a clause of the property: a tag.
    bool over = nodes > dt_blank(dt) * (1 + 65535 * consumed);
    if (!complete)
    {
        // truncated / hostile input: ASan on the exactly sized block, position in range, termination - nothing else
        o.result = "truncated-ok";
        tag1(o, "truncated");
        if (consumed > input.size()) o.fail("reader position beyond the supplied bytes");
        if (over) tag1(o, "truncated-alloc-over-cost-model");
        tag1(o, got == show(dt, rv) && consumed == rpos ? "truncated-value-zero-extended" : "truncated-value-other");
        if (expect) { o.tag("golden"); o.fail("recorded encoding is not a complete encoding"); }
        return;
    }
    o.result = got + " " + std::to_string(consumed);
    if (over) o.fail("decoded value has " + std::to_string(nodes) + " nodes, more than blank(T) * (1 + 65535 * consumed bytes)");
    if (got != show(dt, rv) || consumed != rpos) o.fail("decoded value/position differs from the documented layout");
    if (expect)
    {
        o.tag("golden");
        DV ev;
        if (!dv_of(dt, *expect, ev)) { o.fail("unparsable golden value"); return; }
        bytes re = S.encode_seq({desc}, {ev});
        o.result += " " + hex(re);
        if (got != *expect) o.fail("recorded encoding no longer decodes to the recorded value");
        if (re != input) o.fail("recorded value no longer encodes to the recorded bytes");
        if (consumed != input.size()) o.fail("recorded encoding not consumed exactly");
    }
}

static void op_trunc(char st, const std::string &desc, const std::string &val, const std::string &ks, out &o)
{
    stack_iface &S = stack_of(st);
    DT dt;
    DV dv;
    if (!dt_of(desc, dt) || !dv_of(dt, val, dv)) { o.result = "bad-op"; o.fail("unparsable op"); return; }
    if (!S.has(desc)) { o.result = "unsupported"; o.fail("type not in the harness family: " + desc); return; }
    tag_value(dt, dv, o);
    bytes enc = S.encode_seq({desc}, {dv});
    bytes encf = S.encode_seq({desc}, {flipped(dt, dv)});
    std::vector<size_t> kk;
    if (ks == "all")
        for (size_t k = 0; k <= enc.size(); k++) kk.push_back(k);
    else
    {
        std::istringstream is(ks);
        std::string tk;
        while (std::getline(is, tk, ',')) kk.push_back(std::min<size_t>(strtoull(tk.c_str(), 0, 10), enc.size()));
    }
    for (size_t idx = 0; idx < kk.size(); idx++)
    {
        size_t k = kk[idx];
        bytes pre(enc.begin(), enc.begin() + k);
        size_t c0 = 0, c1 = 0, c2 = 0;
        // leave other data in whatever memory the decoder reuses
        { exact_buf pb(encf); S.decode_seq({desc}, pb.p, pb.n, c0); }
        exact_buf e1(pre);
        std::string r1 = show(dt, S.decode_seq({desc}, e1.p, e1.n, c1)[0]);
        { exact_buf pb(enc); S.decode_seq({desc}, pb.p, pb.n, c0); }
        exact_buf e2(pre);
        std::string r2 = show(dt, S.decode_seq({desc}, e2.p, e2.n, c2)[0]);
        DV rv;
        size_t rpos = 0;
        ref_dec(dt, pre.data(), pre.size(), rpos, true, rv);
        std::string rr = show(dt, rv);
        bool complete;
        {
            DV sv;
            size_t spos = 0;
            complete = ref_dec(dt, pre.data(), pre.size(), spos, false, sv);
        }
        if (idx) o.result += "|";
        if (c1 > k || c2 > k) o.fail("reader position beyond the supplied bytes");
        if (!complete)
        {
            // truncated: no access outside the block (ASan), position in range, termination; the value is not compared
            o.result += "truncated-ok";
            tag1(o, "truncated");
            if (r1 != r2 || c1 != c2) tag1(o, "truncated-two-decodes-differ");
            tag1(o, r1 == rr && c1 == rpos ? "truncated-value-zero-extended" : "truncated-value-other");
            if (k == enc.size()) o.fail("the encoding of v is not a complete encoding of the documented layout");
        }
        else
        {
            o.result += r1 + "@" + std::to_string(c1);
            if (r1 != r2 || c1 != c2) o.fail("complete input at " + std::to_string(k) + ": two decodes of the same bytes differ (stale memory in the result)");
            else if (r1 != rr) o.fail("complete input at " + std::to_string(k) + ": decoded value differs from the documented layout (expected " + (rr.size() < 80 ? rr : rr.substr(0, 80) + "...") + ", got " + (r1.size() < 80 ? r1 : r1.substr(0, 80) + "...") + ")");
            if (k == enc.size() && r1 != val) o.fail("full input does not decode to v");
        }
        if (k < enc.size() && k > 0 && dt.k == DT::VEC && k == 1) tag1(o, "count-half-read");
    }
}


// ------------------------------------------------------------------ extension ops
// capped buffer loads of archive.h: the payload is cut to the destination, the stream stays in step
static void op_capped(char kind, const std::string &caps, const std::string &payhex, const std::string &desc,
                      const std::string &val, const std::string &resthex, out &o)
{
    DT dt;
    DV dv;
    if (!dt_of(desc, dt) || !dv_of(dt, val, dv) || (kind != 'c' && kind != 'w' && kind != 'v')) { o.result = "bad-op"; o.fail("unparsable op"); return; }
    if (!stack_a().has(desc)) { o.result = "unsupported"; o.fail("type not in the harness family: " + desc); return; }
    size_t cap = strtoull(caps.c_str(), 0, 10);
    bytes pb = unhex(payhex), rest = unhex(resthex);
    std::string payload(pb.begin(), pb.end());
    cap_out co = a_capped(kind, cap, payload, desc, dv, rest);
    bytes ref;
    ref_le(payload.size(), 2, ref);
    ref.insert(ref.end(), pb.begin(), pb.end());
    ref_enc(dt, dv, ref);
    if (co.enc != ref) o.fail("encoded bytes differ from the documented layout");
    std::string got = show(dt, co.val);
    o.result = hex(co.enc) + " \"" + (co.got.empty() ? "" : hex(co.got)) + "\" " + got + " " + std::to_string(co.consumed);
    size_t effcap = kind == 'c' ? (uint16_t)cap : cap;
    if (co.got != payload.substr(0, std::min(effcap, payload.size()))) o.fail("capped load did not deliver the first min(cap,len) bytes of the payload");
    if (!co.dst_clean) o.fail("capped load wrote outside the first min(cap,len) bytes of the destination");
    if (got != val) o.fail("the value after a capped buffer load is not read back (stream out of step)");
    if (co.consumed != co.enc.size()) o.fail("consumed " + std::to_string(co.consumed) + " bytes, serialize produced " + std::to_string(co.enc.size()));
    o.tag(payload.size() > effcap ? "capped-short-destination" : payload.size() == effcap ? "capped-exact" : "capped-fits");
    if (!rest.empty()) tag1(o, "rest-nonempty");
}

// load(writable_buffer&) and the value after it on a TRUNCATED input: the bounded reader clamps the read and the skip
static void op_capped_trunc(const std::string &caps, const std::string &payhex, const std::string &desc,
                            const std::string &val, const std::string &ks, out &o)
{
    DT dt;
    DV dv;
    if (!dt_of(desc, dt) || !dv_of(dt, val, dv)) { o.result = "bad-op"; o.fail("unparsable op"); return; }
    if (!stack_a().has(desc)) { o.result = "unsupported"; o.fail("type not in the harness family: " + desc); return; }
    size_t cap = strtoull(caps.c_str(), 0, 10), k = strtoull(ks.c_str(), 0, 10);
    bytes pb = unhex(payhex);
    std::string payload(pb.begin(), pb.end());
    bytes full;
    ref_le(payload.size(), 2, full);
    full.insert(full.end(), pb.begin(), pb.end());
    ref_enc(dt, dv, full);
    k = std::min(k, full.size());
    cap_out co = a_capped('w', cap, payload, desc, dv, bytes(), k);
    // reference: the missing bytes read as zero, the position never passes k
    bytes in(full.begin(), full.begin() + k);
    size_t pos = std::min<size_t>(2, k);
    size_t len = (k > 0 ? in[0] : 0) | (k > 1 ? in[1] << 8 : 0);
    size_t readsize = std::min(cap, len);
    std::string eg(readsize, '\0');
    size_t got = std::min(readsize, k - pos);
    if (got) memcpy(&eg[0], in.data() + pos, got);
    pos += got;
    pos += std::min(len - readsize, k - pos);
    DV rv;
    ref_dec(dt, in.data(), in.size(), pos, true, rv);
    std::string gs = show(dt, co.val);
    if (!co.dst_clean) o.fail("capped load wrote outside the destination");
    if (co.consumed > k) o.fail("archive reader position beyond the supplied bytes");
    if (k < full.size())
    {
        // truncated: no access outside input / destination, position in range, termination; values are not compared
        o.result = "truncated-ok";
        tag1(o, "truncated");
        tag1(o, co.got == eg && gs == show(dt, rv) && co.consumed == pos ? "truncated-value-zero-extended" : "truncated-value-other");
    }
    else
    {
        o.result = "\"" + (co.got.empty() ? "" : hex(co.got)) + "\" " + gs + " " + std::to_string(co.consumed);
        if (co.got != eg) o.fail("capped load on a complete input: stored bytes are not the first min(cap,len) bytes of the payload");
        if (gs != show(dt, rv) || co.consumed != pos) o.fail("value after a capped load on a complete input differs from the reference");
    }
    o.tag("capped-truncated");
    if (len > cap && k < full.size()) tag1(o, "skip-clamped");
}

// binary_buffer_writer (memcpy into a caller-supplied buffer) writes what binary_string_writer writes
static void op_binwriter(const std::string &desc, const std::string &val, out &o)
{
    DT dt;
    DV dv;
    if (!dt_of(desc, dt) || !dv_of(dt, val, dv)) { o.result = "bad-op"; o.fail("unparsable op"); return; }
    if (!a_binwriter_has(desc)) { o.result = "unsupported"; o.fail("type not in the binwriter list: " + desc); return; }
    bytes ref;
    ref_enc(dt, dv, ref);
    bytes e = a_binwriter(desc, dv, ref.size());
    o.result = hex(e);
    if (e != ref) o.fail("binary_buffer_writer bytes differ from the documented layout");
    o.tag("binwriter");
}

// round 3b: binary_buffer_writer on a caller buffer of <cap> bytes (exactly fitting, one byte short, too small, spare
// room).  Clauses judged on the real code, none of them through the Lean model:
//   never writes outside [buf, buf+cap)   - the buffer is a heap block of exactly cap bytes (ASan) and every byte of it
//                                            behind the written prefix keeps the fill byte, for two different fills
//   what fits is the encoding's prefix    - buf[0, min(cap, L)) == the first bytes of the reference encoding (L bytes)
//   the writer stops at min(cap, L)       - cursor (when the writer exposes one) and the behavioural extent
//   an exactly fitting buffer is complete - cap >= L: the buffer decodes back to the value, L bytes consumed
static void op_bufwrite(const std::string &desc, const std::string &val, const std::string &caps, out &o)
{
    DT dt;
    DV dv;
    if (!dt_of(desc, dt) || !dv_of(dt, val, dv)) { o.result = "bad-op"; o.fail("unparsable op"); return; }
    long probe = 0;
    if (!a_bufwrite(desc, dv, nullptr, 0, probe)) { o.result = "unsupported"; o.fail("no fixed-buffer writer for this type in the harness: " + desc); return; }
    size_t cap = strtoull(caps.c_str(), 0, 10);
    bytes ref;
    ref_enc(dt, dv, ref);
    size_t L = ref.size(), m = std::min(cap, L);
    const uint8_t fill[2] = {0xEE, 0x11};
    bytes got[2];
    long cur[2] = {-1, -1};
    for (int k = 0; k < 2; k++)
    {
        uint8_t *p = (uint8_t *)malloc(cap); // exactly cap bytes (also for cap = 0): ASan reports every write outside
        if (cap) memset(p, fill[k], cap);
        a_bufwrite(desc, dv, p, cap, cur[k]);
        got[k].assign(p, p + cap);
        free(p);
    }
    size_t ext = 0; // behavioural extent: the longest prefix on which the two runs agree (the fills differ)
    while (ext < cap && got[0][ext] == got[1][ext]) ext++;
    for (size_t i = 0; i < m; i++)
        if (got[0][i] != ref[i] || got[1][i] != ref[i]) { o.fail("the bytes that fit are not the prefix of the encoding (offset " + std::to_string(i) + ")"); break; }
    for (size_t i = m; i < cap; i++)
        if (got[0][i] != fill[0] || got[1][i] != fill[1]) { o.fail("a byte behind the encoding was written (offset " + std::to_string(i) + ")"); break; }
    if (ext != m) o.fail("written extent " + std::to_string(ext) + " != min(capacity, encoding length) " + std::to_string(m));
    for (int k = 0; k < 2; k++)
        if (cur[k] >= 0 && (size_t)cur[k] != m) { o.fail("writer position " + std::to_string(cur[k]) + " != min(capacity, encoding length) " + std::to_string(m)); break; }
    if (cur[0] < 0) tag1(o, "writer-pos-hidden");
    if (cap >= L)
    {
        hv::exact_buf eb(bytes(got[0].begin(), got[0].begin() + L));
        size_t consumed = 0;
        DV back = a_decode_raw(desc, eb.p, eb.n, consumed);
        if (show(dt, back) != show(dt, dv)) o.fail("the bytes the fixed-buffer writer stored do not decode back to the value");
        if (consumed != L) o.fail("decode of the fixed-buffer writer's bytes consumed " + std::to_string(consumed) + " of " + std::to_string(L));
    }
    o.result = hex(got[0]) + " " + std::to_string(cur[0] >= 0 ? (size_t)cur[0] : ext);
    tag1(o, "bufwriter");
    tag1(o, cap == L ? "bufwriter-exact-fit" : cap + 1 == L ? "bufwriter-one-short" : cap < L ? "bufwriter-too-small" : "bufwriter-spare");
    if (cap == 0) tag1(o, "bufwriter-cap0");
    tag_value(dt, dv, o);
}

// archive::data<T>(xs, N) inside a reflected type: raw image of N scalars, no count
static void op_data(const std::string &key, const std::string &val, const std::string &resthex, out &o)
{
    size_t colon = key.find(':');
    DT dt;
    DV dv;
    if (colon == std::string::npos || !dt_of("V(" + key.substr(0, colon) + ")", dt) || !dv_of(dt, val, dv)) { o.result = "bad-op"; o.fail("unparsable op"); return; }
    if (!a_data_has(key)) { o.result = "unsupported"; o.fail("array type not in the harness family: " + key); return; }
    size_t N = strtoull(key.c_str() + colon + 1, 0, 10);
    int w = SCW[dt.kids[0].sc];
    if (dv.kids.size() != N) { o.result = "bad-op"; o.fail("wrong element count"); return; }
    std::vector<uint64_t> xs;
    for (auto &k : dv.kids) xs.push_back(k.bits);
    bytes rest = unhex(resthex);
    bytes enc = a_data_enc(key, xs);
    // reference: the N*w-byte little-endian image, cut to (N*w mod 65536) bytes by the uint16_t size parameter
    bytes image;
    for (uint64_t x : xs) ref_le(x, w, image);
    size_t m = (N * (size_t)w) % 65536;
    bytes ref(image.begin(), image.begin() + m);
    if (enc != ref) o.fail("array image differs from the reference (" + std::to_string(enc.size()) + " bytes, expected " + std::to_string(ref.size()) + ")");
    bytes input = enc;
    input.insert(input.end(), rest.begin(), rest.end());
    exact_buf eb(input);
    size_t consumed = 0;
    std::vector<uint64_t> back = a_data_dec(key, eb.p, eb.n, consumed);
    DV bv;
    for (uint64_t x : back) bv.kids.push_back(DV::scalar(x));
    o.result = hex(enc) + " " + show(dt, bv) + " " + std::to_string(consumed);
    if (N * (size_t)w <= 65535)
    {
        if (show(dt, bv) != val) o.fail("array does not round-trip");
        o.tag("data-array");
    }
    else
    {
        // outside the domain (image > 65535 bytes): only the wrapped part travels, the rest reads back as zero
        DV ev;
        for (size_t i = 0; i < N; i++) ev.kids.push_back(DV::scalar((i + 1) * (size_t)w <= m ? xs[i] : 0));
        if (show(dt, bv) != show(dt, ev)) o.fail("wrapped array image: decoded elements differ from the reference");
        o.tag("data-array-wrap");
    }
    if (consumed != enc.size()) o.fail("consumed " + std::to_string(consumed) + " bytes, serialize produced " + std::to_string(enc.size()));
}

// beyond the 16-bit count (outside the property's domain): what exactly happens.  Top-level std::string and
// vectors of scalars only.  Reference: count = n mod 65536; a string writes only that many bytes (stream stays in
// step), a vector writes ALL n elements but the reader takes n mod 65536 of them (stream out of step).
static void op_wrap(char st, const std::string &desc, const std::string &val, const std::string &resthex, out &o)
{
    stack_iface &S = stack_of(st);
    DT dt;
    DV dv;
    if (!dt_of(desc, dt) || !dv_of(dt, val, dv)) { o.result = "bad-op"; o.fail("unparsable op"); return; }
    bool isstr = dt.k == DT::STR, isvec = dt.k == DT::VEC && dt.kids[0].k == DT::SC;
    if (!S.has(desc) || !(isstr || isvec)) { o.result = "unsupported"; o.fail("wrap op on an unsupported type: " + desc); return; }
    bytes rest = unhex(resthex);
    bytes enc = S.encode_seq({desc}, {dv});
    size_t n = isstr ? dv.bytes.size() : dv.kids.size(), c = n % 65536;
    bytes ref;
    DV ev;
    ref_le(c, 2, ref);
    size_t expect_consumed;
    if (isstr)
    {
        ref.insert(ref.end(), dv.bytes.begin(), dv.bytes.begin() + c);
        ev.bytes = dv.bytes.substr(0, c);
        expect_consumed = ref.size();
    }
    else
    {
        for (auto &k : dv.kids) ref_enc(dt.kids[0], k, ref);
        ev.kids.assign(dv.kids.begin(), dv.kids.begin() + c);
        expect_consumed = 2 + c * SCW[dt.kids[0].sc];
    }
    if (enc != ref) o.fail("beyond the 16-bit count: bytes differ from the reference (count mod 65536)");
    bytes input = enc;
    input.insert(input.end(), rest.begin(), rest.end());
    exact_buf eb(input);
    size_t consumed = 0;
    std::vector<DV> back = S.decode_seq({desc}, eb.p, eb.n, consumed);
    std::string got = show(dt, back[0]);
    o.result = hex(enc) + " " + got + " " + std::to_string(consumed);
    if (got != show(dt, ev) || consumed != expect_consumed) o.fail("beyond the 16-bit count: decoded value/position differ from the reference");
    o.tag(n > 65535 ? "count-wrapped" : "count-max");
    if (n > 65535 && consumed != enc.size()) tag1(o, "stream-out-of-step");
}

// serialize_storage_base::dumps + deserialize_storage::loads
static void op_loads(const std::string &datahex, const std::string &nss, out &o)
{
    bytes d = unhex(datahex);
    std::vector<size_t> ns;
    {
        std::istringstream is(nss);
        std::string tk;
        while (std::getline(is, tk, ',')) ns.push_back(strtoull(tk.c_str(), 0, 10));
    }
    size_t avail = 0;
    std::vector<std::string> got = s_loads(std::string(d.begin(), d.end()), ns, avail);
    size_t pos = 0;
    bool cutin = false, same = true; // cutin: a loads() asked for more bytes than were left
    for (size_t i = 0; i < ns.size(); i++)
    {
        std::string e(ns[i], '\0');
        size_t len = std::min(ns[i], d.size() - pos);
        if (len) memcpy(&e[0], d.data() + pos, len);
        pos += len;
        if (len < ns[i]) { cutin = true; tag1(o, "truncated"); }
        // from the first short read on the property only says "never reads beyond the bytes supplied": not compared
        if (cutin) { o.result += (i ? "|truncated-ok" : "truncated-ok"); if (got[i] != e) same = false; continue; }
        if (got[i] != e) o.fail("loads(" + std::to_string(ns[i]) + ") on a storage that holds the bytes does not return them");
        o.result += (i ? "|" : "") + hex(got[i]);
    }
    if (cutin)
    {
        o.result += " truncated-ok";
        if (avail > d.size()) o.fail("storage cursor outside [0, size of the input]");
        tag1(o, same && avail == d.size() - pos ? "truncated-value-zero-extended" : "truncated-value-other");
    }
    else
    {
        o.result += " " + std::to_string(avail);
        if (avail != d.size() - pos) o.fail("storage cursor differs from the reference");
    }
    o.tag("storage-loads");
}

// FINDING PROBE: the archive reader on a truncated encoding (binary_buffer_reader never looks at _end)
static void op_trunc_a(const std::string &desc, const std::string &val, const std::string &ks, out &o)
{
    DT dt;
    DV dv;
    if (!dt_of(desc, dt) || !dv_of(dt, val, dv)) { o.result = "bad-op"; o.fail("unparsable op"); return; }
    if (!stack_a().has(desc)) { o.result = "unsupported"; o.fail("type not in the harness family: " + desc); return; }
    bytes enc = stack_a().encode_seq({desc}, {dv});
    size_t k = std::min<size_t>(strtoull(ks.c_str(), 0, 10), enc.size());
    bytes pre(enc.begin(), enc.begin() + k);
    exact_buf eb(pre);
    size_t consumed = 0;
    DV back = a_decode_raw(desc, eb.p, eb.n, consumed); // ASan stops here when a byte outside the input is read
    if (consumed > k) o.fail("archive reader position beyond the supplied bytes");
    if (k < enc.size())
    {
        o.result = "truncated-ok"; // the value a truncated input decodes to is not compared
        tag1(o, "truncated");
    }
    else
    {
        o.result = show(dt, back) + "@" + std::to_string(consumed);
    }
    o.tag("truncated-archive-reader");
}

// ------------------------------------------------------------------ round 3 ops
static bool dest_nonempty(const DT &t, const DV &v)
{
    switch (t.k)
    {
    case DT::SC: case DT::STR: case DT::BUF: return false; // overwritten as a whole
    case DT::VEC: case DT::MAP: return !v.kids.empty();
    default:
        for (size_t i = 0; i < t.kids.size(); i++)
            if (dest_nonempty(t.kids[i], v.kids.at(i))) return true;
        return false;
    }
}
// ia|is <type> <dest> <value> <rest> <k|->: serialize(v), then the IN-PLACE reader API on an object that already holds
// <dest> (igris::deserialize(reader, obj) / deserializer::operator&).  "deserialize(serialize(v)) equals v and consumes
// exactly the bytes serialize produced" - whatever the object held before.  With <k> the reader is given the first k
// bytes only: the result is a function of the supplied bytes (archive stack: and of nothing else).
static void op_into(char st, const std::string &desc, const std::string &dests, const std::string &val,
                    const std::string &resthex, const std::string &ks, out &o)
{
    stack_iface &S = stack_of(st);
    DT dt;
    DV dest, dv;
    if (!dt_of(desc, dt) || !dv_of(dt, dests, dest) || !dv_of(dt, val, dv)) { o.result = "bad-op"; o.fail("unparsable op"); return; }
    if (!S.has(desc)) { o.result = "unsupported"; o.fail("type not in the harness family: " + desc); return; }
    tag_value(dt, dv, o);
    bytes rest = unhex(resthex);
    bytes enc = S.encode_seq({desc}, {dv});
    bytes ref;
    ref_enc(dt, dv, ref);
    if (enc != ref) o.fail("encoded bytes differ from the documented layout");
    bytes input = enc;
    input.insert(input.end(), rest.begin(), rest.end());
    bool cut = ks != "-";
    if (cut) input.resize(std::min<size_t>(input.size(), strtoull(ks.c_str(), 0, 10)));
    exact_buf eb(input);
    size_t consumed = 0;
    DV back = S.decode_into(desc, dest, eb.p, eb.n, consumed);
    std::string got = show(dt, back);
    tag1(o, dest_nonempty(dt, dest) ? "dest-nonempty" : "dest-blank");
    if (!cut || input.size() >= enc.size())
    {
        o.result = hex(enc) + " " + got + " " + std::to_string(consumed);
        if (got != val) o.fail("deserialize into an existing object: deserialize(serialize(v)) != v for " + desc + " (destination held " + (dests.size() < 60 ? dests : dests.substr(0, 60) + "...") + ")");
        if (consumed != enc.size()) o.fail("consumed " + std::to_string(consumed) + " bytes, serialize produced " + std::to_string(enc.size()));
    }
    else
    {
        // truncated: no access outside the block (ASan), position in range, termination; the value is not compared
        o.result = hex(enc) + " truncated-ok";
        tag1(o, "truncated");
        if (consumed > input.size()) o.fail("reader position beyond the supplied bytes");
        exact_buf e2(input);
        size_t c2 = 0;
        if (show(dt, S.decode_into(desc, dest, e2.p, e2.n, c2)) != got || c2 != consumed) tag1(o, "truncated-two-decodes-differ");
        if (c2 > input.size()) o.fail("reader position beyond the supplied bytes");
        if (st == 'a')
        {
            DV rv;
            size_t rpos = 0;
            ref_dec(dt, input.data(), input.size(), rpos, true, rv);
            tag1(o, got == show(dt, rv) && consumed == rpos ? "truncated-value-zero-extended" : "truncated-value-other");
        }
    }
}

// tseqa|tseqs <k> (<type> <value>)+: several values written by ONE writer, the input cut to k bytes, read back by ONE
// reader that is used again after it has hit the end of its input
static void op_tseq(char st, const std::vector<std::string> &descs, const std::vector<std::string> &vals, const std::string &ks, out &o)
{
    stack_iface &S = stack_of(st);
    std::vector<DT> dts(descs.size());
    std::vector<DV> dvs(descs.size());
    for (size_t i = 0; i < descs.size(); i++)
    {
        if (!dt_of(descs[i], dts[i]) || !dv_of(dts[i], vals[i], dvs[i])) { o.result = "bad-op"; o.fail("unparsable op"); return; }
        if (!S.has(descs[i])) { o.result = "unsupported"; o.fail("type not in the harness family: " + descs[i]); return; }
    }
    bytes enc = S.encode_seq(descs, dvs);
    size_t k = std::min<size_t>(strtoull(ks.c_str(), 0, 10), enc.size());
    bytes pre(enc.begin(), enc.begin() + k);
    exact_buf eb(pre);
    size_t consumed = 0;
    std::vector<DV> back = S.decode_seq(descs, eb.p, eb.n, consumed);
    size_t rpos = 0;
    bool cutin = k < enc.size(), same = true;
    for (size_t i = 0; i < descs.size(); i++)
    {
        std::string got = show(dts[i], back[i]);
        if (!cutin) o.result += (i ? " " : "") + got;
        DV rv;
        ref_dec(dts[i], pre.data(), pre.size(), rpos, true, rv);
        if (got != show(dts[i], rv))
        {
            same = false;
            if (!cutin) o.fail("value " + std::to_string(i) + " of a complete sequence differs from the reference decode of the documented layout");
        }
    }
    if (consumed > k) o.fail("reader position is beyond the supplied bytes");
    if (cutin)
    {
        // truncated: no access outside the block (ASan), position in range, termination; the values are not compared
        o.result = "truncated-ok";
        tag1(o, same && consumed == rpos ? "truncated-value-zero-extended" : "truncated-value-other");
    }
    else
    {
        o.result += " " + std::to_string(consumed);
        if (consumed != rpos) o.fail("reader position differs from the reference");
    }
    o.tag("reader-reused-after-end");
    if (k < enc.size()) tag1(o, "truncated");
}

// widths of the counters / size parameters the model embeds, read out of the compiled code
std::string a_consts(std::vector<std::string> &tags);
std::string s_consts(std::vector<std::string> &tags);

static void run_op(const std::vector<std::string> &w, const std::string &, out &o);
// ops run BEFORE main() (static-initialisation order): a harness object of init_priority(101) executes these lines
// through run_op from its constructor and keeps result + oracle; `pm <i> <op...>` reports them later
static const char *const PM_OPS[] = {
    "a T(V(str),u8,V(u8)) ([\"6162\",\"\"],07,[01,02]) ff",
    "s V(S(u8,u8,u32)) [(01,02,00000003),(ff,fe,80000000)] 00",
    "a M(str,i32) {\"61\":00000001,\"6162\":ffffffff} -",
    "tb str \"616263\" all",
    "ts V(u16) [0001,0002] all",
    "ia S(V(u8),i16,M(u8,u8)) ([09],0001,{02:03}) ([],0000,{}) - -",
    "sizes",
    "consts",
};
struct premain_t
{
    std::vector<std::string> res, ora;
    premain_t()
    {
        for (const char *l : PM_OPS)
        {
            out o;
            run_op(words(l), l, o);
            res.push_back(o.result);
            ora.push_back(o.oracle);
        }
    }
};
static premain_t g_premain __attribute__((init_priority(101)));
static int g_main_started = 0;

static void run_op(const std::vector<std::string> &w, const std::string &, out &o)
{
    if (w.empty()) { o.result = "bad-op"; return; }
    const std::string &op = w[0];
    if (op == "pm" && w.size() >= 3)
    {
        size_t i = strtoull(w[1].c_str(), 0, 10);
        std::string line;
        for (size_t j = 2; j < w.size(); j++) line += (j > 2 ? " " : "") + w[j];
        if (i >= sizeof PM_OPS / sizeof *PM_OPS || line != PM_OPS[i]) { o.result = "bad-op"; o.fail("pm: not the op the pre-main object ran"); return; }
        o.result = g_premain.res[i];
        o.oracle = g_premain.ora[i];
        out now;
        run_op(std::vector<std::string>(w.begin() + 2, w.end()), line, now);
        if (now.result != o.result) o.fail("the same op gives another result before main() than after");
        o.tag("pre-main");
        return;
    }
    if (op == "consts" && w.size() == 1)
    {
        // compared: the width of the count on the wire (the property's "16-bit count"); tags: internal widths
        std::vector<std::string> tg;
        std::string ra = a_consts(tg);
        o.result = ra + " " + s_consts(tg);
        for (auto &t : tg) o.tag(t.c_str());
        return;
    }
    if ((op == "ia" || op == "is") && w.size() == 6) return op_into(op[1], w[1], w[2], w[3], w[4], w[5], o);
    if ((op == "tseqa" || op == "tseqs") && w.size() >= 4 && w.size() % 2 == 0)
    {
        std::vector<std::string> ds, vs;
        for (size_t i = 2; i + 1 < w.size(); i += 2) { ds.push_back(w[i]); vs.push_back(w[i + 1]); }
        return op_tseq(op[4], ds, vs, w[1], o);
    }
    if (op == "sizes" && w.size() == 1)
    {
        // length of the real encoding of each scalar type
        for (int i = 0; i < 10; i++)
        {
            bytes e = stack_a().encode_seq({SCN[i]}, {DV::scalar(0)});
            bytes e2 = stack_s().encode_seq({SCN[i]}, {DV::scalar(0)});
            if (e.size() != e2.size()) o.fail("stacks disagree on a scalar size");
            o.result += (i ? " " : "") + std::to_string(e.size());
        }
        return;
    }
    if (op == "sizes2" && w.size() == 1)
    {
        // the further arithmetic types of the serializer stack: bool, char, long long, unsigned long long
        for (int i = 0; i < 4; i++)
        {
            bytes e = stack_s().encode_seq({ALN[i]}, {DV::scalar(0)});
            o.result += (i ? " " : "") + std::to_string(e.size());
        }
        return;
    }
    if (op == "cap" && w.size() == 7) return op_capped(w[1].size() == 1 ? w[1][0] : '?', w[2], w[3], w[4], w[5], w[6], o);
    if (op == "capt" && w.size() == 6) return op_capped_trunc(w[1], w[2], w[3], w[4], w[5], o);
    if (op == "bw" && w.size() == 3) return op_binwriter(w[1], w[2], o);
    if (op == "bwc" && w.size() == 4) return op_bufwrite(w[1], w[2], w[3], o);
    if (op == "dat" && w.size() == 4) return op_data(w[1], w[2], w[3], o);
    if ((op == "wa" || op == "ws") && w.size() == 4) return op_wrap(op[1], w[1], w[2], w[3], o);
    if (op == "sl" && w.size() == 3) return op_loads(w[1], w[2], o);
    if (op == "ta" && w.size() == 4) return op_trunc_a(w[1], w[2], w[3], o);
    if ((op == "a" || op == "s") && w.size() == 4) return op_roundtrip(op[0], {w[1]}, {w[2]}, w[3], o);
    if ((op == "seqa" || op == "seqs") && w.size() >= 4 && w.size() % 2 == 0)
    {
        std::vector<std::string> ds, vs;
        for (size_t i = 2; i + 1 < w.size(); i += 2) { ds.push_back(w[i]); vs.push_back(w[i + 1]); }
        return op_roundtrip(op[3], ds, vs, w[1], o);
    }
    if ((op == "da" || op == "ds") && w.size() == 3) return op_decode(op[1], w[1], w[2], nullptr, o);
    if ((op == "ga" || op == "gs") && w.size() == 4) return op_decode(op[1], w[1], w[2], &w[3], o);
    if ((op == "ts" || op == "tb") && w.size() == 4) return op_trunc(op == "ts" ? 's' : 'a', w[1], w[2], w[3], o);
    o.result = "bad-op";
    o.fail("unknown op");
}

// ------------------------------------------------------------------ gen
static int g_key_depth = 0; // > 0 while a map key is generated: no NaN (std::map needs a strict weak order)
static uint64_t gen_scalar_any(int sc, rng &r);
static uint64_t gen_scalar(int sc, rng &r)
{
    uint64_t b = gen_scalar_any(sc, r);
    if (g_key_depth > 0)
    {
        if (sc == 8 && (b & 0x7f800000u) == 0x7f800000u && (b & 0x7fffffu)) b &= ~0x7fffffull;            // NaN -> inf
        if (sc == 9 && (b & 0x7ff0000000000000ull) == 0x7ff0000000000000ull && (b & 0xfffffffffffffull)) b &= ~0xfffffffffffffull;
    }
    return b;
}
static uint64_t gen_scalar_any(int sc, rng &r)
{
    int w = SCW[sc];
    uint64_t mask = w == 8 ? ~0ull : ((1ull << (8 * w)) - 1);
    if (sc == 8)
    {
        static const uint32_t sp[] = {0, 0x80000000u, 0x7f800000u, 0xff800000u, 0x7fc00000u, 0x7fc00001u, 0xffc12345u,
                                      0x7f800001u, 0x00000001u, 0x3fc00000u, 0x7f7fffffu, 0x00800000u};
        return r.chance(60) ? sp[r.below(sizeof sp / sizeof *sp)] : (uint32_t)r.next();
    }
    if (sc == 9)
    {
        static const uint64_t sp[] = {0, 0x8000000000000000ull, 0x7ff0000000000000ull, 0xfff0000000000000ull,
                                      0x7ff8000000000000ull, 0x7ff8000000000001ull, 0xfff80000deadbeefull,
                                      0x7ff0000000000001ull, 1, 0x3ff8000000000000ull, 0x7fefffffffffffffull};
        return r.chance(60) ? sp[r.below(sizeof sp / sizeof *sp)] : r.next();
    }
    switch (r.below(8))
    {
    case 0: return 0;
    case 1: return 1;
    case 2: return mask;                  // -1 / max
    case 3: return 1ull << (8 * w - 1);   // min signed
    case 4: return (1ull << (8 * w - 1)) - 1;
    case 5: return 0x0807060504030201ull & mask; // every byte distinct: byte order visible
    default: return r.next() & mask;
    }
}
static std::string gen_bytes(rng &r, size_t n)
{
    std::string s(n, 0);
    int mode = (int)r.below(4);
    for (auto &c : s)
        c = mode == 0 ? (char)r.next() : mode == 1 ? (r.chance(30) ? 0 : (char)('a' + r.below(26))) : mode == 2 ? (char)0xff : (r.chance(50) ? 0 : (char)r.next());
    return s;
}
static size_t gen_len(rng &r, size_t cap)
{
    static const size_t sp[] = {0, 0, 1, 1, 2, 3, 4, 7, 8, 255, 256, 257};
    size_t n = r.chance(70) ? sp[r.below(sizeof sp / sizeof *sp)] : r.below(40);
    return std::min(n, cap);
}
static DV mk_map_fwd(const DT &t, std::vector<DV> es);
// cap = largest container/string size allowed at this level
static DV gen_val(const DT &t, rng &r, size_t cap)
{
    DV v;
    size_t sub = cap > 8 ? 4 : cap > 2 ? 3 : 2;
    switch (t.k)
    {
    case DT::SC: v.bits = t.alias == 1 ? r.below(2) : gen_scalar(t.sc, r); break; // bool: 0/1 only
    case DT::STR:
    case DT::BUF: v.bytes = gen_bytes(r, gen_len(r, cap)); break;
    case DT::VEC:
    {
        size_t n = gen_len(r, cap);
        // below a big vector only small things
        size_t inner = n > 16 ? (t.kids[0].k == DT::SC ? 0 : 2) : sub * 2;
        for (size_t i = 0; i < n; i++) v.kids.push_back(gen_val(t.kids[0], r, inner));
        break;
    }
    case DT::PAIR:
    case DT::TUPLE:
    case DT::STRUCT:
        for (auto &k : t.kids) v.kids.push_back(gen_val(k, r, cap > 40 ? 40 : cap));
        break;
    case DT::MAP:
    {
        size_t n = gen_len(r, cap);
        size_t inner = n > 16 ? 2 : sub * 2;
        std::vector<DV> es;
        for (size_t i = 0; i < n; i++)
        {
            DV e;
            g_key_depth++;
            e.kids.push_back(gen_val(t.kids[0], r, t.kids[0].k == DT::SC || t.kids[0].k == DT::STR ? 6 : 3));
            g_key_depth--;
            e.kids.push_back(gen_val(t.kids[1], r, inner));
            es.push_back(e);
        }
        v = mk_map_fwd(t, es);
        break;
    }
    }
    return v;
}
static std::string gen_rest(rng &r)
{
    if (r.chance(45)) return "-";
    size_t n = 1 + r.below(6);
    bytes b(n);
    for (auto &x : b) x = r.chance(40) ? 0xff : (uint8_t)r.next();
    return hex(b);
}
static std::string ks_for(size_t len, rng &r)
{
    if (len <= 64) return "all";
    std::vector<size_t> ks;
    for (size_t k = 0; k <= 6; k++) ks.push_back(k);
    for (size_t k = len - 6; k <= len; k++) ks.push_back(k);
    for (int i = 0; i < 12; i++) ks.push_back(r.below(len + 1));
    std::sort(ks.begin(), ks.end());
    ks.erase(std::unique(ks.begin(), ks.end()), ks.end());
    std::string s;
    for (size_t k : ks) s += (s.empty() ? "" : ",") + std::to_string(k);
    return s;
}
static bool has_map(const DT &t)
{
    if (t.k == DT::MAP) return true;
    for (auto &k : t.kids)
        if (has_map(k)) return true;
    return false;
}
// the value as the C++ object holds it: every map inside rebuilt by std::map::insert and iterated.  The generator
// orders entries with dv_less; std::less<K> must agree (self-check of the harness' reference comparator).
static DV canon_a(const std::string &d, const DT &t, const DV &v)
{
    if (!has_map(t) || !stack_a().has(d)) return v;
    DV c = stack_a().canon(d, v);
    if (show(t, c) != show(t, v))
    {
        fprintf(stderr, "C09 harness: dv_less disagrees with std::less for %s:\n  generated %s\n  std::map  %s\n", d.c_str(), show(t, v).c_str(), show(t, c).c_str());
        exit(3);
    }
    return c;
}
static void emit_rt(char st, const std::string &d, const DT &t, const DV &v, const std::string &rest)
{
    printf("%c %s %s %s\n", st, d.c_str(), show(t, st == 'a' ? canon_a(d, t, v) : v).c_str(), rest.c_str());
}
static DV mk_map(const DT &t, std::vector<DV> es);
static DV mk_map_fwd(const DT &t, std::vector<DV> es) { return mk_map(t, es); }
// the bounded archive reader on every / sampled truncation point of an encoding
static void emit_tb(const std::string &d, const DT &t, const DV &v, rng &r)
{
    DV c = canon_a(d, t, v);
    bytes e;
    ref_enc(t, c, e);
    printf("tb %s %s %s\n", d.c_str(), show(t, c).c_str(), ks_for(e.size(), r).c_str());
}
// entries in any order, possibly with equivalent keys -> the map value (first of equivalent keys wins)
static DV mk_map(const DT &t, std::vector<DV> es)
{
    DV v;
    std::stable_sort(es.begin(), es.end(), [&](const DV &a, const DV &b) { return dv_less(t.kids[0], a.kids[0], b.kids[0]); });
    for (auto &e : es)
        if (v.kids.empty() || dv_less(t.kids[0], v.kids.back().kids[0], e.kids[0])) v.kids.push_back(e);
    return v;
}
static void emit_ts(const std::string &d, const DT &t, const DV &v, rng &r)
{
    bytes e;
    ref_enc(t, v, e);
    printf("ts %s %s %s\n", d.c_str(), show(t, v).c_str(), ks_for(e.size(), r).c_str());
}
static DV vec_of(int sc, size_t n, rng &r, bool pattern)
{
    DV v;
    int w = SCW[sc];
    uint64_t mask = w == 8 ? ~0ull : ((1ull << (8 * w)) - 1);
    v.kids.resize(n);
    for (size_t i = 0; i < n; i++) v.kids[i].bits = pattern ? ((i * 0x0101010101010101ull + 1) & mask) : (r.next() & mask);
    return v;
}
// all sequences over `alpha` with length <= maxlen
template <class F> static void all_seqs(size_t alpha, size_t maxlen, F f)
{
    for (size_t len = 0; len <= maxlen; len++)
    {
        size_t total = 1;
        for (size_t i = 0; i < len; i++) total *= alpha;
        for (size_t code = 0; code < total; code++)
        {
            std::vector<size_t> s;
            for (size_t i = 0, c = code; i < len; i++, c /= alpha) s.push_back(c % alpha);
            f(s);
        }
    }
}

__attribute__((optimize("O0"))) // the generator is the largest function of this file: compile time matters, its run time (1 s) does not
static void gen(rng &r, const std::string &tier)
{
    bool th = tier == "thorough";
    std::vector<std::string> fa = stack_a().descs(), fs = stack_s().descs();
    if (tier == "golden")
    {
        // not part of a check run: prints, for EVERY registered type of both stacks, round-trip ops on a fixed value grid
        // (own generator state, independent of the seed).  Their results, recorded with the library as it is today, are
        // corpus/C09/golden3.ops (see notes/C09.md, "Extension round 3").
        rng g(20260930);
        for (int st = 0; st < 2; st++)
            for (auto &d : st ? fs : fa)
            {
                DT t;
                dt_of(d, t);
                for (int i = 0; i < 3; i++)
                {
                    DV v = gen_val(t, g, i == 0 ? 0 : i == 1 ? 2 : 5);
                    if (!st) v = canon_a(d, t, v);
                    printf("%c %s %s -\n", st ? 's' : 'a', d.c_str(), show(t, v).c_str());
                }
            }
        return;
    }
    puts("sizes");
    // (1) exhaustive / boundary scalars on both stacks
    for (int sc = 0; sc < 10; sc++)
    {
        DT t; t.k = DT::SC; t.sc = sc;
        int w = SCW[sc];
        std::vector<uint64_t> vals;
        if (w == 1)
            for (int x = 0; x < 256; x++) vals.push_back(x);
        else if (w == 2)
            for (int x = 0; x < 65536; x += (th ? 1 : (x < 300 || x >= 65280 || (x >= 32512 && x < 33024)) ? 1 : 97)) vals.push_back(x);
        else
            for (int i = 0; i < (th ? 400 : 60); i++) vals.push_back(gen_scalar(sc, r));
        for (uint64_t x : vals)
        {
            DV v = DV::scalar(x);
            emit_rt('a', SCN[sc], t, v, w == 1 ? "-" : gen_rest(r));
            emit_rt('s', SCN[sc], t, v, w == 1 ? "-" : gen_rest(r));
        }
        for (int i = 0; i < 6; i++) emit_ts(SCN[sc], t, DV::scalar(gen_scalar(sc, r) | 0x8040201008040201ull >> (64 - 8 * w)), r);
    }
    // (2) exhaustive small containers
    {
        const uint8_t al[3] = {0x00, 0x01, 0xff};
        DT tv, ts, tvv, tm;
        dt_of("V(u8)", tv); dt_of("str", ts); dt_of("V(V(u8))", tvv); dt_of("M(u8,u8)", tm);
        all_seqs(3, 3, [&](const std::vector<size_t> &s) {
            DV v, sv;
            for (size_t i : s) { v.kids.push_back(DV::scalar(al[i])); sv.bytes.push_back((char)(i == 1 ? 0x41 : al[i])); }
            emit_rt('a', "V(u8)", tv, v, "-");
            emit_rt('s', "V(u8)", tv, v, "ff");
            emit_ts("V(u8)", tv, v, r);
            emit_rt('a', "str", ts, sv, s.size() % 2 ? "-" : "00");
            emit_rt('a', "buf", ts, sv, s.size() % 2 ? "00" : "-");
        });
        // V(V(u8)): outer length <= 2, inner vectors over {00,ff} of length <= 2
        std::vector<DV> inner;
        all_seqs(2, 2, [&](const std::vector<size_t> &s) {
            DV v;
            for (size_t i : s) v.kids.push_back(DV::scalar(i ? 0xff : 0x00));
            inner.push_back(v);
        });
        all_seqs(inner.size(), 2, [&](const std::vector<size_t> &s) {
            DV v;
            for (size_t i : s) v.kids.push_back(inner[i]);
            emit_rt('a', "V(V(u8))", tvv, v, "-");
            emit_rt('s', "V(V(u8))", tvv, v, "-");
            emit_ts("V(V(u8))", tvv, v, r);
        });
        // M(u8,u8): every subset of keys {00,01,ff}, values over {00,ff}
        for (int mask = 0; mask < 8; mask++)
            for (int vals = 0; vals < 8; vals++)
            {
                DV m;
                bool skip = false;
                for (int k = 0; k < 3; k++)
                {
                    if (!(mask >> k & 1)) { if (vals >> k & 1) skip = true; continue; }
                    DV e;
                    e.kids.push_back(DV::scalar(al[k]));
                    e.kids.push_back(DV::scalar((vals >> k & 1) ? 0xff : 0x00));
                    m.kids.push_back(e);
                }
                if (!skip) emit_rt('a', "M(u8,u8)", tm, m, "-");
            }
    }
    // (2b) maps over float and vector keys: every subset of a small key set, inserted in two orders
    {
        DT tf, tv, td;
        dt_of("M(f32,u8)", tf); dt_of("M(V(u8),u8)", tv); dt_of("M(f64,str)", td);
        const uint32_t fk[7] = {0xff800000u, 0xbf800000u, 0x80000000u, 0x00000000u, 0x00000001u, 0x3f800000u, 0x7f800000u};
        const uint64_t dk[5] = {0xfff0000000000000ull, 0x8000000000000000ull, 0, 0x3ff0000000000000ull, 0x7ff0000000000000ull};
        for (int mask = 0; mask < 128; mask++)
            for (int rev = 0; rev < 2; rev++)
            {
                std::vector<DV> es;
                for (int k = 0; k < 7; k++)
                    if (mask >> k & 1) { DV e; e.kids.push_back(DV::scalar(fk[k])); e.kids.push_back(DV::scalar(k + 1)); es.push_back(e); }
                if (rev) std::reverse(es.begin(), es.end()); // -0.0 / +0.0: whichever comes first stays
                if (rev && !(mask >> 2 & 1 && mask >> 3 & 1)) continue;
                emit_rt('a', "M(f32,u8)", tf, mk_map(tf, es), "-");
            }
        for (int mask = 0; mask < 32; mask++)
        {
            std::vector<DV> es;
            for (int k = 0; k < 5; k++)
                if (mask >> k & 1) { DV e; e.kids.push_back(DV::scalar(dk[k])); e.kids.push_back(DV::str(std::string(k % 3, 'a'))); es.push_back(e); }
            emit_rt('a', "M(f64,str)", td, mk_map(td, es), mask % 2 ? "-" : "ff");
        }
        std::vector<DV> vk;
        all_seqs(3, 2, [&](const std::vector<size_t> &sq) {
            DV v;
            const uint8_t al[3] = {0x00, 0x01, 0xff};
            for (size_t i : sq) v.kids.push_back(DV::scalar(al[i]));
            vk.push_back(v);
        });
        for (int i = 0; i < (th ? 4000 : 150); i++)
        {
            std::vector<DV> es;
            uint64_t mask = r.next();
            for (size_t k = 0; k < vk.size(); k++)
                if (mask >> k & 1) { DV e; e.kids.push_back(vk[k]); e.kids.push_back(DV::scalar(r.below(256))); es.push_back(e); }
            for (size_t k = 0; k < es.size(); k++) std::swap(es[k], es[r.below(es.size())]);
            emit_rt('a', "M(V(u8),u8)", tv, mk_map(tv, es), "-");
        }
    }
    // (3) random values of every type of both families
    int reps = th ? 300 : 14, greps = th ? 60 : 5; // greps: the mechanically generated grid types
    size_t ha_n = stack_a().n_hand(), hs_n = stack_s().n_hand();
    for (size_t di = 0; di < fa.size(); di++)
    {
        const std::string &d = fa[di];
        DT t;
        dt_of(d, t);
        if (t.k == DT::SC) continue;
        for (int i = 0; i < (di < ha_n ? reps : greps); i++)
        {
            size_t cap = i % 7 == 6 ? 300 : i % 3 == 0 ? 3 : 12;
            emit_rt('a', d, t, gen_val(t, r, cap), gen_rest(r));
            if (i % 3 == 0) emit_tb(d, t, gen_val(t, r, i % 2 ? 3 : 6), r);
        }
    }
    // scalars, strings and buffers through the bounded archive reader at every truncation point
    for (const char *d : {"u8", "i16", "u32", "i64", "f32", "f64", "str", "buf"})
    {
        DT t;
        dt_of(d, t);
        for (int i = 0; i < (th ? 60 : 6); i++) emit_tb(d, t, gen_val(t, r, i % 2 ? 3 : 40), r);
    }
    for (size_t di = 0; di < fs.size(); di++)
    {
        const std::string &d = fs[di];
        DT t;
        dt_of(d, t);
        if (t.k == DT::SC && !t.alias) continue;
        for (int i = 0; i < (di < hs_n ? reps : greps); i++)
        {
            size_t cap = i % 7 == 6 ? 300 : i % 3 == 0 ? 3 : 12;
            DV v = gen_val(t, r, cap);
            emit_rt('s', d, t, v, gen_rest(r));
            if (i % 2 == 0) emit_ts(d, t, gen_val(t, r, i % 4 == 0 ? 3 : 8), r);
        }
    }
    // (4) several values through one writer / one reader
    for (int i = 0; i < (th ? 1200 : 50); i++)
    {
        bool a = i % 2 == 0;
        auto &fam = a ? fa : fs;
        int n = (int)r.range(2, 4);
        std::string line = std::string(a ? "seqa " : "seqs ") + gen_rest(r);
        for (int k = 0; k < n; k++)
        {
            const std::string &d = fam[r.below(fam.size())];
            if (d == "buf") { k--; continue; }
            DT t;
            dt_of(d, t);
            line += " " + d + " " + show(t, a ? canon_a(d, t, gen_val(t, r, 4)) : gen_val(t, r, 4));
        }
        puts(line.c_str());
    }
    // (5) size boundaries: 16-bit length limits and count*sizeof(T) around 65536
    {
        DT ts;
        dt_of("str", ts);
        for (size_t n : {(size_t)254, (size_t)255, (size_t)256, (size_t)257, (size_t)32767, (size_t)32768, (size_t)65534, (size_t)65535})
        {
            emit_rt('a', "str", ts, DV::str(gen_bytes(r, n)), gen_rest(r));
            if (n >= 65534 || n == 256) emit_rt('a', "buf", ts, DV::str(gen_bytes(r, n)), gen_rest(r));
        }
        struct { const char *d; int sc; std::vector<size_t> ns; } big[] = {
            {"V(u8)", 0, {255, 256, 65534, 65535}},
            {"V(i16)", 3, {32767, 32768, 32769}},
            {"V(i32)", 5, {16383, 16384, 16385, 65535}},
            {"V(u64)", 6, {8191, 8192, 8193}},
            {"V(f32)", 8, {16384}},
            {"V(f64)", 9, {8192, 65535}},
        };
        for (auto &b : big)
            for (size_t n : b.ns)
            {
                DT t;
                dt_of(b.d, t);
                if (!th && n == 65535 && b.sc != 0 && b.sc != 5) continue;
                emit_rt('a', b.d, t, vec_of(b.sc, n, r, n % 2), gen_rest(r));
            }
        struct { const char *d; int sc; std::vector<size_t> ns; } bigs[] = {
            {"V(u8)", 0, {255, 256, 65535}}, {"V(u16)", 2, {32768}}, {"V(i32)", 5, {16384, 65535}}, {"V(u64)", 6, {8192}}, {"V(f64)", 9, {8193}},
        };
        for (auto &b : bigs)
            for (size_t n : b.ns)
            {
                DT t;
                dt_of(b.d, t);
                if (!th && n == 65535 && b.sc != 0) continue;
                DV v = vec_of(b.sc, n, r, n % 2);
                emit_rt('s', b.d, t, v, gen_rest(r));
                if (n <= 32768) emit_ts(b.d, t, v, r);
            }
        // vectors of objects whose in-memory image is larger than / padded differently from the wire form
        for (const char *d : {"V(S(u8,i32,i16))", "V(P(i8,i32))", "V(str)", "V(V(u8))", "V(T(u8,str))", "V(M(u8,u8))"})
        {
            DT t;
            dt_of(d, t);
            for (size_t n : {(size_t)1, (size_t)2, (size_t)256, (size_t)2048, (size_t)5462, (size_t)8192})
            {
                if (!th && n > 2048 && t.kids[0].k != DT::STRUCT && t.kids[0].k != DT::PAIR) continue;
                DV v;
                for (size_t i = 0; i < n; i++) v.kids.push_back(gen_val(t.kids[0], r, n > 256 ? 1 : 3));
                emit_rt('a', d, t, v, gen_rest(r));
                if (n <= 256 && stack_s().has(d)) { emit_rt('s', d, t, v, gen_rest(r)); emit_ts(d, t, v, r); }
            }
        }
        // big maps
        for (const char *d : {"M(u8,u8)", "M(u16,V(u8))", "M(i32,str)", "M(str,i32)"})
        {
            DT t;
            dt_of(d, t);
            for (size_t n : {(size_t)255, (size_t)256, (size_t)300, (size_t)(th ? 700 : 400)})
            {
                DV v;
                std::vector<DV> es;
                for (size_t i = 0; i < n; i++)
                {
                    DV e;
                    DV k = t.kids[0].k == DT::SC ? DV::scalar(t.kids[0].sc == 0 ? i : t.kids[0].sc == 2 ? i * 31 : (uint32_t)(i * 2654435761u))
                                                 : DV::str(std::to_string(i * 7919) + std::string(i % 3, '\0'));
                    e.kids.push_back(k);
                    e.kids.push_back(gen_val(t.kids[1], r, 2));
                    es.push_back(e);
                }
                std::stable_sort(es.begin(), es.end(), [&](const DV &a, const DV &b) { return dv_less(t.kids[0], a.kids[0], b.kids[0]); });
                for (auto &e : es)
                    if (v.kids.empty() || dv_less(t.kids[0], v.kids.back().kids[0], e.kids[0])) v.kids.push_back(e);
                if (t.kids[0].sc == 0 && t.kids[0].k == DT::SC && n > 256) continue;
                emit_rt('a', d, t, v, gen_rest(r));
            }
        }
    }
    // (6) recorded-style byte strings through the readers: maps whose wire order
    //     is not the key order / has repeated keys (std::map::insert semantics),
    //     and arbitrary small inputs to the bounded reader
    for (int i = 0; i < (th ? 800 : 40); i++)
    {
        const char *ds[] = {"M(u8,u8)", "M(i8,u8)", "M(str,i32)", "M(P(u8,i8),str)", "M(i32,str)", "M(V(u8),u8)", "M(f32,u8)", "M(f64,str)",
                            "M(T(u8,str),u16)", "M(V(f32),u8)", "M(S(i16,str),u8)", "M(M(u8,u8),u8)", "M(V(str),V(u8))", "M(P(f64,u8),u8)"};
        const char *d = ds[i < 28 ? i % 14 : r.below(14)];
        DT t;
        dt_of(d, t);
        DV v = gen_val(t, r, 8);
        std::vector<DV> es = v.kids;
        for (size_t k = 0; k < es.size(); k++) std::swap(es[k], es[r.below(es.size())]);
        if (!es.empty() && r.chance(50))
        {
            DV dup = es[r.below(es.size())];
            dup.kids[1] = gen_val(t.kids[1], r, 3);
            // an EQUIVALENT key need not be the same bits: -0.0 for +0.0
            if (t.kids[0].k == DT::SC && sc_float(t.kids[0].sc) && (dup.kids[0].bits << (t.kids[0].sc == 8 ? 33 : 1)) == 0)
                dup.kids[0].bits ^= t.kids[0].sc == 8 ? 0x80000000ull : 0x8000000000000000ull;
            es.insert(es.begin() + r.below(es.size() + 1), dup);
        }
        bytes e;
        ref_le(es.size(), 2, e);
        for (auto &x : es) { ref_enc(t.kids[0], x.kids[0], e); ref_enc(t.kids[1], x.kids[1], e); }
        printf("da %s %s\n", d, hex(e).c_str());
    }
    for (int i = 0; i < (th ? 2000 : 80); i++)
    {
        const std::string &d = fs[r.below(fs.size())];
        if (d.find("b8") != std::string::npos) { i--; continue; } // arbitrary bytes are not valid object representations of bool
        size_t n = r.below(25);
        bytes b(n);
        for (auto &x : b) x = r.chance(85) ? (uint8_t)r.below(3) : r.chance(70) ? (uint8_t)r.below(16) : (uint8_t)r.next();
        if (n >= 2 && r.chance(90)) b[1] = (uint8_t)r.below(2); // keep the outer count moderate
        printf("ds %s %s\n", d.c_str(), hex(b).c_str());
    }
    // arbitrary short inputs to the bounded archive reader (maps with floating-point keys left out: arbitrary
    // bytes may be NaN keys, which std::map does not order)
    for (int i = 0; i < (th ? 3000 : 120); i++)
    {
        const std::string &d = fa[r.below(fa.size())];
        if (d.find("M(") != std::string::npos && (d.find("f32") != std::string::npos || d.find("f64") != std::string::npos)) { i--; continue; }
        size_t n = r.below(25);
        bytes b(n);
        for (auto &x : b) x = r.chance(85) ? (uint8_t)r.below(3) : r.chance(70) ? (uint8_t)r.below(16) : (uint8_t)r.next();
        if (n >= 2 && r.chance(90)) b[1] = (uint8_t)r.below(2); // keep the outer count moderate
        printf("da %s %s\n", d.c_str(), b.empty() ? "-" : hex(b).c_str());
    }
    // (7) extension: the remaining entry points
    puts("sizes2");
    {
        // capped buffer loads: payload length x destination capacity around each other and around 255/256/65535
        const char *follow[] = {"u8", "u16", "str", "V(u8)", "P(u8,i32)", "M(u8,u8)"};
        const char kinds[3] = {'c', 'w', 'v'};
        std::vector<std::pair<size_t, size_t>> lc; // (len, cap)
        for (size_t len : {0, 1, 2, 3, 5})
            for (size_t cap : {0, 1, 2, 3, 4, 6}) lc.push_back({len, cap});
        for (size_t x : {255, 256, 257}) { lc.push_back({x, x}); lc.push_back({x, x - 1}); lc.push_back({x - 1, x}); lc.push_back({x, 1}); }
        lc.push_back({65535, 65535}); lc.push_back({65535, 65534}); lc.push_back({65535, 0}); lc.push_back({300, 70000}); lc.push_back({65535, 65536});
        for (int i = 0; i < (th ? 300 : 40); i++) lc.push_back({r.below(40), r.below(40)});
        size_t idx = 0;
        for (auto &p : lc)
            for (char kind : kinds)
            {
                if (p.first > 300 && !th && kind == 'v') continue;
                const char *d = follow[(idx++) % 6];
                DT t;
                dt_of(d, t);
                printf("cap %c %zu %s %s %s %s\n", kind, p.second, hex(gen_bytes(r, p.first)).c_str(), d, show(t, gen_val(t, r, 3)).c_str(), gen_rest(r).c_str());
            }
        // capped load + following value on a truncated input (the reader clamps the read AND the skip)
        for (int i = 0; i < (th ? 1500 : 120); i++)
        {
            const char *d = follow[i % 6];
            DT t;
            dt_of(d, t);
            size_t len = i % 5 == 0 ? r.below(300) : r.below(9), cap = r.below(3) ? r.below(len + 2) : r.below(8);
            DV v = gen_val(t, r, 3);
            bytes e;
            ref_enc(t, v, e);
            size_t total = 2 + len + e.size();
            printf("capt %zu %s %s %s %zu\n", cap, hex(gen_bytes(r, len)).c_str(), d, show(t, v).c_str(), i % 7 == 0 ? total : r.below(total + 1));
        }
        // binary_buffer_writer
        for (const char *d : {"u8", "i16", "u32", "i64", "f32", "f64", "str", "V(u8)", "V(str)", "V(V(u8))", "V(i32)"})
        {
            DT t;
            dt_of(d, t);
            for (int i = 0; i < (th ? 40 : 4); i++) printf("bw %s %s\n", d, show(t, gen_val(t, r, i % 2 ? 300 : 4)).c_str());
        }
        // archive::data<T>(xs, N)
        for (auto &key : a_data_keys())
        {
            size_t colon = key.find(':');
            DT t;
            dt_of("V(" + key.substr(0, colon) + ")", t);
            size_t N = strtoull(key.c_str() + colon + 1, 0, 10);
            if (!th && N > 60000 && N != 65536 && N != 65535) continue;
            for (int i = 0; i < (N > 100 ? 1 : th ? 30 : 4); i++)
                printf("dat %s %s %s\n", key.c_str(), show(t, vec_of(t.kids[0].sc, N, r, N > 100 || i % 2)).c_str(), gen_rest(r).c_str());
        }
        // beyond the 16-bit count
        {
            DT ts, tv8, tv16, tv32;
            dt_of("str", ts); dt_of("V(u8)", tv8); dt_of("V(u16)", tv16); dt_of("V(i32)", tv32);
            for (size_t n : {(size_t)65535, (size_t)65536, (size_t)65537, (size_t)65791, (size_t)131072})
            {
                if (!th && n > 65791) continue;
                printf("wa str %s %s\n", show(ts, DV::str(gen_bytes(r, n))).c_str(), gen_rest(r).c_str());
                printf("wa V(u8) %s %s\n", show(tv8, vec_of(0, n, r, true)).c_str(), gen_rest(r).c_str());
                printf("ws V(u8) %s %s\n", show(tv8, vec_of(0, n, r, false)).c_str(), gen_rest(r).c_str());
                if (n == 65536 || th) printf("wa V(i32) %s %s\n", show(tv32, vec_of(5, n, r, true)).c_str(), gen_rest(r).c_str());
                if (n == 65537 || th) printf("ws V(u16) %s %s\n", show(tv16, vec_of(2, n, r, true)).c_str(), gen_rest(r).c_str());
            }
        }
        // storage dumps/loads
        for (int i = 0; i < (th ? 400 : 40); i++)
        {
            static const size_t sz[] = {0, 1, 2, 3, 5, 8, 30};
            std::string ns;
            int k = (int)r.range(1, 4);
            for (int j = 0; j < k; j++) ns += (j ? "," : "") + std::to_string(sz[r.below(7)]);
            printf("sl %s %s\n", hex(gen_bytes(r, r.below(20))).c_str(), ns.c_str());
        }
    }
    // round 3b: binary_buffer_writer into exactly fitting / one-byte-short / too small / larger caller buffers, every
    // hand-written archive type; every capacity 0..L+1 for short encodings
    {
        size_t hn = stack_a().n_hand();
        for (size_t di = 0; di < hn; di++)
        {
            const std::string &d = fa[di];
            DT t;
            dt_of(d, t);
            long probe = 0;
            if (!a_bufwrite(d, DV(), nullptr, 0, probe)) continue;
            for (int i = 0; i < (th ? 10 : 1); i++)
            {
                DV v = gen_val(t, r, i % 4 == 3 ? 300 : 4);
                bytes e;
                ref_enc(t, v, e);
                size_t L = e.size();
                std::string sv = show(t, v);
                std::vector<size_t> caps = {L, L + 1, L + 1 + r.below(40)};
                if (L) { caps.push_back(L - 1); caps.push_back(r.below(L)); }
                if (L <= (th ? 64u : 20u) && (th || di % 4 == 0))
                    for (size_t c = 0; c <= L + 1; c++) caps.push_back(c);
                else if (i % 2 == 0) caps.push_back(0);
                for (size_t c : caps) printf("bwc %s %s %zu\n", d.c_str(), sv.c_str(), c);
            }
        }
        // one dump_data call that straddles the end (65535-byte string), an encoding of 320 KiB
        DT ts, tv;
        dt_of("str", ts); dt_of("V(u64)", tv);
        DV big = DV::str(gen_bytes(r, 65535));
        for (size_t c : {(size_t)65537, (size_t)65536, (size_t)2, (size_t)1, (size_t)40000})
            if (th || c == 65536 || c == 2) printf("bwc str %s %zu\n", show(ts, big).c_str(), c);
        DV bv = vec_of(6, 40000, r, false);
        for (size_t c : {(size_t)320002, (size_t)320001, (size_t)65536})
            if (th || c == 320001) printf("bwc V(u64) %s %zu\n", show(tv, bv).c_str(), c); // quick: the one-byte-short buffer only
    }
    // (9) round 3
    puts("consts");
    for (size_t i = 0; i < sizeof PM_OPS / sizeof *PM_OPS; i++) printf("pm %zu %s\n", i, PM_OPS[i]);
    // decode INTO an object that already holds a value (blank / non-empty), full and truncated inputs
    {
        const char *da[] = {"V(u8)", "V(str)", "V(V(u8))", "M(u8,u8)", "M(str,i32)", "P(V(u8),M(u8,u8))", "T(V(str),u8,V(u8))", "S(V(u8),i16,M(u8,u8))",
                            "S(V(u8),u16,V(u16))", "V(S(V(u8),i16,M(u8,u8)))", "M(u8,S(V(u8),u16,V(u16)))", "S(u8,u8,u32)", "V(S(u8,u8,u32))", "str", "u32",
                            "S(u16,V(u32),S(u8,i32,i16),f64)", "M(u16,V(u8))", "V(M(u8,u8))", "V(u32)"};
        const char *ds[] = {"V(u8)", "V(V(u8))", "S(V(u8),u16,V(u16))", "V(S(V(u8),u16,V(u16)))", "S(u8,u8,u32)", "V(S(u8,u8,u32))", "V(V(S(u8,u8,u32)))", "u32",
                            "S(u16,V(u32),S(u8,i32,i16),f64)", "V(V(V(u16)))", "V(u32)"};
        for (int st = 0; st < 2; st++)
            for (size_t di = 0; di < (st ? sizeof ds / sizeof *ds : sizeof da / sizeof *da); di++)
            {
                const char *d = st ? ds[di] : da[di];
                DT t;
                dt_of(d, t);
                for (int i = 0; i < (th ? 80 : 6); i++)
                {
                    DV dest = i % 3 == 0 ? gen_val(t, r, 0) : gen_val(t, r, 4);
                    DV v = gen_val(t, r, i % 2 ? 3 : 8);
                    if (!st) v = canon_a(d, t, v);
                    bytes e;
                    ref_enc(t, v, e);
                    std::string k = i % 4 == 3 ? std::to_string(r.below(e.size() + 1)) : "-";
                    printf("i%c %s %s %s %s %s\n", st ? 's' : 'a', d, show(t, dest).c_str(), show(t, v).c_str(), k == "-" ? gen_rest(r).c_str() : "-", k.c_str());
                }
            }
    }
    // ONE reader over a truncated sequence: used again after it has hit the end
    for (int i = 0; i < (th ? 800 : 50); i++)
    {
        bool a = i % 2 == 0;
        auto &fam = a ? fa : fs;
        int n = (int)r.range(2, 4);
        std::string items;
        bytes e;
        for (int k = 0; k < n; k++)
        {
            const std::string &d = fam[r.below(fam.size())];
            if (d == "buf" || d.find("b8") != std::string::npos) { k--; continue; }
            if (a && d.find("M(") != std::string::npos && (d.find("f32") != std::string::npos || d.find("f64") != std::string::npos)) { k--; continue; }
            DT t;
            dt_of(d, t);
            DV v = a ? canon_a(d, t, gen_val(t, r, 4)) : gen_val(t, r, 4);
            ref_enc(t, v, e);
            items += " " + d + " " + show(t, v);
        }
        printf("%s %zu%s\n", a ? "tseqa" : "tseqs", (size_t)r.below(e.size() + 1), items.c_str());
    }
    // inputs of 300 KiB and more (the routines are linear)
    {
        DT tv, ts;
        dt_of("V(u64)", tv); dt_of("V(str)", ts);
        emit_rt('a', "V(u64)", tv, vec_of(6, 40000, r, false), gen_rest(r));
        emit_rt('s', "V(u64)", tv, vec_of(6, 40000, r, true), gen_rest(r));
        DV v;
        for (size_t n : {(size_t)65535, (size_t)65534, (size_t)65535, (size_t)65000, (size_t)65535}) v.kids.push_back(DV::str(gen_bytes(r, n)));
        emit_rt('a', "V(str)", ts, v, gen_rest(r));
        DT t32;
        dt_of("V(u32)", t32);
        emit_rt('a', "V(u32)", t32, vec_of(4, 20000, r, false), gen_rest(r)); // 80 000 payload bytes, 20 000 elements
        emit_rt('s', "V(u32)", t32, vec_of(4, 20000, r, true), gen_rest(r));
    }
    // hostile inputs: counts far larger than the remaining input, nested
    {
        const char *ha[][2] = {{"V(u8)", "ffff"}, {"V(V(u8))", "ffffffff"}, {"V(V(V(u16)))", "ffffffffffff"}, {"str", "ffff"}, {"V(str)", "ffffffff"},
                               {"M(u8,u8)", "ffff"}, {"M(u8,u8)", "ffff0102030405"}, {"V(M(u8,u8))", "ffffffff"}, {"V(u32)", "05000102030405"},
                               {"V(V(u8))", "ffffffff0102030405060708"}, {"M(str,i32)", "ffffffff"}, {"V(S(u8,i32,i16))", "ff7f"}, {"buf", "ffff0102"},
                               {"V(P(i8,i32))", "ffff01"}, {"M(u16,V(u8))", "ffff0100ffff"}};
        for (auto &h : ha) printf("da %s %s\n", h[0], h[1]);
        const char *hs[][2] = {{"V(u8)", "ffff"}, {"V(V(u8))", "ffffffff"}, {"V(V(V(u16)))", "ffffffffffff"}, {"V(S(u8,u8,u32))", "ff3f"},
                               {"V(u32)", "05000102030405"}, {"V(V(u8))", "ffffffff0102030405060708"}, {"V(S(V(u8),u16,V(u16)))", "ff1fffff"}, {"V(u64)", "ff"}};
        for (auto &h : hs) printf("ds %s %s\n", h[0], h[1]);
        for (int i = 0; i < (th ? 300 : 20); i++)
        {
            bool a = i % 2 == 0;
            const char *ta[] = {"V(u8)", "V(V(u8))", "V(str)", "V(i16)", "M(u8,u8)", "V(P(i8,i32))", "T(V(str),u8,V(u8))"};
            const char *tsx[] = {"V(u8)", "V(V(u8))", "V(u16)", "V(S(u8,u8,u32))", "V(V(V(u16)))", "S(V(u8),u16,V(u16))"};
            const char *d = a ? ta[r.below(7)] : tsx[r.below(6)];
            size_t n = 2 + r.below(10);
            bytes b(n);
            for (auto &x : b) x = r.chance(50) ? 0xff : r.chance(50) ? (uint8_t)r.below(4) : (uint8_t)r.next();
            b[1] = r.chance(70) ? (uint8_t)r.below(64) : (a ? 0xff : 0x7f); // outer count up to 65535 (archive) / 32767 (serializer stack), mostly <= 16383
            printf("d%c %s %s\n", a ? 'a' : 's', d, hex(b).c_str());
        }
    }
    // probes of the recorded finding C09-count-wraps-at-65536: the ROUND-TRIP oracle on containers of 65536 elements
    {
        DT tv8, tm;
        dt_of("V(u8)", tv8); dt_of("M(u16,V(u8))", tm);
        std::string big = show(tv8, vec_of(0, 65536, r, true));
        printf("@F:C09-count-wraps-at-65536 a V(u8) %s 05\n", big.c_str());
        printf("@F:C09-count-wraps-at-65536 s V(u8) %s 05\n", big.c_str());
        printf("@F:C09-count-wraps-at-65536 seqa - V(u8) %s u8 05\n", big.c_str());
        if (th)
        {
            DV m;
            for (size_t i = 0; i < 65536; i++) { DV e; e.kids.push_back(DV::scalar(i)); e.kids.push_back(DV()); m.kids.push_back(e); }
            printf("@F:C09-count-wraps-at-65536 a M(u16,V(u8)) %s -\n", show(tm, m).c_str());
        }
    }
    // (8) probes of the recorded finding C09-archive-reader-unbounded: the archive reader on a truncated encoding
    {
        struct { const char *d; const char *v; int k; } pr[] = {
            {"u32", "01020304", 2}, {"str", "\"616263\"", 4}, {"V(i16)", "[0001,0002]", 5}, {"M(u8,str)", "{01:\"41\"}", 3},
            {"u8", "07", 0}, {"P(u8,i32)", "(01,00000002)", 1}, {"V(str)", "[\"41\",\"4242\"]", 6}, {"S(u8,i32,i16)", "(01,00000002,0003)", 6},
        };
        for (int i = 0; i < (th ? 8 : 4); i++) printf("@F:C09-archive-reader-unbounded ta %s %s %d\n", pr[i].d, pr[i].v, pr[i].k);
    }
}

int main(int argc, char **argv) { return main_(argc, argv, gen, run_op); }
