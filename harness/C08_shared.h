// C08: tables shared by the two translation units of the harness (C08.cpp = run side, C08_gen.cpp = generator)
#pragma once
static const char *const CT_NAMES[13] = {"isalnum", "isalpha", "isblank", "isdigit", "islower", "isprint", "isspace", "isupper", "isxdigit", "tolower", "toupper", "isascii", "toascii"};
// op lines executed BEFORE main() by a constructor of C08.cpp; the generator emits `premain <k> <line>`
static const char *const PREMAIN_LINES[] = {
    "strtok A=0:612c623b3b632c6400 B=0:2c00 C=0:3b00 A+0,B+0 N,C+0 N,B+0 N,B+0 N,B+0",
    "memmove A=0:000102030405060708090a0b0c0d0e0f101112131415161718191a1b1c1d1e1f202122232425262728292a2b2c2d2e2f A+8 A+0 #40",
    "cttab tolower libc",
    "strcasecmp A=0:41625a7a00 B=0:61427a5a00 A+0 B+0",
};
static const int PREMAIN_N = sizeof PREMAIN_LINES / sizeof PREMAIN_LINES[0];
