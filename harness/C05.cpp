// C05 harness: gstuff receivers on arbitrary byte streams (memory safety,
// soundness, resynchronisation) against the Lean model IgrisModel/C04+C05.
#include "gstuff/common.h"
#include "gstuff/sess.h"

// Soundness oracle: at every NEWPACKAGE the delivered bytes must be the
// unescaped bytes since the last start marker, minus a trailing matching CRC-8.
//   strict  : a start marker must exist and open the frame
//   lenient (legacy receiver only, recorded finding C05-legacy-no-hunt):
//             the frame may also begin at the stream start or right after a
//             byte on which the receiver reported OVERFLOW / DATA_ERROR
static void sound_oracle(const std::string &codec, const bytes &s, const trace &t, bool strict, out &o)
{
    alphabet a = alpha_by(codec);
    size_t pk = 0;
    for (size_t i = 0; i < t.sts.size(); i++)
    {
        if (t.sts[i] != 'N') continue;
        const bytes &got = t.packets[pk++];
        if (s[i] != a.stop) { o.fail("NEWPACKAGE on a byte that is not the stop marker"); return; }
        // last start marker strictly before i
        long j = (long)i - 1;
        while (j >= 0 && s[j] != a.start) j--;
        long begin = j; // frame body = s[begin+1 .. i-1]
        if (!strict)
        {
            long k = (long)i - 1;
            while (k >= 0 && t.sts[k] != 'O' && t.sts[k] != 'S') k--;
            if (k > begin) begin = k;
        }
        else if (j < 0) { o.fail("packet delivered although no start marker precedes it"); return; }
        bytes body(s.begin() + (begin + 1), s.begin() + i), un;
        if (!ref_unescape(a, body, un)) { o.fail("packet delivered from a frame with an invalid escape (bytes since the last start marker do not unescape)"); return; }
        bytes want = got;
        want.push_back(ref_crc8(got));
        if (un != want) { o.fail("delivered bytes != unescaped bytes since the last start marker minus CRC"); return; }
    }
}

static void run_op(const std::vector<std::string> &w, const std::string &, out &o)
{
    const std::string &op = w[0];
    if (op == "reset") { o.result = "ok"; return; }
    if (op == "seq") return run_seq(w, o);
    if (op == "sizes") return run_sizes(o);
    if (op == "premain") { run_premain(o); return; }
    if (op == "longnoise") return run_longnoise(w, o);
    if (op == "ctx")
    {
        alphabet a = alpha_of(gstuff_context()), b = alpha_of(gstuff_context_v0());
        uint8_t k[4];
        leg_constants(k);
        o.result = hex((uint8_t *)&a, 6) + " " + hex((uint8_t *)&b, 6) + " " + hex(k, 4);
        return;
    }
    const std::string &codec = w[1];
    if (op == "feednb")
    {
        // the public constructor gstuff_autorecv(ctx) WITHOUT setbuf: sline {buf = NULL, cap = 0}
        bytes s = unhex(w[2]);
        gstuff_context ctx;
        if (!codec_ctx(codec, ctx)) { o.result = "bad-op"; return; }
        gstuff_autorecv r(ctx);
        trace t;
        size_t maxsize = 0;
        for (uint8_t b : s)
        {
            int st = r.newchar((char)b);
            t.sts.push_back(sts_char(st));
            if (r.size() > maxsize) maxsize = r.size();
            if (st == GSTUFF_NEWPACKAGE) o.fail("packet delivered by a receiver that has no buffer");
        }
        o.result = t.show();
        if (maxsize > 0) o.fail("receiver without a buffer stored bytes");
        // round 3b: cstr() on the receiver that never got a buffer (sline {NULL, 0}): must store nothing (a
        // store would go through NULL: crash) and size() stays 0 - theorem cstr_nobuf_any_time
        (void)r.cstr();
        if (r.size() != 0) o.fail("receiver without a buffer: size() != 0 after cstr()");
        o.tag("no-buffer");
        if (t.sts.find('O') != std::string::npos) o.tag("overflow");
        return;
    }
    unsigned cap = (unsigned)strtoul(w[2].c_str(), 0, 10);
    alphabet a = alpha_by(codec);
    if (op == "feed" || op == "feedstrict")
    {
        bytes s = unhex(w[3]);
        size_t maxsize = 0;
        trace t = feed_stream(codec, cap, s, &maxsize);
        o.result = t.show();
        // capacity-1 bytes at most (capacity 0: nothing; no unsigned wrap in the oracle)
        if (maxsize + 1 > (size_t)cap && maxsize > 0) o.fail("receiver stored more than capacity-1 bytes");
        for (auto &p : t.packets)
            if (p.size() + 2 > (size_t)cap) o.fail("delivered packet longer than the buffer allows");
        if (cap < 2) o.tag("tiny-capacity");
        // since `fix: legacy receiver hunts for the start marker` the legacy receiver is judged
        // by the same strict oracle as the configurable one
        sound_oracle(codec, s, t, true, o);
        if (t.sts.find('N') != std::string::npos) o.tag("packet");
        if (t.sts.find('O') != std::string::npos) o.tag("overflow");
        if (t.sts.find('c') != std::string::npos) o.tag("crc-error");
        if (t.sts.find('S') != std::string::npos) o.tag("stuffing-error");
        if (t.sts.find('R') != std::string::npos) o.tag("restart");
        return;
    }
    if (op == "resync")
    {
        bytes s = unhex(w[3]);
        size_t glen = s.size();
        std::vector<bytes> ps, expect;
        bool prev_over = false;
        for (size_t i = 4; i < w.size(); i++)
        {
            bytes p = unhex(w[i]);
            ps.push_back(p);
            bytes f = enc_pieces(codec, {p}, 2 * p.size() + 4);
            s.insert(s.end(), f.begin(), f.end());
        }
        trace t = feed_stream(codec, cap, s);
        o.result = t.show();
        sound_oracle(codec, s, t, true, o);
        // OVERFLOW CLAUSE "... rather than delivered": whatever is delivered after the garbage prefix
        // (and, when start == stop, after the first frame's opening marker, which may complete a packet
        // begun inside the garbage) must be one of the payloads that were sent and fit, in the order sent;
        // in particular no part of an over-long frame may come out as a packet
        {
            size_t from = glen + ((a.start == a.stop && glen > 0) ? 1 : 0), pk = 0, next = 0;
            for (size_t i = 0; i < t.sts.size(); i++)
            {
                if (t.sts[i] != 'N') continue;
                const bytes &got = t.packets[pk++];
                if (i < from) continue;
                while (next < ps.size() && !(ps[next] == got && ps[next].size() + 2 <= cap)) next++;
                if (next == ps.size()) { o.fail("a packet was delivered that is none of the frames sent (part of an over-long frame?)"); break; }
                next++;
            }
        }
        // expected deliveries: every payload that fits; when start == stop the
        // frame right after the garbage prefix or after an over-long frame may be lost
        bool coincide = a.start == a.stop;
        bool any_over = false, must_report = false;
        for (size_t i = 0; i < ps.size(); i++)
        {
            bool fits = ps[i].size() + 2 <= cap;
            bool may_lose = coincide && ((i == 0 && glen > 0) || prev_over);
            if (!fits) { any_over = true; if (!may_lose) must_report = true; }
            if (fits && !may_lose) expect.push_back(ps[i]);
            prev_over = !fits;
        }
        if (any_over) o.tag("overlong-frame");
        if (must_report && t.sts.find('O') == std::string::npos) o.fail("over-long frame not reported as overflow");
        // `expect` must be a subsequence of the tail of the delivered packets,
        // and nothing but payloads that were sent may follow the garbage
        size_t di = 0, matched = 0;
        // skip packets that could stem from the garbage prefix: search backwards
        // the last |expect| .. |ps| deliveries
        std::vector<bytes> tail(t.packets.end() - std::min(t.packets.size(), ps.size()), t.packets.end());
        for (auto &d : tail)
            if (matched < expect.size() && d == expect[matched]) matched++;
        (void)di;
        if (matched != expect.size())
            o.fail("well-formed frames after the garbage prefix were not all delivered: " + std::to_string(matched) + " of " + std::to_string(expect.size()));
        if (glen) o.tag(coincide ? "resync-coincide" : "resync-distinct");
        return;
    }
    o.result = "bad-op";
}

// the generator is a separate translation unit (harness/C05gen.cpp) since round 3b: compiled in parallel
void gen(rng &r, const std::string &tier);

int main(int argc, char **argv) { return main_(argc, argv, gen, run_op); }
