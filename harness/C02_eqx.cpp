// C02 harness: comparison with element types whose == is not the equality of the object representation (both copies
// of the class) and the long single-object history (see C02/common.h)
#include "C02/common.h"
#include <igris/container/vector.h>
namespace pt
{
#include <igris/container/std_portable.h>
}
// ------------------------------------------------------------------ comparison with element types whose == is not
// the equality of the object representation (round 3): +0.0 / -0.0 and NaN, a record whose == ignores a field, a
// struct with padding bytes, a bool-like byte.  All are trivially copyable, so a bytewise "fast path" is tempting.
struct Rec
{
    int id, note;
    bool operator==(const Rec &o) const { return id == o.id; }
    bool operator!=(const Rec &o) const { return id != o.id; }
    bool operator<(const Rec &o) const { return id < o.id; }
};
struct Pad
{
    char tag; // 3 padding bytes follow
    int v;
    bool operator==(const Pad &o) const { return tag == o.tag && v == o.v; }
    bool operator!=(const Pad &o) const { return !(*this == o); }
    bool operator<(const Pad &o) const { return v < o.v; }
};
struct Flag
{
    unsigned char b; // any non-zero byte means "set"
    bool operator==(const Flag &o) const { return (b != 0) == (o.b != 0); }
    bool operator!=(const Flag &o) const { return (b != 0) != (o.b != 0); }
    bool operator<(const Flag &o) const { return (b != 0) < (o.b != 0); }
};
static_assert(std::is_trivially_copyable<Rec>::value && std::is_trivially_copyable<Pad>::value && std::is_trivially_copyable<Flag>::value, "");
template <class T> struct Decode;
template <> struct Decode<double>
{
    static double of(int c) { return c == 0 ? 0.0 : c == 1 ? -0.0 : c == 2 ? (double)NAN : (double)(c - 2); }
};
template <> struct Decode<float>
{
    static float of(int c) { return c == 0 ? 0.0f : c == 1 ? -0.0f : c == 2 ? (float)NAN : (float)(c - 2); }
};
template <> struct Decode<Rec>
{
    static Rec of(int c) { return Rec{c / 10, c % 10}; }
};
template <> struct Decode<Pad>
{
    static Pad of(int c)
    {
        Pad p;
        memset((void *)&p, 0x11 * (c % 10), sizeof p); // the padding bytes differ with c % 10
        p.tag = 'p';
        p.v = c / 10;
        return p;
    }
};
template <> struct Decode<Flag>
{
    static Flag of(int c) { return Flag{(unsigned char)c}; }
};
template <class V, class T, bool PORTABLE> struct EqMach : MachBase
{
    // `cmpx a1 a2 … | b1 b2 …` : A == B, A != B, A < B, A == A, copy(A) == A, B == A  against std::vector<T>
    void step(const std::vector<std::string> &w, out &o) override
    {
        if (w[0] != "cmpx")
        {
            o.result = "bad-op";
            o.fail("unknown op");
            return;
        }
        std::vector<T> sa, sb;
        bool second = false;
        for (size_t k = 1; k < w.size(); k++)
        {
            if (w[k] == "|") { second = true; continue; }
            (second ? sb : sa).push_back(Decode<T>::of(atoi(w[k].c_str())));
        }
        V a, b;
        for (size_t k = 0; k < sa.size(); k++)
        { // elementwise memcpy keeps the exact representation (padding bytes included)
            a.push_back(sa[k]);
            memcpy((void *)&a[k], (const void *)&sa[k], sizeof(T));
        }
        for (size_t k = 0; k < sb.size(); k++)
        {
            b.push_back(sb[k]);
            memcpy((void *)&b[k], (const void *)&sb[k], sizeof(T));
        }
        V ca(a);
        std::vector<T> sca(sa);
        std::string got, exp;
        auto bit = [](bool x) { return x ? "1" : "0"; };
        got += bit(a == b); exp += bit(sa == sb);
        got += bit(a != b); exp += bit(sa != sb);
        if constexpr (!PORTABLE)
            got += bit(a < b);
        else
            got += bit(std::lexicographical_compare(a.begin(), a.end(), b.begin(), b.end()));
        // C++17 meaning of operator< (std::lexicographical_compare with the element's <); the C++20 operator<=> of
        // std::vector<double> answers "unordered" (so: not less) as soon as a NaN is met - that difference is tagged
        exp += bit(std::lexicographical_compare(sa.begin(), sa.end(), sb.begin(), sb.end()));
        if ((sa < sb) != std::lexicographical_compare(sa.begin(), sa.end(), sb.begin(), sb.end()))
            o.tag("std20-spaceship-differs");
        got += bit(a == a); exp += bit(sa == sa);
        got += bit(ca == a); exp += bit(sca == sa);
        got += bit(b == a); exp += bit(sb == sa);
        o.result = got;
        if (got != exp)
            o.fail("comparison bits ==,!=,<,self==,copy==,reversed== are " + got + ", std::vector<T> gives " + exp);
        bool bytes_equal = sa.size() == sb.size() && (sa.empty() || memcmp((const void *)sa.data(), (const void *)sb.data(), sa.size() * sizeof(T)) == 0);
        if (bytes_equal != (sa == sb))
            o.tag("eq-differs-from-bytes");
        o.tag(sa == sb ? "cmpx-eq" : "cmpx-ne");
    }
};

MachBase *c02_mach_eqx(const std::string &var, bool pp)
{
#define EQM(T) (pp ? (MachBase *)new EqMach<pt::igris::vector<T>, T, true>() : (MachBase *)new EqMach<igris::vector<T>, T, false>())
    if (var == "dbl") return EQM(double);
    if (var == "flt") return EQM(float);
    if (var == "rec") return EQM(Rec);
    if (var == "pad") return EQM(Pad);
    if (var == "flag") return EQM(Flag);
    return nullptr;
}

// one long history on ONE object (>= 300 KiB of elements): reserve, n push_backs, every element checked, insert in
// the middle, erase of a long range, resize up and down, copy, ==; linear in n.  The Lean driver does not run the slot
// model on it (a closed form of the spec): correspondence + oracle only.
template <class V> static std::string long_history(size_t n, out &o)
{
    V v;
    std::vector<int> m;
    v.reserve(n);
    m.reserve(n);
    const int *d0 = v.data();
    for (size_t i = 0; i < n; i++)
    {
        v.push_back((int)(i * 7 + 1));
        m.push_back((int)(i * 7 + 1));
    }
    if (v.data() != d0)
        o.fail("reallocation inside the reserved capacity");
    int x = -5;
    v.insert(v.begin() + n / 2, x);
    m.insert(m.begin() + n / 2, x);
    v.erase(v.begin() + 10, v.begin() + n / 4);
    m.erase(m.begin() + 10, m.begin() + n / 4);
    v.resize(v.size() + 1000);
    m.resize(m.size() + 1000);
    v.resize(v.size() - 500);
    m.resize(m.size() - 500);
    V c(v);
    bool same = v.size() == m.size();
    long long sum = 0;
    for (size_t i = 0; same && i < m.size(); i++)
    {
        same = v[i] == m[i];
        sum += v[i];
    }
    if (!same)
        o.fail("long history differs from std::vector");
    if (!(c == v) || (c != v))
        o.fail("copy of the long vector is not equal");
    return std::to_string(v.size()) + " " + std::to_string(sum) + " " + std::to_string(v.capacity() >= v.size());
}

std::string c02_long(bool portable, size_t n, out &o)
{
    return portable ? long_history<pt::igris::vector<int, TA<int>>>(n, o) : long_history<igris::vector<int, TA<int>>>(n, o);
}
