// C10 harness, the static_object_pool<T, Capacity> instantiations (round 3b: split off harness/C10.cpp; the 16
// template instantiations compile in parallel with the rest).  Obj<SZ, AL> keeps the construction / destruction ledger.
#include "common/hv.h"
#include "C10_shared.h"
#include <set>
#include <memory>
#include <algorithm>
#include <functional>
#include <array>
#include <cstddef>
#include <igris/datastruct/pool.h>
#include <igris/container/static_object_pool.h>

using namespace hv;

std::set<const void *> sop_objs;
std::string sop_err;
long sop_ctor_runs = 0, sop_dtor_runs = 0;
const void *sop_last_ctor = nullptr, *sop_last_dtor = nullptr;
template <size_t SZ, size_t AL> struct alignas(AL) Obj
{
    unsigned char b[SZ];
    Obj()
    {
        if (!sop_objs.insert(this).second) sop_err = "constructed over a live object";
        sop_ctor_runs++;
        sop_last_ctor = this;
        for (size_t i = 0; i < SZ; i++) b[i] = pat((uintptr_t)this, i);
    }
    // a constructor that throws (op `ct`): no object comes into existence, the destructor never runs
    explicit Obj(int code) { throw code; }
    ~Obj()
    {
        if (!sop_objs.erase(this)) sop_err = "destroyed a dead object";
        else if (!intact()) sop_err = "object contents changed before its destructor ran";
        sop_dtor_runs++;
        sop_last_dtor = this;
    }
    bool intact() const
    {
        for (size_t i = 0; i < SZ; i++)
            if (b[i] != pat((uintptr_t)this, i)) return false;
        return true;
    }
};
template <size_t SZ, size_t AL, size_t CAP> struct SopImpl : SopBase
{
    typedef Obj<SZ, AL> T;
    static_assert(sizeof(T) == SZ && alignof(T) == AL, "Obj layout");
    typedef igris::static_object_pool<T, CAP> P;
    P *p;
    SopImpl() { p = new P(); } // on the heap: ASan redzones right behind `storage`
    ~SopImpl() { delete p; }
    void *create() { return p->create(); }
    int create_throw()
    {
        try
        {
            return p->create(42) ? 2 : 0;
        }
        catch (int)
        {
            return 1;
        }
    }
    void destroy(void *q) { p->destroy((T *)q); }
    size_t avail() { return p->avail(); }
    char *base() { return (char *)p->storage.data(); }
    size_t storage() { return sizeof(typename P::storage_type); }
    size_t cap() { return CAP; }
    size_t szT() { return SZ; }
    size_t alT() { return AL; }
    bool intact(void *q) { return ((T *)q)->intact(); }
    void engage(void *zone, size_t ncells) { pool_engage(p->freelist(), zone, ncells * sizeof(typename P::storage_type), sizeof(typename P::storage_type)); }
};
#define SOPK(SZ, AL, CAP) {SZ, AL, CAP, []() -> SopBase * { return new SopImpl<SZ, AL, CAP>(); }},
const std::vector<SopKind> sop_kinds = {C10_SOPK_LIST(SOPK)};
#undef SOPK
