// C10 harness: the igris allocators against the Lean model (IgrisModel/C10).
//
//   pools  igris/datastruct/pool.h, igris/container/pool.h,
//          igris/container/static_object_pool.h (header only, asserts enabled)
//   heap   compat/mem/lin_malloc.cpp + lin_realloc.cpp, linked in through
//          C10_malloc.cpp / C10_realloc.cpp as igv_malloc/igv_free/igv_realloc
//
// Result line (compared with the model): the returned offset, the counters the
// API exposes and, for the heap, the break, the free list as the code links it
// and the `sz` header of every live block.  Oracle (independent of the model):
// a shadow map of live blocks with fill patterns.
#include "common/hv.h"
#include <map>
#include <fcntl.h>
#include <sys/wait.h>
#include <climits>
#include <csignal>
#include <set>
#include <memory>
#include <algorithm>
#include <functional>
#include <array>
#include <type_traits>
#include <cstddef>
#include <igris/datastruct/pool.h>
#include <igris/container/pool.h>
#include <igris/container/static_object_pool.h>
#include <compat/mem/lin_malloc.h>
#include <bits/wordsize.h>

using namespace hv;

static_assert(sizeof(size_t) == 8 && sizeof(void *) == 8, "LP64 host assumed by the model");
static_assert(sizeof(struct __freelist) == 16, "struct __freelist layout assumed by the model");
static_assert(sizeof(struct slist_head) == 8, "slist_head layout assumed by the model");

// ---------------------------------------------------------------- heap glue
extern "C" void *igv_malloc(size_t);
extern "C" void igv_free(void *);
extern "C" void *igv_realloc(void *, size_t);
extern char *__brkval;
extern char *__malloc_heap_start;
extern char *__malloc_heap_end;
extern struct __freelist *__flp;
extern int __allocation_counter;
// the same two files compiled with NDEBUG (C10_*_rel.cpp)
extern "C" void *igr_malloc(size_t);
extern "C" void igr_free(void *);
extern "C" void *igr_realloc(void *, size_t);
extern char *__brkval_rel;
extern char *__malloc_heap_start_rel;
extern char *__malloc_heap_end_rel;
extern struct __freelist *__flp_rel;
extern int __allocation_counter_rel;

struct HeapApi
{
    void *(*malloc_)(size_t);
    void (*free_)(void *);
    void *(*realloc_)(void *, size_t);
    char **brkval, **heap_start, **heap_end;
    struct __freelist **flp;
    int *counter;
};
static HeapApi API_DBG = {igv_malloc, igv_free, igv_realloc, &__brkval, &__malloc_heap_start, &__malloc_heap_end, &__flp, &__allocation_counter};
static HeapApi API_REL = {igr_malloc, igr_free, igr_realloc, &__brkval_rel, &__malloc_heap_start_rel, &__malloc_heap_end_rel, &__flp_rel, &__allocation_counter_rel};
static HeapApi *A = &API_DBG;
#define BRK (*A->brkval)
#define FLP (*A->flp)
#define CNT (*A->counter)

static const size_t STATIC_ARENA = 1u << 20;
alignas(64) char _heap_start[STATIC_ARENA]; // the symbol lin_malloc.cpp links against

// stubs for the critical-section / system-lock symbols of the bare-metal build
static int crit_level = 0;
extern "C" int critical_context_level(void) { return crit_level; }
static int lock_depth = 0, lock_max = 0;
extern "C" void system_lock(void)
{
    lock_depth++;
    if (lock_depth > lock_max) lock_max = lock_depth;
}
extern "C" void system_unlock(void) { lock_depth--; }

static std::string s(long long v) { return std::to_string(v); }
static std::string early_report __attribute__((init_priority(101)));
// Runs BEFORE main() and before every dynamic initialiser of default priority (the allocator's own statics,
// e.g. `static igris::syslock lock;` in lin_realloc.cpp, the harness' globals): a bare-metal start-up code calls
// malloc from constructors of static objects.  The allocator must work from its constant-initialised state
// (__brkval == NULL, __flp == NULL, __malloc_heap_start == &_heap_start).
struct EarlyHeapUser
{
    EarlyHeapUser()
    {
        char buf[200];
        char *a = (char *)igv_malloc(10);
        for (int i = 0; a && i < 10; i++) a[i] = (char)(i + 1);
        char *b = (char *)igv_realloc(a, 100);
        bool kept = b != nullptr;
        for (int i = 0; b && i < 10; i++) kept = kept && b[i] == (char)(i + 1);
        char *c = (char *)igv_malloc(0);
        long brk3 = __brkval ? (long)(__brkval - _heap_start) : -1;
        igv_free(b);
        igv_free(c);
        snprintf(buf, sizeof buf, "early a=%ld b=%ld c=%ld brk=%ld end=%ld fl=%d%s", a ? (long)(a - _heap_start) : -1, b ? (long)(b - _heap_start) : -1,
                 c ? (long)(c - _heap_start) : -1, brk3, __brkval ? (long)(__brkval - _heap_start) : -1, __flp ? 1 : 0, kept ? "" : " PREFIX-LOST");
        early_report = buf; // std::string with init_priority(101) too: constructed before this object (same TU, declared first)
    }
};
static EarlyHeapUser early_heap_user __attribute__((init_priority(101)));
static std::string su(size_t v) { return std::to_string((unsigned long long)v); }
static uint64_t g_seed = 1;

static uint8_t pat(uint64_t seed, size_t i) { return (uint8_t)(((seed * 0x9E37u + i * 131u) % 251u) + 1u); }

// ================================================================ pools
struct PoolCase
{
    size_t e = 0, cap = 0;
    std::unique_ptr<exact_buf> zone;
    std::vector<std::unique_ptr<exact_buf>> old_zones; // zones of earlier init() calls on the same object (kept mapped)
    pool_head head;
    igris::pool ip;
    bool is_ip = false;
    std::map<size_t, uint64_t> live; // offset -> pattern seed
    uint64_t ctr = 1;
    // NAMES.  The property does not say WHICH free cell an allocation returns.  Ops and result lines therefore name
    // cells not by their real address but by the cell a reference LIFO discipline (the model's, mirrored by the
    // generator) would hand out at that point of the history; the harness binds each name to the real cell the code
    // returned.  Everything about the real cell (zone, boundary, alignment, overlap, contents) is judged by the oracle.
    std::vector<size_t> name_free;  // names not handed out, back() = next one
    std::map<size_t, size_t> bound; // name -> real offset
    void names_init()
    {
        name_free.clear();
        bound.clear();
        for (size_t i = 0; i < cap; i++) name_free.push_back(i * e);
    }
    // the name of the cell just handed out (real offset `off`)
    std::string name_alloc(size_t off)
    {
        if (name_free.empty()) return "?" + std::to_string(off); // more cells than the capacity: the oracle has failed already
        size_t nm = name_free.back();
        name_free.pop_back();
        bound[nm] = off;
        return std::to_string(nm);
    }
    // the real cell behind a name; a name that is not handed out stands for "some free cell": any real free cell
    bool real_of(size_t nm, size_t &off)
    {
        auto it = bound.find(nm);
        if (it != bound.end())
        {
            off = it->second;
            return true;
        }
        for (size_t i = 0; i < cap; i++)
            if (!live.count(i * e))
            {
                off = i * e;
                return true;
            }
        return false;
    }
    void name_release(size_t nm)
    {
        bound.erase(nm);
        name_free.push_back(nm);
    }

    void fill(size_t off)
    {
        uint64_t sd = ctr++;
        live[off] = sd;
        for (size_t i = 0; i < e; i++) zone->p[off + i] = pat(sd, i);
    }
    void check_patterns(out &o)
    {
        for (auto &kv : live)
            for (size_t i = 0; i < e; i++)
                if (zone->p[kv.first + i] != pat(kv.second, i))
                {
                    o.fail("contents of live cell " + s(kv.first) + " changed at byte " + s(i));
                    return;
                }
    }
    // a pointer handed out by the pool: in zone, aligned, not live
    void check_new(void *q, out &o)
    {
        if (q == nullptr)
        {
            if (live.size() != cap) o.fail("null with " + s(live.size()) + " of " + s(cap) + " cells live");
            return;
        }
        if (live.size() >= cap) o.fail("non-null although all " + s(cap) + " cells are live");
        if ((uint8_t *)q < zone->p || (uint8_t *)q + e > zone->p + zone->n)
        {
            o.fail("cell outside the zone");
            return;
        }
        size_t off = (uint8_t *)q - zone->p;
        if (off % e) o.fail("cell offset " + s(off) + " not a multiple of elemsz");
        // cells are aligned for their use when the element size allows it; for an
        // element size that is not a multiple of the pointer size (caller's choice) only
        // the in-zone / non-overlap / capacity clauses are meaningful
        if (e % alignof(void *) == 0 && (uintptr_t)q % alignof(void *)) o.fail("cell misaligned");
        if (e % alignof(void *)) o.tag("elemsz-not-pointer-multiple");
        for (auto &kv : live)
            if (off < kv.first + e && kv.first < off + e) o.fail("cell " + s(off) + " overlaps live cell " + s(kv.first));
        fill(off);
    }
};
static std::unique_ptr<PoolCase> PC;

// ---- one pool_head fed from several zones (pool_engage at arbitrary points of the history)
struct MZone
{
    std::unique_ptr<exact_buf> buf; // exactly sized: ASan sees every access outside the zone
    size_t n, e;
};
struct MPoolCase
{
    pool_head head;
    std::vector<MZone> zones;
    std::map<std::pair<size_t, size_t>, uint64_t> live; // (zone, offset) -> pattern seed
    size_t cap = 0;                                     // sum of the cells of all zones engaged so far
    uint64_t ctr = 1;
    // NAMES (see PoolCase): (zone, offset) of the cell the reference LIFO discipline would hand out
    typedef std::pair<size_t, size_t> Cell;
    std::vector<Cell> name_free;
    std::map<Cell, Cell> bound; // name -> real (zone, offset)
    void names_engage(size_t k, size_t n, size_t e)
    {
        for (size_t i = 0; i < n; i++) name_free.push_back({k, i * e});
    }
    std::string name_alloc(Cell real)
    {
        if (name_free.empty()) return "?" + std::to_string(real.first) + ":" + std::to_string(real.second);
        Cell nm = name_free.back();
        name_free.pop_back();
        bound[nm] = real;
        return std::to_string(nm.first) + ":" + std::to_string(nm.second);
    }
    bool real_of(Cell nm, Cell &real)
    {
        auto it = bound.find(nm);
        if (it != bound.end())
        {
            real = it->second;
            return true;
        }
        for (size_t k = 0; k < zones.size(); k++)
            for (size_t i = 0; i < zones[k].n; i++)
                if (!live.count({k, i * zones[k].e}))
                {
                    real = {k, i * zones[k].e};
                    return true;
                }
        return false;
    }

    // which zone does the pointer point into?  (-1: none)
    long zone_of(const void *q) const
    {
        for (size_t k = 0; k < zones.size(); k++)
            if ((const uint8_t *)q >= zones[k].buf->p && (const uint8_t *)q < zones[k].buf->p + zones[k].n * zones[k].e) return (long)k;
        return -1;
    }
    std::string name(const void *q) const
    {
        if (!q) return "null";
        long k = zone_of(q);
        if (k < 0) return "outside";
        return s(k) + ":" + s((const uint8_t *)q - zones[(size_t)k].buf->p);
    }
    void check_patterns(out &o)
    {
        for (auto &kv : live)
        {
            const MZone &z = zones[kv.first.first];
            for (size_t i = 0; i < z.e; i++)
                if (z.buf->p[kv.first.second + i] != pat(kv.second, i))
                {
                    o.fail("contents of live cell " + s(kv.first.first) + ":" + s(kv.first.second) + " changed at byte " + s(i));
                    return;
                }
        }
    }
    void check_new(void *q, out &o)
    {
        if (q == nullptr)
        {
            if (live.size() != cap) o.fail("null with " + s(live.size()) + " of " + s(cap) + " cells live (capacity = sum of the zones)");
            return;
        }
        if (live.size() >= cap) o.fail("non-null although all " + s(cap) + " cells are live");
        long k = zone_of(q);
        if (k < 0)
        {
            o.fail("cell outside every engaged zone");
            return;
        }
        const MZone &z = zones[(size_t)k];
        size_t off = (uint8_t *)q - z.buf->p;
        if (off % z.e) o.fail("cell offset " + s(off) + " not a multiple of the zone's elemsz");
        if (off + z.e > z.n * z.e) o.fail("cell reaches behind its zone");
        if ((uintptr_t)q % alignof(void *)) o.fail("cell misaligned");
        for (auto &kv : live)
            if (kv.first.first == (size_t)k && off < kv.first.second + z.e && kv.first.second < off + z.e)
                o.fail("cell " + name(q) + " overlaps live cell " + s(k) + ":" + s(kv.first.second));
        uint64_t sd = ctr++;
        live[{(size_t)k, off}] = sd;
        for (size_t i = 0; i < z.e; i++) z.buf->p[off + i] = pat(sd, i);
    }
    // the free list as the code links it: every entry is a cell of a zone, not live, no entry twice,
    // and together with the live cells they are ALL cells of all zones (nothing lost, nothing invented)
    void check_freelist(out &o)
    {
        std::set<std::pair<size_t, size_t>> seen;
        size_t steps = 0;
        for (slist_head *it = head.free_blocks.next; it != &head.free_blocks; it = it->next)
        {
            if (++steps > cap + 1)
            {
                o.fail("free list longer than the capacity (cyclic?)");
                return;
            }
            long k = zone_of(it);
            if (k < 0)
            {
                o.fail("free list entry outside every zone");
                return;
            }
            size_t off = (uint8_t *)it - zones[(size_t)k].buf->p;
            if (off % zones[(size_t)k].e) o.fail("free list entry not on a cell boundary");
            if (live.count({(size_t)k, off})) o.fail("live cell " + s(k) + ":" + s(off) + " is on the free list");
            if (!seen.insert({(size_t)k, off}).second) o.fail("cell twice on the free list");
        }
        if (seen.size() + live.size() != cap)
            o.fail("free cells " + s(seen.size()) + " + live cells " + s(live.size()) + " != capacity " + s(cap) + " (cells lost)");
    }
};
static std::unique_ptr<MPoolCase> MC;

// ---- static_object_pool<T, Cap>
static std::set<const void *> sop_objs;
static std::string sop_err;
static long sop_ctor_runs = 0, sop_dtor_runs = 0;
static const void *sop_last_ctor = nullptr, *sop_last_dtor = nullptr;
template <size_t SZ, size_t AL> struct alignas(AL) Obj
{
    unsigned char b[SZ];
    Obj()
    {
        if (!sop_objs.insert(this).second) sop_err = "constructed over a live object";
        sop_ctor_runs++;
        sop_last_ctor = this;
        for (size_t i = 0; i < SZ; i++) b[i] = pat((uintptr_t)this, i);
    }
    ~Obj()
    {
        if (!sop_objs.erase(this)) sop_err = "destroyed a dead object";
        else if (!intact()) sop_err = "object contents changed before its destructor ran";
        sop_dtor_runs++;
        sop_last_dtor = this;
    }
    bool intact() const
    {
        for (size_t i = 0; i < SZ; i++)
            if (b[i] != pat((uintptr_t)this, i)) return false;
        return true;
    }
};
struct SopBase
{
    virtual ~SopBase() {}
    virtual void *create() = 0;
    virtual void destroy(void *) = 0;
    virtual size_t avail() = 0;
    virtual char *base() = 0;
    virtual size_t storage() = 0;
    virtual size_t cap() = 0;
    virtual size_t szT() = 0;
    virtual size_t alT() = 0;
    virtual bool intact(void *) = 0;
    virtual void engage(void *zone, size_t ncells) = 0; // through freelist()
};
template <size_t SZ, size_t AL, size_t CAP> struct SopImpl : SopBase
{
    typedef Obj<SZ, AL> T;
    static_assert(sizeof(T) == SZ && alignof(T) == AL, "Obj layout");
    typedef igris::static_object_pool<T, CAP> P;
    P *p;
    SopImpl() { p = new P(); } // on the heap: ASan redzones right behind `storage`
    ~SopImpl() { delete p; }
    void *create() { return p->create(); }
    void destroy(void *q) { p->destroy((T *)q); }
    size_t avail() { return p->avail(); }
    char *base() { return (char *)p->storage.data(); }
    size_t storage() { return sizeof(typename P::storage_type); }
    size_t cap() { return CAP; }
    size_t szT() { return SZ; }
    size_t alT() { return AL; }
    bool intact(void *q) { return ((T *)q)->intact(); }
    void engage(void *zone, size_t ncells) { pool_engage(p->freelist(), zone, ncells * sizeof(typename P::storage_type), sizeof(typename P::storage_type)); }
};
struct SopKind
{
    size_t sz, al, cap;
    std::function<SopBase *()> mk;
};
#define SOPK(SZ, AL, CAP) {SZ, AL, CAP, []() -> SopBase * { return new SopImpl<SZ, AL, CAP>(); }}
static const std::vector<SopKind> sop_kinds = {
    SOPK(1, 1, 1),   SOPK(1, 1, 5),   SOPK(4, 4, 2),    SOPK(8, 8, 7),    SOPK(12, 4, 3),  SOPK(12, 4, 33),
    SOPK(24, 8, 1),  SOPK(24, 8, 6),  SOPK(40, 8, 9),   SOPK(32, 32, 4),  SOPK(48, 16, 5), SOPK(64, 8, 33),
    SOPK(2, 2, 16),  SOPK(16, 16, 8), SOPK(96, 32, 3),  SOPK(7, 1, 10),
};
struct SopCase
{
    std::unique_ptr<SopBase> p;
    std::set<std::pair<size_t, size_t>> live; // (zone, offset); zone 0 = the pool's own storage
    std::vector<std::pair<char *, size_t>> extra; // zones engaged through freelist(): base, cells
    size_t cap = 0;
    // NAMES (see PoolCase): (zone, offset) of the cell the reference LIFO discipline would hand out
    typedef std::pair<size_t, size_t> Cell;
    std::vector<Cell> name_free;
    std::map<Cell, Cell> bound; // name -> real (zone, offset)
    void names_engage(size_t k, size_t n, size_t st)
    {
        for (size_t i = 0; i < n; i++) name_free.push_back({k, i * st});
    }
    ~SopCase()
    {
        p.reset();
        for (auto &z : extra) free(z.first);
    }
    char *zbase(size_t k) { return k == 0 ? p->base() : extra[k - 1].first; }
    size_t zcells(size_t k) { return k == 0 ? p->cap() : extra[k - 1].second; }
    long zone_of(const void *q)
    {
        for (size_t k = 0; k <= extra.size(); k++)
            if ((const char *)q >= zbase(k) && (const char *)q < zbase(k) + zcells(k) * p->storage()) return (long)k;
        return -1;
    }
};
static std::unique_ptr<SopCase> SC;

// ---- the three pool twins (pool_head, igris::pool, static_object_pool) on ONE history.  Cells are named by the
// slot of the request that obtained them, never by address or order: the property does not fix WHICH free cell is
// handed out, so the result line carries only null / non-null and the counters the API exposes; everything about
// the cells themselves (in zone, cell boundary, aligned, not live, contents) is judged by the oracle per twin.
struct TriCase
{
    std::unique_ptr<SopBase> sop;
    size_t e = 0, cap = 0;
    std::unique_ptr<exact_buf> zone[2];
    pool_head head;
    igris::pool ip;
    std::map<int, std::array<char *, 3>> slots;
    std::map<size_t, uint64_t> live[2]; // twin 0 / 1: offset -> pattern seed
    std::set<size_t> live_sop;          // twin 2: offsets of live objects
    uint64_t ctr = 1;
    ~TriCase() { sop.reset(); }
    char *zbase(int t) { return t < 2 ? (char *)zone[t]->p : sop->base(); }
    size_t nlive(int t) { return t < 2 ? live[t].size() : live_sop.size(); }
    // judge a cell handed out by twin t
    void check_new(int t, char *q, out &o)
    {
        std::string who = t == 0 ? "pool_head" : t == 1 ? "igris::pool" : "static_object_pool";
        if (!q)
        {
            if (nlive(t) != cap) o.fail(who + ": null with " + s(nlive(t)) + " of " + s(cap) + " cells live");
            return;
        }
        if (nlive(t) >= cap) o.fail(who + ": non-null although all " + s(cap) + " cells are live");
        if (q < zbase(t) || q + e > zbase(t) + cap * e)
        {
            o.fail(who + ": cell outside the zone");
            return;
        }
        size_t off = (size_t)(q - zbase(t));
        if (off % e) o.fail(who + ": cell not on a cell boundary");
        if ((uintptr_t)q % 8) o.fail(who + ": cell misaligned");
        if (t < 2)
        {
            if (live[t].count(off)) o.fail(who + ": cell " + s(off) + " handed out twice");
            uint64_t sd = ctr++;
            live[t][off] = sd;
            for (size_t i = 0; i < e; i++) q[i] = (char)pat(sd, i);
        }
        else
        {
            if (live_sop.count(off)) o.fail(who + ": cell " + s(off) + " handed out twice");
            if ((uintptr_t)q % sop->alT()) o.fail(who + ": object misaligned for T");
            live_sop.insert(off);
        }
    }
    void check_all(out &o)
    {
        for (int t = 0; t < 2; t++)
            for (auto &kv : live[t])
                for (size_t i = 0; i < e; i++)
                    if ((uint8_t)zbase(t)[kv.first + i] != pat(kv.second, i))
                    {
                        o.fail(std::string(t ? "igris::pool" : "pool_head") + ": contents of live cell " + s(kv.first) + " changed");
                        i = e;
                    }
        for (size_t off : live_sop)
            if (!sop->intact(sop->base() + off)) o.fail("static_object_pool: contents of live object " + s(off) + " changed");
        if (pool_avail(&head) != cap - live[0].size()) o.fail("pool_head: avail != capacity - live");
        if (ip.avail() != cap - live[1].size() || ip.room() != cap - live[1].size()) o.fail("igris::pool: avail / room != capacity - live");
        if (sop->avail() != cap - live_sop.size()) o.fail("static_object_pool: avail != Capacity - live");
        for (size_t i = 0; i < cap; i++)
            if (ip.cell_is_allocated((int)i) != (live[1].count(i * e) != 0)) o.fail("igris::pool: cell_is_allocated(" + s(i) + ") disagrees with the shadow set");
        if (!sop_err.empty()) o.fail("static_object_pool: " + sop_err);
        if (sop_objs.size() != live_sop.size()) o.fail("static_object_pool: constructed objects != live cells");
    }
};
static std::unique_ptr<TriCase> TC;

// ================================================================ heap
struct Blk
{
    char *p;
    size_t n;      // requested size
    uint64_t seed; // fill pattern
    size_t hdr;    // header value seen when the block was handed out
};
struct HeapCase
{
    size_t lim = 0;
    char *start = nullptr;
    size_t cap = 0; // bytes really available behind start
    std::unique_ptr<exact_buf> own;
    std::map<int, Blk> live;
    uint64_t ctr = 1;
};
static std::unique_ptr<HeapCase> HC;

static size_t &hdr_of(char *p) { return ((size_t *)p)[-1]; }
// a request that cannot be rounded up to a multiple of __WORDSIZE in a size_t: no block can satisfy it
static bool unrepresentable(size_t n) { return n % __WORDSIZE && n > SIZE_MAX - (__WORDSIZE - n % __WORDSIZE); }
// the request as the allocator sizes it (rounded up to __WORDSIZE, at least 8); only for representable requests
static size_t rounded(size_t n)
{
    size_t len = n % __WORDSIZE ? n + (__WORDSIZE - n % __WORDSIZE) : n;
    return len < 8 ? 8 : len;
}
// ADDRESS wrap-around: a chunk of `len` payload bytes whose header would sit at address `at` does not fit below the
// top of the 64-bit address space (no block can satisfy such a request: NULL is the only admissible answer)
static bool addr_wraps(const char *at, size_t n)
{
    if (unrepresentable(n)) return true;
    size_t len = rounded(n);
    return len > SIZE_MAX - 8 || len + 8 > SIZE_MAX - (size_t)(uintptr_t)at;
}
// a block the allocator handed out must lie inside the arena (checked BEFORE the harness touches it)
static bool block_in_arena(const char *p, size_t n);

static bool block_in_arena(const char *p, size_t n)
{
    return p >= HC->start + 8 && p <= HC->start + HC->cap && n <= (size_t)(HC->start + HC->cap - p);
}
static void heap_fill(Blk &b)
{
    b.seed = HC->ctr++;
    for (size_t i = 0; i < b.n; i++) b.p[i] = (char)pat(b.seed, i);
}
static bool heap_intact(const Blk &b, size_t upto, const char *at, std::string &why)
{
    for (size_t i = 0; i < upto; i++)
        if ((uint8_t)at[i] != pat(b.seed, i))
        {
            why = "byte " + s(i);
            return false;
        }
    return true;
}

struct FreeList
{
    std::vector<std::pair<size_t, size_t>> v;
    bool ok = true;
};
static FreeList walk_freelist(out &o)
{
    FreeList fl;
    size_t steps = 0;
    for (struct __freelist *f = FLP; f; f = f->nx)
    {
        if ((char *)f < HC->start || (char *)f + sizeof(struct __freelist) > HC->start + HC->cap)
        {
            o.fail("free list leaves the arena");
            fl.ok = false;
            break;
        }
        fl.v.push_back({(size_t)((char *)f - HC->start), f->sz});
        if (++steps > 100000)
        {
            o.fail("free list is cyclic");
            fl.ok = false;
            break;
        }
    }
    return fl;
}

// the checks that hold after every heap operation
static void heap_oracle(out &o, int operated_slot, const FreeList &fl)
{
    size_t brk = BRK ? (size_t)(BRK - HC->start) : 0;
    if (BRK && (BRK < HC->start || brk > HC->cap)) o.fail("break outside the arena");
    if (HC->lim && brk > HC->lim) o.fail("break " + s(brk) + " beyond the heap end " + s(HC->lim));
    // every other live block: contents and header untouched
    for (auto &kv : HC->live)
    {
        if (kv.first == operated_slot) continue;
        std::string why;
        if (!heap_intact(kv.second, kv.second.n, kv.second.p, why))
            o.fail("contents of live block in slot " + s(kv.first) + " changed at " + why);
        if (hdr_of(kv.second.p) != kv.second.hdr) o.fail("header of live block in slot " + s(kv.first) + " changed");
    }
    // live blocks: inside [start, brk), aligned, pairwise disjoint (header + requested payload)
    std::vector<std::pair<size_t, size_t>> spans;
    for (auto &kv : HC->live)
    {
        const Blk &b = kv.second;
        if (b.p - 8 < HC->start || (size_t)(b.p - HC->start) + b.n > brk)
            o.fail("block in slot " + s(kv.first) + " not inside [start, brk)");
        if ((uintptr_t)b.p % 8) o.fail("payload not 8-aligned");
        if (hdr_of(b.p) < b.n) o.fail("usable size " + s(hdr_of(b.p)) + " < request " + s(b.n));
        spans.push_back({(size_t)(b.p - 8 - HC->start), (size_t)(b.p - HC->start) + std::max(b.n, hdr_of(b.p))});
    }
    std::sort(spans.begin(), spans.end());
    for (size_t i = 1; i < spans.size(); i++)
        if (spans[i].first < spans[i - 1].second) o.fail("two live blocks overlap at offset " + s(spans[i].first));
    // the chunks (live or free) tile [start, brk): nothing is lost
    if (fl.ok)
    {
        std::map<size_t, int> kind; // header offset -> 1 live, 2 free
        for (auto &kv : HC->live) kind[(size_t)(kv.second.p - 8 - HC->start)] |= 1;
        for (auto &f : fl.v) kind[f.first] |= 2;
        size_t a = 0, nchunks = 0;
        while (a < brk)
        {
            auto it = kind.find(a);
            if (it == kind.end() || it->second == 3)
            {
                o.fail("heap walk: offset " + s(a) + (it == kind.end() ? " is neither a live nor a free chunk (memory lost)" : " is both live and free"));
                break;
            }
            a += 8 + *(size_t *)(HC->start + a);
            nchunks++;
        }
        if (a > brk) o.fail("heap walk: last chunk ends behind the break");
        if (a == brk && nchunks != kind.size()) o.fail("heap walk: a chunk lies outside the tiling");
    }
    if (HC->live.empty() && (brk != 0 || FLP != nullptr))
        o.fail("no live block but brk=" + s(brk) + " / free list not empty: memory lost");
    if (CNT != (int)HC->live.size())
        o.fail("__allocation_counter=" + s(CNT) + " with " + s(HC->live.size()) + " live blocks");
    if (lock_depth != 0) o.fail("system lock not released");
}

static std::string heap_line(const std::string &ret, const FreeList &fl)
{
    std::string r = "ret=" + ret + " brk=" + s(BRK ? (long long)(BRK - HC->start) : 0) + " fl=";
    for (auto &f : fl.v) r += "(" + s(f.first) + "," + s(f.second) + ")";
    r += " live=";
    bool first = true;
    for (auto &kv : HC->live)
    {
        if (!first) r += " ";
        first = false;
        r += s(kv.first) + ":" + s(kv.second.p - HC->start) + ":" + s(hdr_of(kv.second.p));
    }
    return r;
}

// Every store of an allocator call must go into the chunk it operates on, into
// a chunk that was free before the call, or behind the old break (evaluated on
// the real memory by a snapshot diff; stronger than the fill patterns, which
// cover only the requested bytes of the other live blocks).
struct StoreWatch
{
    std::vector<char> snap;
    std::vector<std::pair<size_t, size_t>> allowed;
    size_t brk0 = 0;
    void begin(char *operated)
    {
        brk0 = BRK ? (size_t)(BRK - HC->start) : 0;
        snap.assign(HC->start, HC->start + brk0);
        allowed.clear();
        size_t steps = 0;
        for (struct __freelist *f = FLP; f && steps++ < 100000; f = f->nx)
        {
            size_t a = (size_t)((char *)f - HC->start);
            allowed.push_back({a, a + 8 + f->sz});
        }
        if (operated) allowed.push_back({(size_t)(operated - 8 - HC->start), (size_t)(operated - HC->start) + hdr_of(operated)});
    }
    void end(out &o)
    {
        for (size_t x = 0; x + 8 <= brk0; x += 8)
        {
            if (!memcmp(snap.data() + x, HC->start + x, 8)) continue;
            bool ok = false;
            for (auto &a : allowed)
                if (a.first <= x && x + 8 <= a.second) ok = true;
            if (!ok)
            {
                o.fail("store at offset " + s(x) + " is outside the operated chunk, the free chunks and the space behind the break");
                return;
            }
        }
    }
};
static StoreWatch SW;

// ---------------------------------------------------------------- run
static void run_op(const std::vector<std::string> &w, const std::string &, out &o)
{
    if (w.empty())
    {
        o.result = "bad-op";
        return;
    }
    const std::string &op = w[0];
    if (op == "consts")
    {
        o.result = "W=" + s(__WORDSIZE) + " szt=" + s(sizeof(size_t)) + " fl=" + s(sizeof(struct __freelist)) + " sl=" + s(sizeof(struct slist_head));
        return;
    }
    if (op == "consts2")
    {
        // widths / alignments the model embeds, read out of the compiled code
        igris::pool ip0;
        auto it0 = ip0.begin();
        struct __freelist fl0;
        o.result = "int=" + s(sizeof(it0._num)) + " ptr=" + s(sizeof(void *)) + " sizemax=" + su(SIZE_MAX) + " hdr=" + s(sizeof(fl0.sz)) +
                   " minchunk=" + s(sizeof(struct __freelist) - sizeof(size_t)) + " align=" + s(alignof(struct __freelist)) +
                   " maxalign=" + s(alignof(max_align_t)) + " nx_off=" + s(offsetof(struct __freelist, nx));
        if (!std::is_same<decltype(ip0.room()), size_t>::value) o.fail("room() is not size_t");
        return;
    }
    if (op == "early")
    {
        o.result = early_report;
        if (early_report.find("PREFIX-LOST") != std::string::npos || early_report.find("-1") != std::string::npos)
            o.fail("allocator used before main(): " + early_report);
        o.tag("before-main");
        return;
    }
    if (op == "reset")
    {
        PC.reset();
        MC.reset();
        SC.reset();
        TC.reset();
        HC.reset();
        sop_objs.clear();
        sop_err.clear();
        sop_ctor_runs = sop_dtor_runs = 0;
        const std::string &k = w[1];
        if (k == "poolx")
        {
            // igris::pool(zone, size, elsize) with an element size / zone size it must refuse (asserts), run in a child
            // process: the zone is exactly sized, so an accepted bad request is a memory error there
            size_t e = strtoul(w[2].c_str(), 0, 10), size = strtoul(w[3].c_str(), 0, 10);
            int pfd[2];
            if (pipe(pfd) != 0)
            {
                o.result = "bad-op";
                return;
            }
            fflush(stdout);
            pid_t pid = fork();
            if (pid == 0)
            {
                dup2(pfd[1], 2);
                close(pfd[0]);
                // the child must not touch the parent's stdin / stdout (exit() would seek the shared input back)
                int nul = open("/dev/null", O_RDWR);
                dup2(nul, 0);
                dup2(nul, 1);
                exact_buf z(size);
                igris::pool ip(z.p, size, e); // init(): assert on the element size, then pool_engage (assert on the zone size)
                fprintf(stderr, "engaged %zu\n", ip.avail());
                _exit(0);
            }
            close(pfd[1]);
            std::string err;
            char buf[512];
            ssize_t got;
            while ((got = read(pfd[0], buf, sizeof buf)) > 0) err.append(buf, (size_t)got);
            close(pfd[0]);
            int status = 0;
            waitpid(pid, &status, 0);
            bool asserted = err.find("Assertion") != std::string::npos;
            bool clean = WIFEXITED(status) && WEXITSTATUS(status) == 0;
            if (asserted) o.result = "assert";
            else if (clean) o.result = err.substr(0, err.find('\n'));
            else o.result = "memory-error";
            // independent of the model: a cell must hold the 8-byte link, and the zone must be whole cells
            bool must_refuse = e < sizeof(struct slist_head) || size % e != 0;
            if (must_refuse && !asserted)
            {
                // one line of the child's report: the sanitizer's ERROR / runtime error line
                std::string why = "engaged";
                if (!clean)
                {
                    size_t at = err.find("ERROR: ");
                    if (at == std::string::npos) at = err.find("runtime error");
                    if (at == std::string::npos) at = 0;
                    why = "memory error: " + err.substr(at, 90);
                    for (char &ch : why)
                        if (ch == '\n' || ch == '\t' || ch == '\r') ch = ' ';
                }
                o.fail("igris::pool(zone, size " + s(size) + ", elsize " + s(e) + ") was not refused: " + why);
            }
            if (!must_refuse && !clean) o.fail("pool_engage of a valid zone failed");
            o.tag(must_refuse ? "engage-refused" : "engage-child");
            return;
        }
        if (k == "tri")
        {
            size_t idx = strtoul(w[2].c_str(), 0, 10);
            if (idx >= sop_kinds.size())
            {
                o.result = "bad-op";
                return;
            }
            TC.reset(new TriCase());
            TC->sop.reset(sop_kinds[idx].mk());
            TC->e = TC->sop->storage();
            TC->cap = TC->sop->cap();
            for (int t = 0; t < 2; t++) TC->zone[t].reset(new exact_buf(TC->e * TC->cap));
            pool_init(&TC->head);
            pool_engage(&TC->head, TC->zone[0]->p, TC->e * TC->cap, TC->e);
            TC->ip.init(TC->zone[1]->p, TC->e * TC->cap, TC->e);
            o.result = s(TC->e) + " " + s(TC->cap) + " | " + s(pool_avail(&TC->head)) + " | " + su(TC->ip.size()) + " " + su(TC->ip.room()) + " " + su(TC->ip.avail()) + " | " + s(TC->sop->avail());
            TC->check_all(o);
            o.tag("twins");
            return;
        }
        if (k == "crit")
        {
            // malloc / free / realloc called from a critical context (interrupt handler): the port aborts instead of
            // corrupting the heap under the interrupted call.  Run in a child process.
            fflush(stdout);
            pid_t pid = fork();
            if (pid == 0)
            {
                int nul = open("/dev/null", O_RDWR);
                dup2(nul, 0);
                dup2(nul, 1);
                dup2(nul, 2);
                __malloc_heap_start = _heap_start;
                __malloc_heap_end = nullptr;
                __brkval = nullptr;
                __flp = nullptr;
                __allocation_counter = 0;
                void *q = igv_malloc(8);
                crit_level = 1;
                if (w[2] == "m") q = igv_malloc(8);
                else if (w[2] == "f") igv_free(q);
                else q = igv_realloc(q, 100);
                _exit(q ? 0 : 1);
            }
            int status = 0;
            waitpid(pid, &status, 0);
            o.result = WIFSIGNALED(status) && WTERMSIG(status) == SIGABRT ? "abort" : WIFSIGNALED(status) ? "signal " + s(WTERMSIG(status)) : "returned";
            o.tag("critical-context");
            return;
        }
        if (k == "mpool")
        {
            MC.reset(new MPoolCase());
            pool_init(&MC->head);
            o.result = "ok " + s(pool_avail(&MC->head));
            if (pool_alloc(&MC->head) != nullptr) o.fail("pool without a zone hands out a cell");
            if (slist_pop_first(&MC->head.free_blocks) != nullptr || !slist_empty(&MC->head.free_blocks)) o.fail("slist_pop_first on an empty list");
            return;
        }
        if (k == "ipool0")
        {
            // igris::pool p;  -- default constructed, never init()-ed: a pool of capacity 0
            PC.reset(new PoolCase());
            PC->e = 8;
            PC->cap = 0;
            PC->zone.reset(new exact_buf(0));
            PC->is_ip = true;
            o.result = su(PC->ip.room()) + " " + su(PC->ip.avail());
            o.tag("default-constructed");
            return;
        }
        if (k == "pool" || k == "ipool")
        {
            PC.reset(new PoolCase());
            PC->e = strtoul(w[2].c_str(), 0, 10);
            PC->cap = strtoul(w[3].c_str(), 0, 10);
            PC->zone.reset(new exact_buf(PC->e * PC->cap));
            PC->names_init();
            PC->is_ip = k == "ipool";
            if (PC->is_ip)
            {
                if (PC->cap % 2) new (&PC->ip) igris::pool(PC->zone->p, PC->e * PC->cap, PC->e); // pool(zone, size, elsize)
                else PC->ip.init(PC->zone->p, PC->e * PC->cap, PC->e);
                if (PC->ip.element_size() != PC->e) o.fail("element_size()");
                o.result = su(PC->ip.size()) + " " + su(PC->ip.room()) + " " + su(PC->ip.avail());
                if (PC->ip.size() != PC->cap || PC->ip.room() != PC->cap || PC->ip.avail() != PC->cap) o.fail("fresh pool does not report its capacity");
            }
            else
            {
                pool_init(&PC->head);
                pool_engage(&PC->head, PC->zone->p, PC->e * PC->cap, PC->e);
                o.result = "ok " + s(pool_avail(&PC->head));
                if (pool_avail(&PC->head) != PC->cap) o.fail("fresh pool: avail != capacity");
            }
            if (PC->cap == 1) o.tag("cap1");
            if (PC->e == 8) o.tag("elemsz=sizeof(link)");
            return;
        }
        if (k == "sop")
        {
            size_t sz = strtoul(w[2].c_str(), 0, 10), al = strtoul(w[3].c_str(), 0, 10), cap = strtoul(w[4].c_str(), 0, 10);
            for (auto &kd : sop_kinds)
                if (kd.sz == sz && kd.al == al && kd.cap == cap)
                {
                    SC.reset(new SopCase());
                    SC->p.reset(kd.mk());
                }
            if (!SC)
            {
                o.result = "bad-op";
                return;
            }
            SC->cap = cap;
            SC->names_engage(0, cap, SC->p->storage());
            o.result = s(SC->p->storage()) + " " + s(SC->p->avail());
            if (SC->p->avail() != cap) o.fail("fresh object pool: avail != Capacity");
            if ((uintptr_t)SC->p->base() % std::max(al, (size_t)8)) o.fail("storage misaligned for T");
            if (SC->p->storage() % std::max(al, (size_t)8) || SC->p->storage() < sz) o.fail("storage_type too small / misaligned");
            return;
        }
        if (k == "heap")
        {
            HC.reset(new HeapCase());
            HC->lim = strtoul(w[2].c_str(), 0, 10);
            if (HC->lim)
            {
                // exactly sized arena: a store behind the heap end is an ASan report
                HC->own.reset(new exact_buf(HC->lim));
                HC->start = (char *)HC->own->p;
                HC->cap = HC->lim;
                o.tag("limited");
            }
            else
            {
                HC->start = _heap_start;
                HC->cap = STATIC_ARENA;
            }
            // the model assumes an arena address in [2^32, 2^47) (requests are generated so that their verdict is the
            // same for every base in that range)
            if ((uintptr_t)HC->start < (1ull << 32) || (uintptr_t)HC->start + HC->cap >= (1ull << 47)) o.fail("arena address outside [2^32, 2^47): the model's address assumption does not hold on this host");
            if ((uintptr_t)HC->start % 8) o.fail("arena start not 8-aligned");
            A = (w.size() > 3 && w[3] == "rel") ? &API_REL : &API_DBG;
            if (A == &API_REL) o.tag("release-build");
            *A->heap_start = HC->start;
            *A->heap_end = HC->lim ? HC->start + HC->lim : nullptr;
            BRK = nullptr;
            FLP = nullptr;
            CNT = 0;
            lock_depth = 0;
            o.result = "ok";
            return;
        }
        o.result = "bad-op";
        return;
    }
    // ------------------------------------------------ the three twins on one history
    if (TC)
    {
        long c0 = sop_ctor_runs, d0 = sop_dtor_runs;
        std::string r[3] = {"-", "-", "-"};
        if (op == "a")
        {
            int slot = atoi(w[1].c_str());
            std::array<char *, 3> q = {(char *)pool_alloc(&TC->head), (char *)TC->ip.get(), (char *)TC->sop->create()};
            for (int t = 0; t < 3; t++)
            {
                TC->check_new(t, q[t], o);
                r[t] = q[t] ? "cell" : "null";
            }
            if ((q[2] != nullptr) != (sop_ctor_runs == c0 + 1) || sop_dtor_runs != d0) o.fail("static_object_pool: create must run the constructor exactly once iff it returns an object");
            if (!((q[0] == nullptr) == (q[1] == nullptr) && (q[1] == nullptr) == (q[2] == nullptr))) o.fail("twins with equal capacity and equal history disagree on exhaustion");
            TC->slots[slot] = q;
            o.tag(q[0] ? "twins-alloc" : "twins-null");
        }
        else if (op == "f")
        {
            int slot = atoi(w[1].c_str());
            auto it = TC->slots.find(slot);
            std::array<char *, 3> q = {nullptr, nullptr, nullptr};
            if (it != TC->slots.end())
            {
                q = it->second;
                TC->slots.erase(it);
            }
            if (q[0])
            {
                TC->live[0].erase((size_t)(q[0] - TC->zbase(0)));
                pool_free(&TC->head, q[0]);
            }
            if (q[1]) TC->live[1].erase((size_t)(q[1] - TC->zbase(1)));
            TC->ip.put(q[1]); // put(NULL) is a no-op
            if (q[2])
            {
                TC->live_sop.erase((size_t)(q[2] - TC->zbase(2)));
                TC->sop->destroy(q[2]);
                if (sop_dtor_runs != d0 + 1 || sop_ctor_runs != c0) o.fail("static_object_pool: destroy must run the destructor exactly once");
            }
            o.tag(q[0] ? "twins-free" : "twins-free-null");
        }
        else
        {
            o.result = "bad-op";
            return;
        }
        o.result = r[0] + " " + s(pool_avail(&TC->head)) + " | " + r[1] + " " + su(TC->ip.room()) + " " + su(TC->ip.avail()) + " | " + r[2] + " " + s(TC->sop->avail()) + " " +
                   s(sop_objs.size()) + " " + s(sop_ctor_runs) + " " + s(sop_dtor_runs);
        TC->check_all(o);
        return;
    }
    // ------------------------------------------------ pool fed from several zones
    if (MC)
    {
        if (op == "z")
        {
            size_t n = strtoul(w[1].c_str(), 0, 10), e = strtoul(w[2].c_str(), 0, 10);
            size_t before = pool_avail(&MC->head);
            MC->zones.push_back(MZone{std::unique_ptr<exact_buf>(new exact_buf(n * e)), n, e});
            pool_engage(&MC->head, MC->zones.back().buf->p, n * e, e);
            MC->names_engage(MC->zones.size() - 1, n, e);
            MC->cap += n;
            o.result = s(pool_avail(&MC->head));
            if (pool_avail(&MC->head) != before + n) o.fail("pool_engage of " + s(n) + " cells: avail " + s(before) + " -> " + s(pool_avail(&MC->head)));
            o.tag(before ? "engage-onto-nonempty-list" : MC->zones.size() > 1 ? "engage-further-zone" : "engage-first-zone");
            if (n == 0) o.tag("engage-empty-zone");
        }
        else if (op == "a")
        {
            void *q = pool_alloc(&MC->head);
            long zk = q ? MC->zone_of(q) : -1;
            o.result = (!q ? std::string("null") : zk < 0 ? std::string("outside") : MC->name_alloc({(size_t)zk, (size_t)((uint8_t *)q - MC->zones[(size_t)zk].buf->p)})) + " " + s(pool_avail(&MC->head));
            MC->check_new(q, o);
            o.tag(q ? (MC->zones.size() > 1 ? "alloc-multizone" : "alloc") : "alloc-null");
        }
        else if (op == "f")
        {
            MPoolCase::Cell nm{strtoul(w[1].c_str(), 0, 10), strtoul(w[2].c_str(), 0, 10)}, real;
            if (!MC->bound.count(nm) || !MC->real_of(nm, real))
            {
                o.result = "skip";
                o.fail("history cannot continue: cell " + w[1] + ":" + w[2] + " was never handed out");
                return;
            }
            MC->bound.erase(nm);
            MC->name_free.push_back(nm);
            size_t k = real.first, off = real.second;
            MC->live.erase({k, off});
            pool_free(&MC->head, MC->zones[k].buf->p + off);
            o.result = s(pool_avail(&MC->head));
            o.tag("free");
        }
        else if (op == "in")
        {
            MPoolCase::Cell nm{strtoul(w[1].c_str(), 0, 10), strtoul(w[2].c_str(), 0, 10)}, real;
            if (!MC->real_of(nm, real)) real = nm;
            size_t k = real.first, off = real.second;
            int r = pool_in_freelist(&MC->head, MC->zones[k].buf->p + off);
            o.result = r ? "1" : "0";
            if ((r != 0) == (MC->live.count({k, off}) != 0)) o.fail("pool_in_freelist disagrees with the shadow map");
        }
        else
        {
            o.result = "bad-op";
            return;
        }
        MC->check_patterns(o);
        MC->check_freelist(o);
        if (pool_avail(&MC->head) != MC->cap - MC->live.size())
            o.fail("avail " + s(pool_avail(&MC->head)) + " != capacity - live = " + s(MC->cap) + " - " + s(MC->live.size()));
        return;
    }
    // ------------------------------------------------ pool ops
    if (PC && !PC->is_ip)
    {
        if (op == "a")
        {
            void *q = pool_alloc(&PC->head);
            o.result = (q ? PC->name_alloc((size_t)((uint8_t *)q - PC->zone->p)) : std::string("null")) + " " + s(pool_avail(&PC->head));
            PC->check_new(q, o);
            o.tag(q ? "alloc" : "alloc-null");
        }
        else if (op == "f")
        {
            size_t nm = strtoul(w[1].c_str(), 0, 10), off = 0;
            if (!PC->bound.count(nm) || !PC->real_of(nm, off))
            {
                o.result = "skip";
                o.fail("history cannot continue: cell " + s(nm) + " was never handed out");
                return;
            }
            PC->name_release(nm);
            PC->live.erase(off);
            pool_free(&PC->head, PC->zone->p + off);
            o.result = s(pool_avail(&PC->head));
            o.tag("free");
        }
        else if (op == "in")
        {
            size_t nm = strtoul(w[1].c_str(), 0, 10), off = 0;
            if (!PC->real_of(nm, off)) off = nm;
            int r = pool_in_freelist(&PC->head, PC->zone->p + off);
            o.result = r ? "1" : "0";
            if ((r != 0) == (PC->live.count(off) != 0)) o.fail("pool_in_freelist disagrees with the shadow map");
        }
        else
            o.result = "bad-op";
        PC->check_patterns(o);
        if (pool_avail(&PC->head) != PC->cap - PC->live.size()) o.fail("avail " + s(pool_avail(&PC->head)) + " != capacity - live = " + s(PC->cap - PC->live.size()));
        return;
    }
    if (PC && PC->is_ip)
    {
        igris::pool &ip = PC->ip;
        if (op == "g")
        {
            void *q = ip.get();
            o.result = (q ? PC->name_alloc((size_t)((uint8_t *)q - PC->zone->p)) : std::string("null")) + " " + su(ip.room()) + " " + su(ip.avail());
            PC->check_new(q, o);
            o.tag(q ? "get" : "get-null");
        }
        else if (op == "p")
        {
            if (w[1] == "null")
            {
                ip.put(nullptr);
                o.tag("put-null");
            }
            else
            {
                size_t nm = strtoul(w[1].c_str(), 0, 10), off = 0;
                if (!PC->bound.count(nm) || !PC->real_of(nm, off))
                {
                    o.result = "skip";
                    o.fail("history cannot continue: cell " + s(nm) + " was never handed out");
                    return;
                }
                PC->name_release(nm);
                PC->live.erase(off);
                ip.put(PC->zone->p + off);
                o.tag("put");
            }
            o.result = su(ip.room()) + " " + su(ip.avail());
        }
        else if (op == "ca")
        {
            long i = strtol(w[1].c_str(), 0, 10);
            // an index inside the pool names a cell (see NAMES): ask about the real cell behind the name
            size_t off = 0;
            if (i >= 0 && (size_t)i < PC->cap && PC->real_of((size_t)i * PC->e, off)) i = (long)(off / PC->e);
            bool r = ip.cell_is_allocated((int)i);
            o.result = r ? "1" : "0";
            bool ref = i >= 0 && (size_t)i < PC->cap && PC->live.count((size_t)i * PC->e);
            if (r != ref) o.fail("cell_is_allocated(" + s(i) + ") disagrees with the shadow map");
        }
        else if (op == "ri")
        {
            // init() again on the SAME object with another zone, element size and capacity, whatever its state
            // (cells handed out, cells on the list): it must become a fresh pool over the new zone
            PC->old_zones.push_back(std::move(PC->zone));
            PC->e = strtoul(w[1].c_str(), 0, 10);
            PC->cap = strtoul(w[2].c_str(), 0, 10);
            PC->zone.reset(new exact_buf(PC->e * PC->cap));
            PC->live.clear();
            PC->names_init();
            ip.init(PC->zone->p, PC->e * PC->cap, PC->e);
            o.result = su(ip.size()) + " " + su(ip.room()) + " " + su(ip.avail());
            if (ip.size() != PC->cap || ip.room() != PC->cap || ip.avail() != PC->cap || ip.element_size() != PC->e) o.fail("re-initialised pool does not report its new capacity / element size");
            o.tag("re-init");
        }
        else if (op == "sz")
        {
            o.result = su(ip.size()) + " " + su(ip.element_size());
            if (ip.size() != PC->cap) o.fail("size() " + su(ip.size()) + " != capacity " + s(PC->cap));
        }
        else if (op == "it")
        {
            o.result = "it:";
            std::vector<size_t> seen;
            size_t steps = 0;
            for (auto it = ip.begin(); it != ip.end() && steps <= PC->cap; ++it, ++steps)
                seen.push_back((size_t)((uint8_t *)*it - PC->zone->p));
            // result line: the NAMES of the visited cells in ascending order (the ascending order of the real
            // visit and its completeness are judged just below against the shadow map)
            {
                std::map<size_t, size_t> name_of;
                for (auto &kv : PC->bound) name_of[kv.second] = kv.first;
                std::vector<size_t> names;
                for (size_t off : seen) names.push_back(name_of.count(off) ? name_of[off] / PC->e : 1000000 + off);
                std::sort(names.begin(), names.end());
                for (size_t nmi : names) o.result += " " + s(nmi);
            }
            std::vector<size_t> ref;
            for (auto &kv : PC->live) ref.push_back(kv.first);
            if (seen != ref) o.fail("iteration over allocated cells disagrees with the shadow map");
            o.tag("iterate");
        }
        else
            o.result = "bad-op";
        PC->check_patterns(o);
        size_t want = PC->cap - PC->live.size();
        if (ip.avail() != want) o.fail("avail " + s(ip.avail()) + " != capacity - live = " + s(want));
        if (ip.room() != want) o.fail("room " + su(ip.room()) + " != capacity - live = " + s(want));
        return;
    }
    if (SC)
    {
        SopBase &p = *SC->p;
        long c0 = sop_ctor_runs, d0 = sop_dtor_runs;
        if (op == "c")
        {
            void *q = p.create();
            if (q)
            {
                long k = SC->zone_of(q);
                size_t off = k < 0 ? 0 : (size_t)((char *)q - SC->zbase((size_t)k));
                if (k < 0) o.fail("object outside the storage and the engaged zones");
                else if (off % p.storage()) o.fail("object not on a cell boundary");
                else if (off + p.storage() > SC->zcells((size_t)k) * p.storage()) o.fail("object reaches behind its zone");
                if ((uintptr_t)q % p.alT()) o.fail("object misaligned for T");
                if (k >= 0 && SC->live.count({(size_t)k, off})) o.fail("cell handed out twice");
                if (SC->live.size() >= SC->cap) o.fail("non-null although Capacity objects are live");
                if (sop_ctor_runs != c0 + 1 || sop_last_ctor != q) o.fail("create: the constructor did not run exactly once on the returned cell");
                if (k >= 0) SC->live.insert({(size_t)k, off});
                if (k < 0 || SC->name_free.empty()) o.result = "?" + s(k) + ":" + s(off);
                else
                {
                    SopCase::Cell nm = SC->name_free.back();
                    SC->name_free.pop_back();
                    SC->bound[nm] = {(size_t)k, off};
                    o.result = nm.first == 0 ? s(nm.second) : s(nm.first) + ":" + s(nm.second);
                }
                o.tag(k > 0 ? "create-in-extra-zone" : "create");
            }
            else
            {
                if (SC->live.size() != SC->cap) o.fail("null with free cells left");
                if (sop_ctor_runs != c0) o.fail("create returned null but a constructor ran");
                o.result = "null";
                o.tag("create-null");
            }
            if (sop_dtor_runs != d0) o.fail("create ran a destructor");
        }
        else if (op == "d")
        {
            SopCase::Cell nm{w.size() > 2 ? strtoul(w[1].c_str(), 0, 10) : 0, strtoul(w[w.size() > 2 ? 2 : 1].c_str(), 0, 10)};
            auto itb = SC->bound.find(nm);
            if (itb == SC->bound.end())
            {
                o.result = "skip";
                o.fail("history cannot continue: this object was never created");
                return;
            }
            size_t k = itb->second.first, off = itb->second.second;
            SC->bound.erase(itb);
            SC->name_free.push_back(nm);
            SC->live.erase({k, off});
            void *q = SC->zbase(k) + off;
            p.destroy(q);
            if (sop_dtor_runs != d0 + 1 || sop_last_dtor != q) o.fail("destroy: the destructor did not run exactly once on the object");
            if (sop_ctor_runs != c0) o.fail("destroy ran a constructor");
            o.result = "";
            o.tag("destroy");
        }
        else if (op == "x")
        {
            size_t n = strtoul(w[1].c_str(), 0, 10);
            size_t al = std::max(p.alT(), (size_t)8);
            char *z = (char *)aligned_alloc(al, n ? n * p.storage() : al); // exactly sized (ASan)
            SC->extra.push_back({z, n});
            size_t before = p.avail();
            p.engage(z, n);
            SC->names_engage(SC->extra.size(), n, p.storage());
            SC->cap += n;
            o.result = s(p.avail());
            if (p.avail() != before + n) o.fail("pool_engage(freelist(), " + s(n) + " cells): avail " + s(before) + " -> " + s(p.avail()));
            if (sop_ctor_runs != c0 || sop_dtor_runs != d0) o.fail("engage ran a constructor / destructor");
            o.tag(before ? "sop-engage-onto-nonempty-list" : "sop-engage");
            goto sop_checks;
        }
        else
        {
            o.result = "bad-op";
            return;
        }
        if (!o.result.empty()) o.result += " ";
        o.result += s(p.avail()) + " " + s(sop_objs.size()) + " " + s(sop_ctor_runs) + " " + s(sop_dtor_runs);
    sop_checks:
        if (!sop_err.empty()) o.fail(sop_err);
        if (sop_objs.size() != SC->live.size()) o.fail("constructed objects != live cells");
        if (sop_ctor_runs - sop_dtor_runs != (long)SC->live.size()) o.fail("constructor runs - destructor runs != live objects");
        for (auto &c : SC->live)
            if (!p.intact(SC->zbase(c.first) + c.second)) o.fail("contents of live object at " + s(c.first) + ":" + s(c.second) + " changed");
        if (p.avail() != SC->cap - SC->live.size()) o.fail("avail != Capacity - live");
        return;
    }
    if (HC)
    {
        size_t fl_before = 0;
        for (struct __freelist *f = FLP; f && fl_before < 100000; f = f->nx) fl_before++;
        char *brk_before = BRK;
        std::string ret = "-";
        int slot = -1;
        if (op == "m")
        {
            slot = atoi(w[1].c_str());
            size_t n = strtoul(w[2].c_str(), 0, 10);
            const char *brk_addr = BRK ? BRK : HC->start;
            bool was_empty = HC->live.empty();
            SW.begin(nullptr);
            char *p = (char *)A->malloc_(n);
            SW.end(o);
            if (p && !block_in_arena(p, n))
            {
                // judged before the harness touches the block: it cannot be filled, the case ends here
                o.fail("malloc(" + su(n) + ") returned a block that is not inside the arena [start, start + " + su(HC->cap) + ")");
                o.result = "ret=outside";
                return;
            }
            if (p)
            {
                Blk b{p, n, 0, hdr_of(p)};
                if (hdr_of(p) < n)
                {
                    o.fail("usable size " + su(hdr_of(p)) + " < request " + su(n));
                    b.n = hdr_of(p); // keep the shadow map usable
                }
                heap_fill(b);
                HC->live[slot] = b;
                ret = s(p - HC->start);
            }
            else
            {
                ret = "null";
                // without a heap end NULL is admissible only for a request no block can satisfy: its rounding wraps
                // around SIZE_MAX, or the new chunk would reach across the top of the address space
                if (!HC->lim && !addr_wraps(brk_addr, n)) o.fail("malloc returned NULL without a heap limit");
                // "memory is not lost": on a heap without live blocks the whole arena is available again
                if (HC->lim && was_empty && !unrepresentable(n) && rounded(n) <= HC->lim - 8 && HC->lim >= 8)
                    o.fail("malloc(" + su(n) + ") failed on a heap without live blocks although " + su(HC->lim) + " bytes are configured");
                o.tag("malloc-null");
                if (!HC->lim && !unrepresentable(n)) o.tag("address-wrap-refused");
            }
            if (p && was_empty && HC->lim && rounded(n) + 8 + 64 > HC->lim) o.tag("maximal-alloc-on-empty-heap");
            if (unrepresentable(n)) o.tag("request-rounding-wraps");
            if (p)
            {
                size_t fl_after = 0;
                for (struct __freelist *f = FLP; f && fl_after < 100000; f = f->nx) fl_after++;
                if (BRK != brk_before) o.tag("malloc-extend");
                else if (fl_after < fl_before) o.tag(hdr_of(p) == (n < 8 ? 8 : (n + 63) / 64 * 64) ? "malloc-exact" : "malloc-whole");
                else o.tag("malloc-split");
            }
            if (n == 0) o.tag("size0");
        }
        else if (op == "mx")
        {
            // probe of finding C10-heap-arena-unbounded-by-default: a request larger than what is left of the arena,
            // no heap end configured.  Judged without touching the block, which is released at once.
            size_t n = strtoul(w[2].c_str(), 0, 10);
            char *p = (char *)A->malloc_(n);
            if (p && !block_in_arena(p, n)) o.fail("malloc(" + su(n) + ") returned a block that reaches " + su((size_t)(p - HC->start) + n - HC->cap) + " bytes behind the arena (no heap end configured: the break is unbounded)");
            if (p) A->free_(p);
            o.tag("probe-unbounded");
        }
        else if (op == "al")
        {
            // probe of finding C10-heap-align-max-align-t: is the payload aligned for max_align_t?
            auto it = HC->live.find(atoi(w[1].c_str()));
            if (it != HC->live.end() && (uintptr_t)it->second.p % alignof(max_align_t))
                o.fail("payload at offset " + s(it->second.p - HC->start) + " is not aligned for max_align_t (" + s(alignof(max_align_t)) + ")");
            o.tag("probe-maxalign");
        }
        else if (op == "f")
        {
            slot = atoi(w[1].c_str());
            auto it = HC->live.find(slot);
            if (it == HC->live.end())
            {
                SW.begin(nullptr);
                A->free_(nullptr);
                SW.end(o);
                o.tag("free-null");
            }
            else
            {
                Blk b = it->second;
                std::string why;
                if (!heap_intact(b, b.n, b.p, why)) o.fail("contents changed before free at " + why);
                HC->live.erase(it);
                SW.begin(b.p);
                A->free_(b.p);
                SW.end(o);
                size_t fl_after = 0;
                for (struct __freelist *f = FLP; f && fl_after < 100000; f = f->nx) fl_after++;
                if (BRK != brk_before) o.tag("free-lower-brk");
                if (fl_after + 1 == fl_before && BRK == brk_before) o.tag("free-merge-both");
                else if (fl_after == fl_before && BRK == brk_before) o.tag("free-merge-one");
                else if (fl_after == fl_before + 1) o.tag("free-insert");
                if (BRK != brk_before && fl_after < fl_before) o.tag("free-merge-then-lower");
            }
        }
        else if (op == "r")
        {
            slot = atoi(w[1].c_str());
            size_t n = strtoul(w[2].c_str(), 0, 10);
            auto it = HC->live.find(slot);
            if (it == HC->live.end())
            {
                const char *brk_addr = BRK ? BRK : HC->start;
                SW.begin(nullptr);
                char *p = (char *)A->realloc_(nullptr, n);
                SW.end(o);
                o.tag("realloc-null-ptr");
                if (p && !block_in_arena(p, n))
                {
                    o.fail("realloc(NULL, " + su(n) + ") returned a block that is not inside the arena");
                    o.result = "ret=outside";
                    return;
                }
                if (p)
                {
                    Blk b{p, n, 0, hdr_of(p)};
                    if (hdr_of(p) < n)
                    {
                        o.fail("usable size " + su(hdr_of(p)) + " < request " + su(n));
                        b.n = hdr_of(p);
                    }
                    heap_fill(b);
                    HC->live[slot] = b;
                    ret = s(p - HC->start);
                }
                else
                {
                    ret = "null";
                    if (!HC->lim && !addr_wraps(brk_addr, n)) o.fail("realloc(NULL, n) returned NULL without a heap limit");
                    if (!HC->lim && !unrepresentable(n)) o.tag("address-wrap-refused");
                }
                if (unrepresentable(n)) o.tag("request-rounding-wraps");
            }
            else
            {
                Blk old = it->second;
                size_t old_hdr = hdr_of(old.p);
                // keep a copy of the old contents: the old block may be recycled
                std::vector<char> copy(old.p, old.p + old.n);
                HC->live.erase(it);
                // while realloc runs, the old block is still owned by the caller
                const char *brk_addr = BRK ? BRK : HC->start;
                SW.begin(old.p);
                char *p = (char *)A->realloc_(old.p, n);
                SW.end(o);
                if (p && !block_in_arena(p, n))
                {
                    o.fail("realloc(p, " + su(n) + ") returned a block that is not inside the arena");
                    o.result = "ret=outside";
                    return;
                }
                if (p)
                {
                    size_t keep = std::min(old.n, n);
                    std::string why;
                    if (!heap_intact(old, keep, p, why)) o.fail("realloc lost the common prefix at " + why);
                    Blk b{p, n, 0, hdr_of(p)};
                    if (hdr_of(p) < n)
                    {
                        o.fail("usable size " + su(hdr_of(p)) + " < request " + su(n));
                        b.n = hdr_of(p);
                    }
                    heap_fill(b);
                    HC->live[slot] = b;
                    ret = s(p - HC->start);
                    if (p != old.p) o.tag("realloc-move");
                    else if (BRK != brk_before && n > old.n) o.tag("realloc-extend-top");
                    else if (hdr_of(p) > old_hdr) o.tag("realloc-grow-into-neighbour");
                    else if (hdr_of(p) < old_hdr) o.tag("realloc-shrink-split");
                    else o.tag("realloc-same-chunk");
                }
                else
                {
                    ret = "null";
                    // NULL without a heap end: only when ptr + len or the moved chunk would cross the top of the address space
                    if (!HC->lim && !addr_wraps(old.p - 8, n) && !addr_wraps(brk_addr, n)) o.fail("realloc returned NULL without a heap limit");
                    if (unrepresentable(n)) o.tag("request-rounding-wraps");
                    else if (!HC->lim) o.tag("address-wrap-refused");
                    // the old block must still be there, untouched
                    std::string why;
                    if (!heap_intact(old, old.n, old.p, why)) o.fail("failed realloc damaged the old block at " + why);
                    HC->live[slot] = old;
                    o.tag("realloc-fail");
                }
                if (n == 0) o.tag("size0");
            }
        }
        else
        {
            o.result = "bad-op";
            return;
        }
        FreeList fl = walk_freelist(o);
        o.result = heap_line(ret, fl);
        heap_oracle(o, -1, fl);
        return;
    }
    o.result = "bad-op";
}

// ---------------------------------------------------------------- gen
static size_t pick_size(rng &r)
{
    static const std::vector<size_t> cls = {0, 1, 7, 8, 9, 15, 16, 17, 63, 64, 65, 56, 72, 120, 127, 128, 129, 136, 192, 200, 256};
    unsigned k = (unsigned)r.below(10);
    if (k < 6) return r.pick(cls);
    if (k < 8) return (size_t)r.below(2001);
    return (size_t)r.below(300);
}

struct HGen
{
    rng &r;
    std::vector<int> live; // slots, in allocation order
    int next_slot = 0;
    int max_live;
    HGen(rng &r_, int max_live_) : r(r_), max_live(max_live_) {}
    void m(size_t n)
    {
        printf("m %d %zu\n", next_slot, n);
        live.push_back(next_slot++);
    }
    void f_at(size_t i)
    {
        printf("f %d\n", live[i]);
        live.erase(live.begin() + i);
    }
    void rr(size_t i, size_t n) { printf("r %d %zu\n", live[i], n); }
    void free_all(int order)
    {
        while (!live.empty())
        {
            size_t i = order == 0 ? live.size() - 1 : order == 1 ? 0 : (size_t)r.below(live.size());
            f_at(i);
        }
    }
};

static void gen_heap_random(rng &r, int ncases, int nops, bool rel = false)
{
    for (int c = 0; c < ncases; c++)
    {
        int mode = c % 5;
        size_t lim = 0;
        if (mode == 4) lim = (size_t)r.range(64, 6000); // small arena: exhaustion paths
        printf("reset heap %zu%s\n", lim, rel ? " rel" : "");
        HGen g(r, rel ? 400 : 90);
        // with a limit a request may fail: the generator cannot know, so the
        // harness treats a slot whose malloc failed as NULL (free(NULL), realloc(NULL))
        if (mode <= 2)
        {
            // phases: allocate k blocks, free them LIFO / FIFO / random, again
            for (int round = 0; round < 3; round++)
            {
                int k = (int)r.range(1, rel ? 130 : 30);
                for (int i = 0; i < k && (int)g.live.size() < g.max_live; i++) g.m(pick_size(r));
                // partial release in the phase's order, then refill
                size_t keep = r.below(g.live.size() + 1);
                while (g.live.size() > keep)
                    g.f_at(mode == 0 ? g.live.size() - 1 : mode == 1 ? 0 : (size_t)r.below(g.live.size()));
                for (int i = 0; i < k / 2 && (int)g.live.size() < g.max_live; i++)
                {
                    if (!g.live.empty() && r.chance(30)) g.rr((size_t)r.below(g.live.size()), pick_size(r));
                    else g.m(pick_size(r));
                }
            }
            g.free_all(mode);
        }
        else
        {
            // free interleaving (mode 3), the same in a small arena (mode 4)
            for (int i = 0; i < nops; i++)
            {
                unsigned k = (unsigned)r.below(100);
                if (g.live.empty() || (k < 40 && (int)g.live.size() < g.max_live)) g.m(lim ? (size_t)r.below(lim / 3 + 2) : pick_size(r));
                else if (k < 70) g.f_at((size_t)r.below(g.live.size()));
                else if (k < 72) printf("f %d\n", 1000 + (int)r.below(5)); // free(NULL)
                else if (k < 75) printf("r %d %zu\n", g.next_slot, pick_size(r)), g.live.push_back(g.next_slot++); // realloc(NULL, n)
                else g.rr((size_t)r.below(g.live.size()), lim ? (size_t)r.below(lim / 2 + 2) : pick_size(r));
            }
            g.free_all((int)r.below(3));
        }
    }
}

// small arenas filled to the last byte: the limit tests of malloc (needs len + 8
// bytes) and of realloc's in-place growth of the topmost chunk (needs ptr + len <= end)
static void gen_heap_brim(rng &r, int ncases)
{
    static const std::vector<int> extras = {0, 7, 8, 15, 16, 17, 23, 24, 56, 63, 64, 65, 71, 72, 73, 80, 136, 144};
    for (int c = 0; c < ncases; c++)
    {
        int k = (int)r.range(1, 5);
        int extra = extras[(size_t)c % extras.size()];
        printf("reset heap %d\n", 72 * k + extra);
        for (int i = 0; i < k; i++) printf("m %d 64\n", i);
        switch ((c / extras.size()) % 4)
        {
        case 0: printf("m %d 0\nm %d 0\nr %d 65\n", k, k + 1, k - 1); break;
        case 1: printf("r %d 65\nm %d 0\nr %d 129\n", k - 1, k, k - 1); break;
        case 2: printf("m %d 64\nm %d 0\nm %d 1\n", k, k + 1, k + 2); break;
        default: printf("r %d 129\nr %d 65\nm %d 64\nm %d 0\n", k - 1, k - 1, k, k + 1); break;
        }
        std::vector<int> sl;
        for (int i = 0; i < k + 3; i++) sl.push_back(i);
        while (!sl.empty())
        {
            size_t i = (size_t)r.below(sl.size());
            printf("f %d\n", sl[i]);
            sl.erase(sl.begin() + i);
        }
    }
}

// realloc chains: one or two blocks grown and shrunk repeatedly between neighbours
static void gen_heap_chains(rng &r, int ncases)
{
    for (int c = 0; c < ncases; c++)
    {
        printf("reset heap %d\n", c % 7 == 6 ? (int)r.range(300, 3000) : 0);
        HGen g(r, 90);
        int k = (int)r.range(1, 6);
        for (int i = 0; i < k; i++) g.m(pick_size(r));
        // punch holes so that neighbours are free
        for (int i = 0; i < k / 2; i++)
            if (g.live.size() > 1) g.f_at((size_t)r.below(g.live.size()));
        int steps = (int)r.range(5, 40);
        size_t cur = pick_size(r);
        for (int i = 0; i < steps; i++)
        {
            unsigned kk = (unsigned)r.below(10);
            if (kk < 3) cur = cur + (size_t)r.range(1, 200);
            else if (kk < 6) cur = cur > 0 ? (size_t)r.below(cur + 1) : 0;
            else cur = pick_size(r);
            if (g.live.empty()) g.m(cur);
            else g.rr((size_t)r.below(g.live.size()), cur);
            if (r.chance(15) && (int)g.live.size() < 8) g.m(pick_size(r));
            if (r.chance(15) && g.live.size() > 1) g.f_at((size_t)r.below(g.live.size()));
        }
        g.free_all((int)r.below(3));
    }
}

// Targeted families (history shapes where an off-by-one in a size test, a wrong predecessor or a lost link shows):
//  0 a free chunk of an exactly chosen size (k coalesced 8-byte chunks [+ a 64-byte one]: every multiple of 8),
//    then requests that fit exactly / leave 8, 16, 24, 32 bytes (exact fit, whole chunk, smallest split)
//  1 realloc growing into the upper neighbour: neighbour exactly fitting, 8 bytes short, 8/16/24/32 bytes spare
//  2 3-way coalescing: adjacent blocks between guards freed in every order, several free chunks around
//  3 lowering the break with a free chunk right below the top block and holes further down
//  4 realloc shrinking next to a free chunk / at the top (the split-off tail merges up / lowers the break)
//  5 best fit among several candidates (first candidate not the smallest), whole-chunk and split variants
static void gen_heap_targeted(rng &r, int ncases)
{
    static const std::vector<size_t> grow = {1, 64, 65, 128, 129, 192, 193, 256};
    for (int c = 0; c < ncases; c++)
    {
        int fam = c % 6;
        size_t lim = c % 13 == 12 ? (size_t)r.range(700, 2600) : 0;
        printf("reset heap %zu\n", lim);
        HGen g(r, 90);
        auto free_slot = [&](int slot) {
            for (size_t i = 0; i < g.live.size(); i++)
                if (g.live[i] == slot)
                {
                    g.f_at(i);
                    return;
                }
        };
        auto idx_of = [&](int slot) -> size_t {
            for (size_t i = 0; i < g.live.size(); i++)
                if (g.live[i] == slot) return i;
            return 0;
        };
        auto shuffled = [&](std::vector<int> v) {
            for (size_t i = v.size(); i > 1; i--) std::swap(v[i - 1], v[(size_t)r.below(i)]);
            return v;
        };
        // k zero-size blocks (8-byte chunks) with an optional 64-byte block among them: returns their slots
        auto small_run = [&](int k, bool with64) {
            std::vector<int> sl;
            int pos64 = with64 ? (int)r.below((uint64_t)k + 1) : -1;
            for (int i = 0; i <= k; i++)
            {
                if (i == pos64)
                {
                    sl.push_back(g.next_slot);
                    g.m(64);
                }
                if (i < k)
                {
                    sl.push_back(g.next_slot);
                    g.m(r.chance(80) ? 0 : 8);
                }
            }
            return sl;
        };
        switch (fam)
        {
        case 0:
        {
            if (r.chance(60)) g.m(pick_size(r));
            std::vector<int> run = small_run((int)r.range(1, 10), r.chance(40));
            if (r.chance(85)) g.m(pick_size(r)); // guard above (without it the run ends at the break)
            for (int sl : shuffled(run)) free_slot(sl);
            for (int i = 0, n = (int)r.range(1, 4); i < n; i++) g.m(r.pick(grow) - (r.chance(30) ? 1 : 0));
            break;
        }
        case 1:
        {
            if (r.chance(50)) g.m(pick_size(r));
            int a = g.next_slot;
            g.m(r.chance(50) ? 0 : r.chance(50) ? 64 : 128);
            std::vector<int> run = small_run((int)r.range(1, 12), r.chance(35));
            bool guard = r.chance(80);
            if (guard) g.m(pick_size(r));
            if (r.chance(30)) g.m(0);
            for (int sl : shuffled(run)) free_slot(sl);
            g.rr(idx_of(a), r.pick(grow));
            if (r.chance(60)) g.rr(idx_of(a), r.pick(grow));
            if (r.chance(40)) g.m(r.pick(grow));
            if (r.chance(40)) g.rr(idx_of(a), (size_t)r.below(70));
            break;
        }
        case 2:
        {
            int groups = (int)r.range(1, 3);
            std::vector<std::vector<int>> gs;
            g.m(pick_size(r));
            for (int k = 0; k < groups; k++)
            {
                std::vector<int> grp;
                for (int i = 0, n = (int)r.range(3, 4); i < n; i++)
                {
                    grp.push_back(g.next_slot);
                    g.m(pick_size(r));
                }
                gs.push_back(grp);
                g.m(pick_size(r)); // guard between the groups
            }
            std::vector<int> all;
            for (auto &grp : gs)
                for (int sl : grp) all.push_back(sl);
            for (int sl : shuffled(all)) free_slot(sl);
            for (int i = 0; i < 2; i++) g.m(r.pick(grow));
            break;
        }
        case 3:
        {
            int n = (int)r.range(4, 9);
            std::vector<int> sl;
            for (int i = 0; i < n; i++)
            {
                sl.push_back(g.next_slot);
                g.m(r.chance(50) ? 0 : pick_size(r));
            }
            // holes further down, then the block below the top, then the top block
            for (int i = 0; i + 3 < n; i++)
                if (r.chance(45)) free_slot(sl[(size_t)i]);
            if (r.chance(80)) free_slot(sl[(size_t)n - 2]);
            free_slot(sl[(size_t)n - 1]);
            if (r.chance(50)) free_slot(sl[(size_t)n - 3]); // now adjacent to the lowered break
            g.m(r.pick(grow));
            if (r.chance(50) && !g.live.empty()) g.f_at(g.live.size() - 1);
            break;
        }
        case 4:
        {
            int a = g.next_slot;
            g.m(r.pick(grow) + 64);
            int b = g.next_slot;
            g.m(r.chance(50) ? 0 : pick_size(r));
            int cc = g.next_slot;
            g.m(r.pick(grow) + 128);
            if (r.chance(60)) free_slot(b);
            g.rr(idx_of(a), r.chance(50) ? 0 : (size_t)r.below(70));  // tail merges with the chunk of b (or not)
            g.rr(idx_of(cc), r.chance(50) ? 0 : (size_t)r.below(130)); // tail is the topmost chunk: break lowered
            if (r.chance(50)) g.rr(idx_of(cc), r.pick(grow) + 200);    // and up again
            if (r.chance(50)) g.rr(idx_of(a), r.pick(grow) + 64);      // grow back into its own tail
            break;
        }
        default:
        {
            // several free chunks of different sizes in random address order, then requests that are
            // served from the smallest fitting one (not the first candidate)
            std::vector<int> holes;
            int n = (int)r.range(2, 5);
            for (int i = 0; i < n; i++)
            {
                size_t sz = r.pick(grow) + (size_t)r.below(3) * 64;
                if (r.chance(40))
                {
                    std::vector<int> run = small_run((int)r.range(1, 4), true);
                    for (int sl : run) holes.push_back(sl);
                }
                else
                {
                    holes.push_back(g.next_slot);
                    g.m(sz);
                }
                g.m(r.chance(50) ? 0 : 64); // guard
            }
            for (int sl : shuffled(holes)) free_slot(sl);
            for (int i = 0, k = (int)r.range(2, 5); i < k; i++) g.m(r.pick(grow));
            break;
        }
        }
        g.free_all((int)r.below(3));
    }
}

// requests close to SIZE_MAX: rounding the request up to a multiple of __WORDSIZE wraps around
static void gen_heap_huge(rng &r, int ncases)
{
    for (int c = 0; c < ncases; c++)
    {
        size_t lim = c % 2 ? (size_t)r.range(300, 3000) : 0;
        printf("reset heap %zu\n", lim);
        HGen g(r, 90);
        auto huge = [&]() -> size_t {
            unsigned k = (unsigned)r.below(4);
            if (k == 0) return SIZE_MAX - (size_t)r.below(64);           // rounding wraps (or is exact: SIZE_MAX - 63)
            if (k == 1) return SIZE_MAX - 63 - (size_t)r.below(130);     // around the first representable size
            if (k == 2) return SIZE_MAX - (size_t)r.below(3);
            return (SIZE_MAX / 2 + 1) + (size_t)r.range(-70, 70);
        };
        for (int i = 0, n = (int)r.range(0, 4); i < n; i++) g.m(pick_size(r));
        if (g.live.size() > 1 && r.chance(50)) g.f_at((size_t)r.below(g.live.size() - 1));
        for (int i = 0, n = (int)r.range(2, 6); i < n; i++)
        {
            unsigned k = (unsigned)r.below(3);
            // when a heap end is configured every huge request must fail; without one only the unrepresentable ones do
            size_t h = huge();
            if (!lim) h = SIZE_MAX - (size_t)r.below(63);
            // realloc computes ptr + len before anything else: keep that sum below 2^64 (the `cp < cp1` test of the
            // code relies on pointer wrap-around, which UBSan reports; address wrap-around is outside the model)
            size_t hr = r.chance(50) ? SIZE_MAX - (size_t)r.below(63) : lim ? (SIZE_MAX / 4 + 1) + (size_t)r.range(-70, 70) : h;
            if (k == 0) printf("m %d %zu\n", 2000 + i, h); // slot stays empty when it fails
            else if (k == 1 && !g.live.empty()) g.rr((size_t)r.below(g.live.size()), hr);
            else printf("r %d %zu\n", 3000 + i, h); // realloc(NULL, huge)
            if (r.chance(50)) g.m(pick_size(r));
        }
        for (int i = 0; i < 6; i++) printf("f %d\nf %d\n", 2000 + i, 3000 + i);
        g.free_all((int)r.below(3));
    }
}

// ADDRESS wrap-around without a heap end: requests so large that the new chunk (malloc step 3, the move path of
// realloc) or `ptr + len` (realloc) would cross the top of the 64-bit address space.  All must be refused with the
// heap unchanged; the history then goes on (a wrapped break would make later blocks overlap live ones).
// Sizes are >= 2^64 - 2^32: the verdict is the same for every arena address in [2^32, 2^47).
static void gen_heap_addrwrap(rng &r, int ncases)
{
    auto wrapsz = [&]() -> size_t {
        unsigned k = (unsigned)r.below(5);
        if (k == 0) return SIZE_MAX - 63 - 64 * (size_t)r.below(4);          // the largest representable requests
        if (k == 1) return SIZE_MAX - 63 - 64 * (size_t)r.below(1u << 20);
        if (k == 2) return SIZE_MAX - (size_t)r.below(1ull << 31);             // any residue (most need rounding)
        if (k == 3) return SIZE_MAX - 63 - 8;                                   // rounds to SIZE_MAX - 63
        return SIZE_MAX - (1ull << 32) + 1 + (size_t)r.below(1ull << 31);
    };
    for (int c = 0; c < ncases; c++)
    {
        printf("reset heap 0%s\n", c % 4 == 3 ? " rel" : "");
        HGen g(r, 90);
        for (int i = 0, n = (int)r.range(0, 5); i < n; i++) g.m(pick_size(r));
        if (g.live.size() > 1 && r.chance(60)) g.f_at((size_t)r.below(g.live.size() - 1)); // a free chunk: step 1/2 cannot serve the request
        for (int i = 0, n = (int)r.range(2, 7); i < n; i++)
        {
            unsigned k = (unsigned)r.below(4);
            if (k == 0) printf("m %d %zu\n", 2000 + i, wrapsz());              // refused: slot stays empty
            else if (k == 1 && !g.live.empty()) g.rr((size_t)r.below(g.live.size()), wrapsz()); // ptr + len wraps
            else if (k == 2) printf("r %d %zu\n", 3000 + i, wrapsz());         // realloc(NULL, huge)
            else g.m(pick_size(r));
            if (r.chance(40)) g.m(pick_size(r));
            if (r.chance(25) && g.live.size() > 1) g.f_at((size_t)r.below(g.live.size()));
        }
        for (int i = 0; i < 7; i++) printf("f %d\nf %d\n", 2000 + i, 3000 + i);
        g.free_all((int)r.below(3));
    }
}

// "memory is not lost": in an arena with a heap end, after ANY history whose blocks are all freed in ANY order the
// heap is back in its initial state, so the largest request the arena can hold succeeds again (and one word more fails)
static void gen_heap_maxalloc(rng &r, int ncases)
{
    for (int c = 0; c < ncases; c++)
    {
        size_t lim = 72 + 64 * (size_t)r.range(1, 60) + (c % 3 == 0 ? (size_t)r.below(64) : 0);
        printf("reset heap %zu\n", lim);
        HGen g(r, 90);
        size_t maxreq = (lim - 8) / 64 * 64;
        if (c % 5 == 0) printf("m 900 %zu\nf 900\n", maxreq);
        for (int i = 0, n = (int)r.range(3, 40); i < n; i++)
        {
            unsigned k = (unsigned)r.below(100);
            if (g.live.empty() || (k < 50 && (int)g.live.size() < g.max_live)) g.m((size_t)r.below(lim / 4 + 2));
            else if (k < 80) g.f_at((size_t)r.below(g.live.size()));
            else g.rr((size_t)r.below(g.live.size()), (size_t)r.below(lim / 3 + 2));
        }
        // slots whose malloc failed are NULL for the harness: free(NULL)
        {
            // sizes around 2^16 / 2^31 / 2^32: far beyond the arena, must fail cleanly (a narrowed size computation would not)
            static const std::vector<size_t> wide = {65535, 65536, 65537, 2147483647ull, 2147483648ull, 4294967295ull, 4294967296ull, 4294967297ull, 4294967304ull, 4294967360ull};
            size_t w1 = r.pick(wide), w2 = r.pick(wide);
            if (w1 + 8 > lim) printf("m 904 %zu\nf 904\n", w1);
            if (w2 + 8 > lim && !g.live.empty()) g.rr((size_t)r.below(g.live.size()), w2);
        }
        g.free_all(c % 3);
        printf("m 901 %zu\n", maxreq + 1 + (size_t)r.below(64)); // one word too many: NULL, nothing changes
        printf("m 902 %zu\n", maxreq - (size_t)r.below(64));     // the maximal request: must succeed
        printf("r 902 %zu\nr 902 %zu\nf 902\nf 901\n", (size_t)r.below(maxreq + 1), maxreq);
        printf("m 903 %zu\nf 903\n", maxreq);
    }
}

// long inputs / boundary sizes: blocks of 255..257, 65535..65537 and >= 300 KiB bytes (the move path copies them),
// in the 1 MiB static arena
static void gen_heap_big(rng &r, int ncases)
{
    static const std::vector<size_t> big = {255, 256, 257, 4095, 4096, 4097, 65535, 65536, 65537, 307200, 310000};
    for (int c = 0; c < ncases; c++)
    {
        printf("reset heap 0%s\n", c % 2 ? " rel" : "");
        HGen g(r, 90);
        size_t a = big[(size_t)c % big.size()];
        g.m(a);
        g.m(r.pick(big) % 70000);
        g.rr(0, a + (size_t)r.range(1, 70000)); // blocked by the block above: malloc + memcpy of `a` bytes + free
        g.m(a / 2);                              // reuses the hole (split)
        g.rr(0, a);                              // shrink-split of the moved block
        if (c % 3 == 0) g.rr(0, 307200 + (size_t)r.below(1000));
        g.free_all((int)r.below(3));
    }
}

// every history of exactly `depth` requests over the size alphabet `al`,
// followed by the release of whatever is still live (ascending or descending)
static long gen_heap_exhaustive(const std::vector<size_t> &al, int depth, bool with_realloc, long part, long nparts)
{
    struct Step
    {
        char op;
        int slot;
        size_t n;
    };
    std::vector<Step> hist;
    long count = 0, idx = 0;
    std::function<void(std::vector<int> &, int)> rec = [&](std::vector<int> &live, int next) {
        if ((int)hist.size() == depth)
        {
            if (idx++ % nparts != part) return;
            count++;
            puts("reset heap 0");
            for (auto &st : hist)
            {
                if (st.op == 'f') printf("f %d\n", st.slot);
                else printf("%c %d %zu\n", st.op, st.slot, st.n);
            }
            std::vector<int> l = live;
            if (idx % 2) std::reverse(l.begin(), l.end());
            for (int sl : l) printf("f %d\n", sl);
            return;
        }
        for (size_t n : al)
        {
            hist.push_back({'m', next, n});
            live.push_back(next);
            rec(live, next + 1);
            live.pop_back();
            hist.pop_back();
        }
        for (size_t i = 0; i < live.size(); i++)
        {
            int sl = live[i];
            hist.push_back({'f', sl, 0});
            live.erase(live.begin() + i);
            rec(live, next);
            live.insert(live.begin() + i, sl);
            hist.pop_back();
        }
        if (with_realloc)
            for (size_t i = 0; i < live.size(); i++)
                for (size_t n : al)
                {
                    hist.push_back({'r', live[i], n});
                    rec(live, next);
                    hist.pop_back();
                }
    };
    std::vector<int> live;
    rec(live, 0);
    return count;
}

static void gen_pool_case(rng &r, bool ip, size_t e, size_t cap)
{
    printf("reset %s %zu %zu\n", ip ? "ipool" : "pool", e, cap);
    const char *A = ip ? "g" : "a";
    const char *F = ip ? "p" : "f";
    // the generator mirrors the LIFO discipline of the free list to know which
    // offsets are live (the harness oracle does not rely on it)
    std::vector<size_t> freel, live;
    for (size_t i = 0; i < cap; i++) freel.push_back(i * e); // back() = list head
    if (ip) puts("sz");
    auto alloc = [&]() {
        puts(A);
        if (!freel.empty())
        {
            live.push_back(freel.back());
            freel.pop_back();
        }
    };
    auto rel = [&](size_t i) {
        printf("%s %zu\n", F, live[i]);
        freel.push_back(live[i]);
        live.erase(live.begin() + i);
    };
    auto probes = [&]() {
        if (ip)
        {
            puts("it");
            printf("ca %ld\n", (long)r.range(-2, (long)cap + 1));
            if (r.chance(30)) puts("p null");
        }
        else
            printf("in %zu\n", (size_t)r.below(cap) * e);
    };
    // exhaust: capacity allocations succeed, then null (twice)
    for (size_t i = 0; i < cap + 2; i++) alloc();
    probes();
    int order = (int)r.below(3);
    size_t keep = r.below(live.size() + 1);
    while (live.size() > keep) rel(order == 0 ? live.size() - 1 : order == 1 ? 0 : (size_t)r.below(live.size()));
    probes();
    // random interleaving
    int n = (int)r.range(5, 40);
    for (int i = 0; i < n; i++)
    {
        if (live.empty() || r.chance(55)) alloc();
        else rel((size_t)r.below(live.size()));
        if (r.chance(20)) probes();
    }
    while (!live.empty()) rel((size_t)r.below(live.size()));
    probes();
    for (size_t i = 0; i < cap + 1; i++) alloc();
    probes();
}

// one igris::pool object initialised again and again with other zones / element sizes / capacities, each time in
// a different state (exhausted, partly handed out, everything returned)
static void gen_ipool_reinit(rng &r)
{
    size_t e = 8 * (size_t)r.range(1, 8), cap = (size_t)r.range(1, 20);
    printf("reset ipool %zu %zu\n", e, cap);
    for (int round = 0; round < 4; round++)
    {
        std::vector<size_t> freel, live;
        for (size_t i = 0; i < cap; i++) freel.push_back(i * e);
        size_t want = round == 0 ? cap + 1 : (size_t)r.below(cap + 2);
        for (size_t i = 0; i < want; i++)
        {
            puts("g");
            if (!freel.empty())
            {
                live.push_back(freel.back());
                freel.pop_back();
            }
        }
        for (size_t i = 0, n = r.below(live.size() + 1); i < n; i++)
        {
            size_t j = (size_t)r.below(live.size());
            printf("p %zu\n", live[j]);
            freel.push_back(live[j]);
            live.erase(live.begin() + j);
        }
        puts("it");
        e = 8 * (size_t)r.range(1, 8);
        cap = (size_t)r.range(1, 20);
        printf("ri %zu %zu\nsz\n", e, cap);
    }
    for (size_t i = 0; i < cap + 1; i++) puts("g");
    puts("it");
}

// realloc in every neighbour configuration: blocks A B C [D]; B is reallocated with the chunk below (A) and / or
// above (C) free, with C a guard, or with B the topmost chunk; growth by less than / exactly / more than what the
// free neighbour above offers, and shrinks; then everything is released in a random order
static void gen_heap_neighbours(rng &r, int ncases)
{
    static const std::vector<size_t> szs = {0, 64, 128, 192, 256};
    for (int c = 0; c < ncases; c++)
    {
        size_t lim = c % 11 == 10 ? (size_t)r.range(900, 3000) : 0;
        printf("reset heap %zu\n", lim);
        HGen g(r, 90);
        int cfgi = c % 8; // bit 0: A free, bit 1: C free, bit 2: no guard D (C or B ends at the break)
        size_t a = r.pick(szs), b = r.pick(szs), cc = r.pick(szs);
        if (r.chance(50)) g.m(r.pick(szs)); // something below A
        int A = g.next_slot; g.m(a);
        int B = g.next_slot; g.m(b);
        int C = -1;
        bool top = (cfgi & 4) && r.chance(50); // B itself is the topmost chunk
        if (!top) { C = g.next_slot; g.m(cc); }
        if (!(cfgi & 4)) g.m(r.pick(szs)); // guard D
        auto idx = [&](int slot) -> size_t { for (size_t i = 0; i < g.live.size(); i++) if (g.live[i] == slot) return i; return 0; };
        if (cfgi & 1) g.f_at(idx(A));
        if ((cfgi & 2) && C >= 0) g.f_at(idx(C));
        size_t cur = b < 8 ? 8 : b, room = (cfgi & 2) && C >= 0 ? (cc < 8 ? 8 : cc) + 8 : 0;
        for (int i = 0, n = (int)r.range(1, 4); i < n; i++)
        {
            unsigned k = (unsigned)r.below(6);
            size_t want = k == 0 ? cur + room : k == 1 ? cur + room + 1 : k == 2 ? (cur + room >= 8 ? cur + room - 8 : 0) : k == 3 ? cur / 2 : k == 4 ? cur + 64 : (size_t)r.below(400);
            g.rr(idx(B), want);
        }
        g.free_all((int)r.below(3));
    }
}

// one pool_head, 1..4 zones of different sizes engaged at arbitrary points of the history
// (shape 0: random; 1: all zones back to back, then exhaust; 2: exhaust, engage onto the drained pool,
//  free some, engage onto a non-empty list; 3: alloc/free a little, then engage), interleaved with alloc/free.
static void gen_mpool_case(rng &r, int shape, bool mixed_elemsz)
{
    puts("reset mpool");
    size_t nz = (size_t)r.range(1, 4);
    if (shape && nz < 2) nz = 2;
    size_t e0 = 8 * (size_t)r.range(1, 8);
    std::vector<std::pair<size_t, size_t>> zs; // cells, elemsz
    for (size_t k = 0; k < nz; k++)
    {
        size_t n = r.chance(8) ? 0 : (size_t)r.range(1, r.chance(20) ? 33 : 9);
        zs.push_back({n, mixed_elemsz ? 8 * (size_t)r.range(1, 8) : e0});
    }
    // the generator mirrors the LIFO discipline of the free list to know which cells are live
    std::vector<std::pair<size_t, size_t>> freel, live;
    size_t engaged = 0, cap = 0;
    auto engage = [&]() {
        if (engaged >= nz) return;
        printf("z %zu %zu\n", zs[engaged].first, zs[engaged].second);
        for (size_t i = 0; i < zs[engaged].first; i++) freel.push_back({engaged, i * zs[engaged].second});
        cap += zs[engaged].first;
        engaged++;
    };
    auto alloc = [&]() {
        puts("a");
        if (!freel.empty())
        {
            live.push_back(freel.back());
            freel.pop_back();
        }
    };
    auto rel = [&](size_t i) {
        printf("f %zu %zu\n", live[i].first, live[i].second);
        freel.push_back(live[i]);
        live.erase(live.begin() + i);
    };
    auto probe = [&]() {
        if (!engaged) return;
        size_t k = (size_t)r.below(engaged);
        if (zs[k].first) printf("in %zu %zu\n", k, (size_t)r.below(zs[k].first) * zs[k].second);
    };
    auto exhaust = [&]() {
        size_t todo = freel.size() + 2;
        for (size_t i = 0; i < todo; i++) alloc();
    };
    auto rel_some = [&]() {
        int order = (int)r.below(3);
        size_t keep = r.below(live.size() + 1);
        while (live.size() > keep) rel(order == 0 ? live.size() - 1 : order == 1 ? 0 : (size_t)r.below(live.size()));
    };
    switch (shape)
    {
    case 1:
        while (engaged < nz) engage();
        exhaust();
        probe();
        rel_some();
        break;
    case 2:
        engage();
        exhaust();
        engage(); // onto a drained pool
        exhaust();
        rel_some();
        probe();
        while (engaged < nz)
        {
            engage(); // onto a list that holds freed cells
            if (r.chance(50)) alloc();
        }
        exhaust();
        break;
    case 3:
        engage();
        for (int i = 0, n = (int)r.range(1, 6); i < n; i++) alloc();
        if (!live.empty()) rel((size_t)r.below(live.size()));
        if (!live.empty() && r.chance(50)) rel((size_t)r.below(live.size()));
        while (engaged < nz)
        {
            engage();
            if (r.chance(60)) alloc();
            if (!live.empty() && r.chance(60)) rel((size_t)r.below(live.size()));
        }
        exhaust();
        break;
    default:
        if (r.chance(70)) engage();
        break;
    }
    int n = (int)r.range(8, 50);
    for (int i = 0; i < n; i++)
    {
        unsigned k = (unsigned)r.below(100);
        if (engaged < nz && k < 12) engage();
        else if (live.empty() || k < 60) alloc();
        else rel((size_t)r.below(live.size()));
        if (r.chance(15)) probe();
    }
    while (engaged < nz) engage();
    // everything back, then exactly the capacity (the sum over all zones) must be handed out again
    while (!live.empty()) rel((size_t)r.below(live.size()));
    for (size_t i = 0; i < cap + 1; i++) alloc();
    probe();
}

// the three twins on one history, cells named by request slots (no assumption on which cell is handed out)
static void gen_tri_case(rng &r, size_t idx)
{
    size_t cap = sop_kinds[idx].cap;
    printf("reset tri %zu\n", idx);
    std::vector<int> live;
    int next = 0;
    auto alloc = [&]() {
        printf("a %d\n", next);
        if (live.size() < cap) live.push_back(next);
        next++;
    };
    auto rel = [&](size_t i) {
        printf("f %d\n", live[i]);
        live.erase(live.begin() + i);
    };
    for (size_t i = 0; i < cap + 2; i++) alloc(); // exactly the capacity, then null twice
    printf("f %d\n", next - 1);                   // a slot that holds NULL
    int order = (int)r.below(3);
    size_t keep = r.below(live.size() + 1);
    while (live.size() > keep) rel(order == 0 ? live.size() - 1 : order == 1 ? 0 : (size_t)r.below(live.size()));
    for (int i = 0, n = (int)r.range(5, 40); i < n; i++)
    {
        if (live.empty() || r.chance(55)) alloc();
        else rel((size_t)r.below(live.size()));
    }
    while (!live.empty()) rel((size_t)r.below(live.size()));
    for (size_t i = 0; i < cap + 1; i++) alloc();
    while (!live.empty()) rel(live.size() - 1); // destroy everything: the harness deletes the pool afterwards
}

static void gen_sop_case(rng &r, const SopKind &k, bool extra_zones = false)
{
    printf("reset sop %zu %zu %zu\n", k.sz, k.al, k.cap);
    size_t al = std::max(k.al, (size_t)8);
    size_t st = (std::max(k.sz, (size_t)8) + al - 1) / al * al;
    std::vector<std::pair<size_t, size_t>> freel, live; // (zone, offset)
    for (size_t i = 0; i < k.cap; i++) freel.push_back({0, i * st});
    size_t nzones = 1, cap = k.cap;
    auto create = [&]() {
        puts("c");
        if (!freel.empty())
        {
            live.push_back(freel.back());
            freel.pop_back();
        }
    };
    auto destroy = [&](size_t i) {
        if (live[i].first) printf("d %zu %zu\n", live[i].first, live[i].second);
        else printf("d %zu\n", live[i].second);
        freel.push_back(live[i]);
        live.erase(live.begin() + i);
    };
    // a further zone handed to the pool through freelist()
    auto engage = [&]() {
        size_t n = r.chance(10) ? 0 : (size_t)r.range(1, 6);
        printf("x %zu\n", n);
        for (size_t i = 0; i < n; i++) freel.push_back({nzones, i * st});
        nzones++;
        cap += n;
    };
    if (extra_zones && r.chance(30)) engage(); // onto the full list of the fresh pool
    for (size_t i = 0; i < cap + 1; i++) create();
    int n = (int)r.range(5, 60);
    for (int i = 0; i < n; i++)
    {
        if (extra_zones && nzones < 4 && r.chance(8)) engage();
        else if (live.empty() || r.chance(50)) create();
        else destroy((size_t)r.below(live.size()));
    }
    while (!live.empty()) destroy((size_t)r.below(live.size()));
    if (extra_zones && nzones < 4) engage();
    for (size_t i = 0; i < cap + 1; i++) create();
    // destroy everything: the harness deletes the pool afterwards
    while (!live.empty()) destroy(live.size() - 1);
}

static void gen(rng &r, const std::string &tier)
{
    bool th = tier == "thorough";
    puts("consts");
    puts("consts2");
    puts("early");
    puts("reset crit m\nreset crit f\nreset crit r");
    // ---- pools: element sizes 8..64, capacities 1..33
    for (size_t cap = 1; cap <= 33; cap++)
        for (size_t k = 1; k <= 8; k++)
        {
            if (!th && k != 1 + (cap + g_seed) % 8) continue;
            gen_pool_case(r, false, 8 * k, cap);
            gen_pool_case(r, true, 8 * k, cap);
        }
    for (int i = 0; i < (th ? 60 : 12); i++)
    {
        gen_pool_case(r, i % 2, 8 * (size_t)r.range(1, 8), (size_t)r.range(1, 33));
    }
    // capacities around 2^8 (igris::pool: `int _count`, iterator index `int _num`), and one pool of 2^16 + 1 cells
    for (size_t cap : {255, 256, 257})
        if (th || cap == 255 + g_seed % 3) gen_pool_case(r, true, 8, cap);
    if (th) gen_pool_case(r, false, 8, 256);
    puts("reset ipool 8 65537\nsz\ng\ng\nca 65536\nca 65535\nca 65537\nca 0\np 524288\ng\np 524288\np 524280\nsz");
    // element sizes that are not a multiple of the pointer size (the link is then stored
    // misaligned, which the host tolerates): arena and capacity clauses still apply
    for (size_t e : {12, 20, 28, 36, 44})
        for (size_t cap : {1, 3, 4, 7})
            if (th || (e / 4 + cap + g_seed) % 3 == 0)
                gen_pool_case(r, (e / 4 + cap) % 2, e, cap);
    // element sizes smaller than the link / zones that are not whole cells must be refused (asserts)
    for (size_t e : {0, 1, 2, 4, 7})
        for (size_t size : {8, 16, 28})
            if (th || (e + size + g_seed) % 3 == 0) printf("reset poolx %zu %zu\n", e, size);
    puts("reset poolx 16 40\nreset poolx 24 100\nreset poolx 8 64\nreset poolx 16 48\nreset poolx 9 27\nreset poolx 8 0");
    for (int i = 0; i < (th ? 40 : 6); i++) gen_ipool_reinit(r);
    // a default-constructed igris::pool (no zone): every query must answer "empty"
    puts("reset ipool0\ng\nsz\nca 0\nit\np null\ng\nca -1\nsz");
    for (auto &k : sop_kinds)
        for (int i = 0; i < (th ? 4 : 1); i++) gen_sop_case(r, k);
    // object pools extended by further zones through freelist()
    for (auto &k : sop_kinds)
        for (int i = 0; i < (th ? 4 : 1); i++) gen_sop_case(r, k, true);
    // ---- pool_head, igris::pool and static_object_pool on the same histories
    for (size_t idx = 0; idx < sop_kinds.size(); idx++)
        for (int i = 0; i < (th ? 6 : 1); i++) gen_tri_case(r, idx);
    // ---- one pool fed from 1..4 zones engaged at arbitrary points of the history
    for (int i = 0; i < (th ? 1200 : 160); i++) gen_mpool_case(r, i % 4, i % 5 == 4);
    // ---- heap: exhaustive short histories over a 4-size alphabet
    // (rounded to 8, 64, 128, 256 bytes; merged neighbours give 80, 136, … so
    //  that exact fit, whole-chunk fit with an 8 byte rest and splits all occur)
    const std::vector<size_t> al = {0, 64, 128, 200};
    long part = th ? (long)(g_seed % 8) : 0, nparts = th ? 8 : 1;
    // seed-derived partition in the thorough tier (8 derived seeds run in parallel)
    if (th)
    {
        gen_heap_exhaustive(al, 6, false, part, nparts);
        gen_heap_exhaustive(al, 5, true, part, nparts);
    }
    else
    {
        gen_heap_exhaustive(al, 5, false, 0, 1);
        gen_heap_exhaustive(al, 4, true, 0, 1);
        // a random 1/16 sample of the depth-6 malloc/free histories
        gen_heap_exhaustive(al, 6, false, (long)r.below(16), 16);
    }
    for (int d = 1; d <= 3; d++) gen_heap_exhaustive(al, d, true, 0, 1);
    // ---- heap: random histories, realloc chains
    gen_heap_random(r, th ? 400 : 60, th ? 300 : 150);
    gen_heap_chains(r, th ? 600 : 120);
    gen_heap_targeted(r, th ? 3000 : 360);
    gen_heap_huge(r, th ? 200 : 40);
    gen_heap_brim(r, th ? 360 : 72);
    gen_heap_neighbours(r, th ? 1600 : 240);
    gen_heap_addrwrap(r, th ? 300 : 60);
    gen_heap_maxalloc(r, th ? 400 : 60);
    gen_heap_big(r, th ? 44 : 11);
    // probes of the two recorded findings (excluded from the diff, expected to fail the oracle)
    for (int i = 0; i < 3; i++)
    {
        puts("reset heap 0");
        printf("m 0 %zu\n", (size_t)r.below(2000));
        printf("@F:C10-heap-arena-unbounded-by-default mx 1 %zu\n", STATIC_ARENA + (size_t)r.below(1u << 20));
        puts("m 2 64\nf 0\nf 2");
        puts("reset heap 0");
        puts("m 0 1");
        puts("@F:C10-heap-align-max-align-t al 0");
        puts("f 0");
    }
    // the release build (NDEBUG): histories with up to 400 live blocks
    gen_heap_random(r, th ? 40 : 8, th ? 1500 : 600, true);
}

int main(int argc, char **argv)
{
    if (argc >= 3) g_seed = strtoull(argv[2], 0, 10);
    return main_(argc, argv, gen, run_op);
}
