// C10 harness: the igris allocators against the Lean model (IgrisModel/C10).
//
//   pools  igris/datastruct/pool.h, igris/container/pool.h,
//          igris/container/static_object_pool.h (header only, asserts enabled)
//   heap   compat/mem/lin_malloc.cpp + lin_realloc.cpp, linked in through
//          C10_malloc.cpp / C10_realloc.cpp as igv_malloc/igv_free/igv_realloc
//
// Result line (compared with the model): the returned offset, the counters the
// API exposes and, for the heap, the break, the free list as the code links it
// and the `sz` header of every live block.  Oracle (independent of the model):
// a shadow map of live blocks with fill patterns.
#include "common/hv.h"
#include "C10_shared.h"
#include <map>
#include <fcntl.h>
#include <sys/wait.h>
#include <climits>
#include <csignal>
#include <set>
#include <memory>
#include <algorithm>
#include <functional>
#include <array>
#include <type_traits>
#include <cstddef>
#include <igris/datastruct/pool.h>
#include <igris/container/pool.h>
#include <igris/container/static_object_pool.h>
#include <compat/mem/lin_malloc.h>
#include <bits/wordsize.h>

using namespace hv;

static_assert(sizeof(size_t) == 8 && sizeof(void *) == 8, "LP64 host assumed by the model");
static_assert(sizeof(struct __freelist) == 16, "struct __freelist layout assumed by the model");
static_assert(sizeof(struct slist_head) == 8, "slist_head layout assumed by the model");

uint64_t g_seed = 1;


// ================================================================ pools
struct PoolCase
{
    size_t e = 0, cap = 0;
    std::unique_ptr<exact_buf> zone;
    std::vector<std::unique_ptr<exact_buf>> old_zones; // zones of earlier init() calls on the same object (kept mapped)
    pool_head head;
    igris::pool ip;
    bool is_ip = false;
    std::map<size_t, uint64_t> live; // offset -> pattern seed
    uint64_t ctr = 1;
    // NAMES.  The property does not say WHICH free cell an allocation returns.  Ops and result lines therefore name
    // cells not by their real address but by the cell a reference LIFO discipline (the model's, mirrored by the
    // generator) would hand out at that point of the history; the harness binds each name to the real cell the code
    // returned.  Everything about the real cell (zone, boundary, alignment, overlap, contents) is judged by the oracle.
    std::vector<size_t> name_free;  // names not handed out, back() = next one
    std::map<size_t, size_t> bound; // name -> real offset
    void names_init()
    {
        name_free.clear();
        bound.clear();
        for (size_t i = 0; i < cap; i++) name_free.push_back(i * e);
    }
    // the name of the cell just handed out (real offset `off`)
    std::string name_alloc(size_t off)
    {
        if (name_free.empty()) return "?" + std::to_string(off); // more cells than the capacity: the oracle has failed already
        size_t nm = name_free.back();
        name_free.pop_back();
        bound[nm] = off;
        return std::to_string(nm);
    }
    // the real cell behind a name; a name that is not handed out stands for "some free cell": any real free cell
    bool real_of(size_t nm, size_t &off)
    {
        auto it = bound.find(nm);
        if (it != bound.end())
        {
            off = it->second;
            return true;
        }
        for (size_t i = 0; i < cap; i++)
            if (!live.count(i * e))
            {
                off = i * e;
                return true;
            }
        return false;
    }
    void name_release(size_t nm)
    {
        bound.erase(nm);
        name_free.push_back(nm);
    }

    void fill(size_t off)
    {
        uint64_t sd = ctr++;
        live[off] = sd;
        for (size_t i = 0; i < e; i++) zone->p[off + i] = pat(sd, i);
    }
    void check_patterns(out &o)
    {
        for (auto &kv : live)
            for (size_t i = 0; i < e; i++)
                if (zone->p[kv.first + i] != pat(kv.second, i))
                {
                    o.fail("contents of live cell " + s(kv.first) + " changed at byte " + s(i));
                    return;
                }
    }
    // a pointer handed out by the pool: in zone, aligned, not live
    void check_new(void *q, out &o)
    {
        if (q == nullptr)
        {
            if (live.size() != cap) o.fail("null with " + s(live.size()) + " of " + s(cap) + " cells live");
            return;
        }
        if (live.size() >= cap) o.fail("non-null although all " + s(cap) + " cells are live");
        if ((uint8_t *)q < zone->p || (uint8_t *)q + e > zone->p + zone->n)
        {
            o.fail("cell outside the zone");
            return;
        }
        size_t off = (uint8_t *)q - zone->p;
        if (off % e) o.fail("cell offset " + s(off) + " not a multiple of elemsz");
        // cells are aligned for their use when the element size allows it; for an
        // element size that is not a multiple of the pointer size (caller's choice) only
        // the in-zone / non-overlap / capacity clauses are meaningful
        if (e % alignof(void *) == 0 && (uintptr_t)q % alignof(void *)) o.fail("cell misaligned");
        if (e % alignof(void *)) o.tag("elemsz-not-pointer-multiple");
        for (auto &kv : live)
            if (off < kv.first + e && kv.first < off + e) o.fail("cell " + s(off) + " overlaps live cell " + s(kv.first));
        fill(off);
    }
};
static std::unique_ptr<PoolCase> PC;

// ---- one pool_head fed from several zones (pool_engage at arbitrary points of the history)
struct MZone
{
    std::unique_ptr<exact_buf> buf; // exactly sized: ASan sees every access outside the zone
    size_t n, e;
};
struct MPoolCase
{
    pool_head head;
    std::vector<MZone> zones;
    std::map<std::pair<size_t, size_t>, uint64_t> live; // (zone, offset) -> pattern seed
    size_t cap = 0;                                     // sum of the cells of all zones engaged so far
    uint64_t ctr = 1;
    // NAMES (see PoolCase): (zone, offset) of the cell the reference LIFO discipline would hand out
    typedef std::pair<size_t, size_t> Cell;
    std::vector<Cell> name_free;
    std::map<Cell, Cell> bound; // name -> real (zone, offset)
    void names_engage(size_t k, size_t n, size_t e)
    {
        for (size_t i = 0; i < n; i++) name_free.push_back({k, i * e});
    }
    std::string name_alloc(Cell real)
    {
        if (name_free.empty()) return "?" + std::to_string(real.first) + ":" + std::to_string(real.second);
        Cell nm = name_free.back();
        name_free.pop_back();
        bound[nm] = real;
        return std::to_string(nm.first) + ":" + std::to_string(nm.second);
    }
    bool real_of(Cell nm, Cell &real)
    {
        auto it = bound.find(nm);
        if (it != bound.end())
        {
            real = it->second;
            return true;
        }
        for (size_t k = 0; k < zones.size(); k++)
            for (size_t i = 0; i < zones[k].n; i++)
                if (!live.count({k, i * zones[k].e}))
                {
                    real = {k, i * zones[k].e};
                    return true;
                }
        return false;
    }

    // which zone does the pointer point into?  (-1: none)
    long zone_of(const void *q) const
    {
        for (size_t k = 0; k < zones.size(); k++)
            if ((const uint8_t *)q >= zones[k].buf->p && (const uint8_t *)q < zones[k].buf->p + zones[k].n * zones[k].e) return (long)k;
        return -1;
    }
    std::string name(const void *q) const
    {
        if (!q) return "null";
        long k = zone_of(q);
        if (k < 0) return "outside";
        return s(k) + ":" + s((const uint8_t *)q - zones[(size_t)k].buf->p);
    }
    void check_patterns(out &o)
    {
        for (auto &kv : live)
        {
            const MZone &z = zones[kv.first.first];
            for (size_t i = 0; i < z.e; i++)
                if (z.buf->p[kv.first.second + i] != pat(kv.second, i))
                {
                    o.fail("contents of live cell " + s(kv.first.first) + ":" + s(kv.first.second) + " changed at byte " + s(i));
                    return;
                }
        }
    }
    void check_new(void *q, out &o)
    {
        if (q == nullptr)
        {
            if (live.size() != cap) o.fail("null with " + s(live.size()) + " of " + s(cap) + " cells live (capacity = sum of the zones)");
            return;
        }
        if (live.size() >= cap) o.fail("non-null although all " + s(cap) + " cells are live");
        long k = zone_of(q);
        if (k < 0)
        {
            o.fail("cell outside every engaged zone");
            return;
        }
        const MZone &z = zones[(size_t)k];
        size_t off = (uint8_t *)q - z.buf->p;
        if (off % z.e) o.fail("cell offset " + s(off) + " not a multiple of the zone's elemsz");
        if (off + z.e > z.n * z.e) o.fail("cell reaches behind its zone");
        if ((uintptr_t)q % alignof(void *)) o.fail("cell misaligned");
        for (auto &kv : live)
            if (kv.first.first == (size_t)k && off < kv.first.second + z.e && kv.first.second < off + z.e)
                o.fail("cell " + name(q) + " overlaps live cell " + s(k) + ":" + s(kv.first.second));
        uint64_t sd = ctr++;
        live[{(size_t)k, off}] = sd;
        for (size_t i = 0; i < z.e; i++) z.buf->p[off + i] = pat(sd, i);
    }
    // the entries of the free list: by following the links when slist_head still has a member `next`
    // (at most cap + 2 steps), otherwise by asking pool_in_freelist about every cell of every zone
    template <class H> std::vector<slist_head *> fl_entries(H &h)
    {
        std::vector<slist_head *> v;
        if constexpr (requires { h.next->next; })
        {
            for (auto *it = h.next; it != &h && v.size() < cap + 2; it = it->next) v.push_back(it);
        }
        else
        {
            for (auto &z : zones)
                for (size_t i = 0; i < z.n; i++)
                    if (pool_in_freelist(&head, z.buf->p + i * z.e)) v.push_back((slist_head *)(z.buf->p + i * z.e));
        }
        return v;
    }
    // the free list as the code links it: every entry is a cell of a zone, not live, no entry twice,
    // and together with the live cells they are ALL cells of all zones (nothing lost, nothing invented)
    void check_freelist(out &o)
    {
        std::set<std::pair<size_t, size_t>> seen;
        size_t steps = 0;
        // `next` is a field name of slist.h that the property does not name: when it is gone the list is read
        // behaviourally (pool_in_freelist on every cell of every zone: public API), see fl_entries()
        for (slist_head *it : fl_entries(head.free_blocks))
        {
            if (++steps > cap + 1)
            {
                o.fail("free list longer than the capacity (cyclic?)");
                return;
            }
            long k = zone_of(it);
            if (k < 0)
            {
                o.fail("free list entry outside every zone");
                return;
            }
            size_t off = (uint8_t *)it - zones[(size_t)k].buf->p;
            if (off % zones[(size_t)k].e) o.fail("free list entry not on a cell boundary");
            if (live.count({(size_t)k, off})) o.fail("live cell " + s(k) + ":" + s(off) + " is on the free list");
            if (!seen.insert({(size_t)k, off}).second) o.fail("cell twice on the free list");
        }
        if (seen.size() + live.size() != cap)
            o.fail("free cells " + s(seen.size()) + " + live cells " + s(live.size()) + " != capacity " + s(cap) + " (cells lost)");
    }
};
static std::unique_ptr<MPoolCase> MC;

// ---- static_object_pool<T, Cap>
// (the Obj / SopImpl templates and their 16 instantiations: C10_sop.cpp, round 3b)
struct SopCase
{
    std::unique_ptr<SopBase> p;
    std::set<std::pair<size_t, size_t>> live; // (zone, offset); zone 0 = the pool's own storage
    std::vector<std::pair<char *, size_t>> extra; // zones engaged through freelist(): base, cells
    size_t cap = 0;
    // NAMES (see PoolCase): (zone, offset) of the cell the reference LIFO discipline would hand out
    typedef std::pair<size_t, size_t> Cell;
    std::vector<Cell> name_free;
    std::map<Cell, Cell> bound; // name -> real (zone, offset)
    void names_engage(size_t k, size_t n, size_t st)
    {
        for (size_t i = 0; i < n; i++) name_free.push_back({k, i * st});
    }
    ~SopCase()
    {
        p.reset();
        for (auto &z : extra) free(z.first);
    }
    char *zbase(size_t k) { return k == 0 ? p->base() : extra[k - 1].first; }
    size_t zcells(size_t k) { return k == 0 ? p->cap() : extra[k - 1].second; }
    long zone_of(const void *q)
    {
        for (size_t k = 0; k <= extra.size(); k++)
            if ((const char *)q >= zbase(k) && (const char *)q < zbase(k) + zcells(k) * p->storage()) return (long)k;
        return -1;
    }
};
static std::unique_ptr<SopCase> SC;

// ---- the three pool twins (pool_head, igris::pool, static_object_pool) on ONE history.  Cells are named by the
// slot of the request that obtained them, never by address or order: the property does not fix WHICH free cell is
// handed out, so the result line carries only null / non-null and the counters the API exposes; everything about
// the cells themselves (in zone, cell boundary, aligned, not live, contents) is judged by the oracle per twin.
struct TriCase
{
    std::unique_ptr<SopBase> sop;
    size_t e = 0, cap = 0;
    std::unique_ptr<exact_buf> zone[2];
    pool_head head;
    igris::pool ip;
    std::map<int, std::array<char *, 3>> slots;
    std::map<size_t, uint64_t> live[2]; // twin 0 / 1: offset -> pattern seed
    std::set<size_t> live_sop;          // twin 2: offsets of live objects
    uint64_t ctr = 1;
    ~TriCase() { sop.reset(); }
    char *zbase(int t) { return t < 2 ? (char *)zone[t]->p : sop->base(); }
    size_t nlive(int t) { return t < 2 ? live[t].size() : live_sop.size(); }
    // judge a cell handed out by twin t
    void check_new(int t, char *q, out &o)
    {
        std::string who = t == 0 ? "pool_head" : t == 1 ? "igris::pool" : "static_object_pool";
        if (!q)
        {
            if (nlive(t) != cap) o.fail(who + ": null with " + s(nlive(t)) + " of " + s(cap) + " cells live");
            return;
        }
        if (nlive(t) >= cap) o.fail(who + ": non-null although all " + s(cap) + " cells are live");
        if (q < zbase(t) || q + e > zbase(t) + cap * e)
        {
            o.fail(who + ": cell outside the zone");
            return;
        }
        size_t off = (size_t)(q - zbase(t));
        if (off % e) o.fail(who + ": cell not on a cell boundary");
        if ((uintptr_t)q % 8) o.fail(who + ": cell misaligned");
        if (t < 2)
        {
            if (live[t].count(off)) o.fail(who + ": cell " + s(off) + " handed out twice");
            uint64_t sd = ctr++;
            live[t][off] = sd;
            for (size_t i = 0; i < e; i++) q[i] = (char)pat(sd, i);
        }
        else
        {
            if (live_sop.count(off)) o.fail(who + ": cell " + s(off) + " handed out twice");
            if ((uintptr_t)q % sop->alT()) o.fail(who + ": object misaligned for T");
            live_sop.insert(off);
        }
    }
    void check_all(out &o)
    {
        for (int t = 0; t < 2; t++)
            for (auto &kv : live[t])
                for (size_t i = 0; i < e; i++)
                    if ((uint8_t)zbase(t)[kv.first + i] != pat(kv.second, i))
                    {
                        o.fail(std::string(t ? "igris::pool" : "pool_head") + ": contents of live cell " + s(kv.first) + " changed");
                        i = e;
                    }
        for (size_t off : live_sop)
            if (!sop->intact(sop->base() + off)) o.fail("static_object_pool: contents of live object " + s(off) + " changed");
        if (pool_avail(&head) != cap - live[0].size()) o.fail("pool_head: avail != capacity - live");
        if (ip.avail() != cap - live[1].size() || ip.room() != cap - live[1].size()) o.fail("igris::pool: avail / room != capacity - live");
        if (sop->avail() != cap - live_sop.size()) o.fail("static_object_pool: avail != Capacity - live");
        for (size_t i = 0; i < cap; i++)
            if (ip.cell_is_allocated((int)i) != (live[1].count(i * e) != 0)) o.fail("igris::pool: cell_is_allocated(" + s(i) + ") disagrees with the shadow set");
        if (!sop_err.empty()) o.fail("static_object_pool: " + sop_err);
        if (sop_objs.size() != live_sop.size()) o.fail("static_object_pool: constructed objects != live cells");
    }
};
static std::unique_ptr<TriCase> TC;

// ---------------------------------------------------------------- run
template <class It> static size_t iter_index_width(It &it)
{
    if constexpr (requires { it._num; }) return sizeof(it._num);
    else return 0;
}
static void run_op(const std::vector<std::string> &w, const std::string &, out &o)
{
    if (w.empty())
    {
        o.result = "bad-op";
        return;
    }
    const std::string &op = w[0];
    if (op == "consts")
    {
        o.result = "W=" + s(__WORDSIZE) + " szt=" + s(sizeof(size_t)) + " fl=" + s(sizeof(struct __freelist)) + " sl=" + s(sizeof(struct slist_head));
        return;
    }
    if (op == "consts2")
    {
        // widths / alignments the model embeds, read out of the compiled code
        igris::pool ip0;
        auto it0 = ip0.begin();
        struct __freelist fl0;
        // the iterator's index member is an internal name and its width is not fixed by the property: the model
        // needs "at least 32 bits" (capacities < 2^31).  Wider is harmless and is reported as a tag only; narrower
        // is printed and differs from the model; a renamed member degrades to the neutral default.
        size_t idxw = iter_index_width(it0);
        o.tag(("iter-index-width=" + (idxw ? s(idxw) : std::string("unknown"))).c_str());
        o.result = "int=" + s(idxw == 0 || idxw >= 4 ? 4 : idxw) + " ptr=" + s(sizeof(void *)) + " sizemax=" + su(SIZE_MAX) + " hdr=" + s(sizeof(fl0.sz)) +
                   " minchunk=" + s(sizeof(struct __freelist) - sizeof(size_t)) + " align=" + s(alignof(struct __freelist)) +
                   " maxalign=" + s(alignof(max_align_t)) + " nx_off=" + s(offsetof(struct __freelist, nx));
        if (!std::is_same<decltype(ip0.room()), size_t>::value) o.fail("room() is not size_t");
        return;
    }
    if (op == "early")
    {
        c10::heap_early_op(o);
        return;
    }
    if (op == "reset")
    {
        PC.reset();
        MC.reset();
        SC.reset();
        TC.reset();
        c10::heap_drop();
        sop_objs.clear();
        sop_err.clear();
        sop_ctor_runs = sop_dtor_runs = 0;
        const std::string &k = w[1];
        if (k == "poolx")
        {
            // igris::pool(zone, size, elsize) with an element size / zone size it must refuse (asserts), run in a child
            // process: the zone is exactly sized, so an accepted bad request is a memory error there
            size_t e = strtoul(w[2].c_str(), 0, 10), size = strtoul(w[3].c_str(), 0, 10);
            int pfd[2];
            if (pipe(pfd) != 0)
            {
                o.result = "bad-op";
                return;
            }
            fflush(stdout);
            pid_t pid = fork();
            if (pid == 0)
            {
                dup2(pfd[1], 2);
                close(pfd[0]);
                // the child must not touch the parent's stdin / stdout (exit() would seek the shared input back)
                int nul = open("/dev/null", O_RDWR);
                dup2(nul, 0);
                dup2(nul, 1);
                exact_buf z(size);
                igris::pool ip(z.p, size, e); // init(): assert on the element size, then pool_engage (assert on the zone size)
                fprintf(stderr, "engaged %zu\n", ip.avail());
                _exit(0);
            }
            close(pfd[1]);
            std::string err;
            char buf[512];
            ssize_t got;
            while ((got = read(pfd[0], buf, sizeof buf)) > 0) err.append(buf, (size_t)got);
            close(pfd[0]);
            int status = 0;
            waitpid(pid, &status, 0);
            bool asserted = err.find("Assertion") != std::string::npos;
            bool clean = WIFEXITED(status) && WEXITSTATUS(status) == 0;
            if (asserted) o.result = "assert";
            else if (clean) o.result = err.substr(0, err.find('\n'));
            else o.result = "memory-error";
            // independent of the model: a cell must hold the 8-byte link, and the zone must be whole cells
            bool must_refuse = e < sizeof(struct slist_head) || size % e != 0;
            if (must_refuse && !asserted)
            {
                // one line of the child's report: the sanitizer's ERROR / runtime error line
                std::string why = "engaged";
                if (!clean)
                {
                    size_t at = err.find("ERROR: ");
                    if (at == std::string::npos) at = err.find("runtime error");
                    if (at == std::string::npos) at = 0;
                    why = "memory error: " + err.substr(at, 90);
                    for (char &ch : why)
                        if (ch == '\n' || ch == '\t' || ch == '\r') ch = ' ';
                }
                o.fail("igris::pool(zone, size " + s(size) + ", elsize " + s(e) + ") was not refused: " + why);
            }
            if (!must_refuse && !clean) o.fail("pool_engage of a valid zone failed");
            o.tag(must_refuse ? "engage-refused" : "engage-child");
            return;
        }
        if (k == "tri")
        {
            size_t idx = strtoul(w[2].c_str(), 0, 10);
            if (idx >= sop_kinds.size())
            {
                o.result = "bad-op";
                return;
            }
            TC.reset(new TriCase());
            TC->sop.reset(sop_kinds[idx].mk());
            TC->e = TC->sop->storage();
            TC->cap = TC->sop->cap();
            for (int t = 0; t < 2; t++) TC->zone[t].reset(new exact_buf(TC->e * TC->cap));
            pool_init(&TC->head);
            pool_engage(&TC->head, TC->zone[0]->p, TC->e * TC->cap, TC->e);
            TC->ip.init(TC->zone[1]->p, TC->e * TC->cap, TC->e);
            o.result = s(TC->e) + " " + s(TC->cap) + " | " + s(pool_avail(&TC->head)) + " | " + su(TC->ip.size()) + " " + su(TC->ip.room()) + " " + su(TC->ip.avail()) + " | " + s(TC->sop->avail());
            TC->check_all(o);
            o.tag("twins");
            return;
        }
        if (k == "crit" || k == "heap")
        {
            c10::heap_reset_op(w, o);
            return;
        }
        if (k == "mpool")
        {
            MC.reset(new MPoolCase());
            pool_init(&MC->head);
            o.result = "ok " + s(pool_avail(&MC->head));
            if (pool_alloc(&MC->head) != nullptr) o.fail("pool without a zone hands out a cell");
            if (slist_pop_first(&MC->head.free_blocks) != nullptr || !slist_empty(&MC->head.free_blocks)) o.fail("slist_pop_first on an empty list");
            return;
        }
        if (k == "ipool0")
        {
            // igris::pool p;  -- default constructed, never init()-ed: a pool of capacity 0
            PC.reset(new PoolCase());
            PC->e = 8;
            PC->cap = 0;
            PC->zone.reset(new exact_buf(0));
            PC->is_ip = true;
            o.result = su(PC->ip.room()) + " " + su(PC->ip.avail());
            o.tag("default-constructed");
            return;
        }
        if (k == "pool" || k == "ipool")
        {
            PC.reset(new PoolCase());
            PC->e = strtoul(w[2].c_str(), 0, 10);
            PC->cap = strtoul(w[3].c_str(), 0, 10);
            PC->zone.reset(new exact_buf(PC->e * PC->cap));
            PC->names_init();
            PC->is_ip = k == "ipool";
            if (PC->is_ip)
            {
                if (PC->cap % 2) new (&PC->ip) igris::pool(PC->zone->p, PC->e * PC->cap, PC->e); // pool(zone, size, elsize)
                else PC->ip.init(PC->zone->p, PC->e * PC->cap, PC->e);
                if (PC->ip.element_size() != PC->e) o.fail("element_size()");
                o.result = su(PC->ip.size()) + " " + su(PC->ip.room()) + " " + su(PC->ip.avail());
                if (PC->ip.size() != PC->cap || PC->ip.room() != PC->cap || PC->ip.avail() != PC->cap) o.fail("fresh pool does not report its capacity");
            }
            else
            {
                pool_init(&PC->head);
                pool_engage(&PC->head, PC->zone->p, PC->e * PC->cap, PC->e);
                o.result = "ok " + s(pool_avail(&PC->head));
                if (pool_avail(&PC->head) != PC->cap) o.fail("fresh pool: avail != capacity");
            }
            if (PC->cap == 1) o.tag("cap1");
            if (PC->e == 8) o.tag("elemsz=sizeof(link)");
            return;
        }
        if (k == "sop")
        {
            size_t sz = strtoul(w[2].c_str(), 0, 10), al = strtoul(w[3].c_str(), 0, 10), cap = strtoul(w[4].c_str(), 0, 10);
            for (auto &kd : sop_kinds)
                if (kd.sz == sz && kd.al == al && kd.cap == cap)
                {
                    SC.reset(new SopCase());
                    SC->p.reset(kd.mk());
                }
            if (!SC)
            {
                o.result = "bad-op";
                return;
            }
            SC->cap = cap;
            SC->names_engage(0, cap, SC->p->storage());
            o.result = s(SC->p->storage()) + " " + s(SC->p->avail());
            if (SC->p->avail() != cap) o.fail("fresh object pool: avail != Capacity");
            if ((uintptr_t)SC->p->base() % std::max(al, (size_t)8)) o.fail("storage misaligned for T");
            if (SC->p->storage() % std::max(al, (size_t)8) || SC->p->storage() < sz) o.fail("storage_type too small / misaligned");
            return;
        }
        o.result = "bad-op";
        return;
    }
    // ------------------------------------------------ the three twins on one history
    if (TC)
    {
        long c0 = sop_ctor_runs, d0 = sop_dtor_runs;
        std::string r[3] = {"-", "-", "-"};
        if (op == "a")
        {
            int slot = atoi(w[1].c_str());
            std::array<char *, 3> q = {(char *)pool_alloc(&TC->head), (char *)TC->ip.get(), (char *)TC->sop->create()};
            for (int t = 0; t < 3; t++)
            {
                TC->check_new(t, q[t], o);
                r[t] = q[t] ? "cell" : "null";
            }
            if ((q[2] != nullptr) != (sop_ctor_runs == c0 + 1) || sop_dtor_runs != d0) o.fail("static_object_pool: create must run the constructor exactly once iff it returns an object");
            if (!((q[0] == nullptr) == (q[1] == nullptr) && (q[1] == nullptr) == (q[2] == nullptr))) o.fail("twins with equal capacity and equal history disagree on exhaustion");
            TC->slots[slot] = q;
            o.tag(q[0] ? "twins-alloc" : "twins-null");
        }
        else if (op == "f")
        {
            int slot = atoi(w[1].c_str());
            auto it = TC->slots.find(slot);
            std::array<char *, 3> q = {nullptr, nullptr, nullptr};
            if (it != TC->slots.end())
            {
                q = it->second;
                TC->slots.erase(it);
            }
            if (q[0])
            {
                TC->live[0].erase((size_t)(q[0] - TC->zbase(0)));
                pool_free(&TC->head, q[0]);
            }
            if (q[1]) TC->live[1].erase((size_t)(q[1] - TC->zbase(1)));
            TC->ip.put(q[1]); // put(NULL) is a no-op
            if (q[2])
            {
                TC->live_sop.erase((size_t)(q[2] - TC->zbase(2)));
                TC->sop->destroy(q[2]);
                if (sop_dtor_runs != d0 + 1 || sop_ctor_runs != c0) o.fail("static_object_pool: destroy must run the destructor exactly once");
            }
            o.tag(q[0] ? "twins-free" : "twins-free-null");
        }
        else
        {
            o.result = "bad-op";
            return;
        }
        o.result = r[0] + " " + s(pool_avail(&TC->head)) + " | " + r[1] + " " + su(TC->ip.room()) + " " + su(TC->ip.avail()) + " | " + r[2] + " " + s(TC->sop->avail()) + " " +
                   s(sop_objs.size()) + " " + s(sop_ctor_runs) + " " + s(sop_dtor_runs);
        TC->check_all(o);
        return;
    }
    // ------------------------------------------------ pool fed from several zones
    if (MC)
    {
        if (op == "z")
        {
            size_t n = strtoul(w[1].c_str(), 0, 10), e = strtoul(w[2].c_str(), 0, 10);
            size_t before = pool_avail(&MC->head);
            MC->zones.push_back(MZone{std::unique_ptr<exact_buf>(new exact_buf(n * e)), n, e});
            pool_engage(&MC->head, MC->zones.back().buf->p, n * e, e);
            MC->names_engage(MC->zones.size() - 1, n, e);
            MC->cap += n;
            o.result = s(pool_avail(&MC->head));
            if (pool_avail(&MC->head) != before + n) o.fail("pool_engage of " + s(n) + " cells: avail " + s(before) + " -> " + s(pool_avail(&MC->head)));
            o.tag(before ? "engage-onto-nonempty-list" : MC->zones.size() > 1 ? "engage-further-zone" : "engage-first-zone");
            if (n == 0) o.tag("engage-empty-zone");
        }
        else if (op == "a")
        {
            void *q = pool_alloc(&MC->head);
            long zk = q ? MC->zone_of(q) : -1;
            o.result = (!q ? std::string("null") : zk < 0 ? std::string("outside") : MC->name_alloc({(size_t)zk, (size_t)((uint8_t *)q - MC->zones[(size_t)zk].buf->p)})) + " " + s(pool_avail(&MC->head));
            MC->check_new(q, o);
            o.tag(q ? (MC->zones.size() > 1 ? "alloc-multizone" : "alloc") : "alloc-null");
        }
        else if (op == "f")
        {
            MPoolCase::Cell nm{strtoul(w[1].c_str(), 0, 10), strtoul(w[2].c_str(), 0, 10)}, real;
            if (!MC->bound.count(nm) || !MC->real_of(nm, real))
            {
                o.result = "skip";
                o.fail("history cannot continue: cell " + w[1] + ":" + w[2] + " was never handed out");
                return;
            }
            MC->bound.erase(nm);
            MC->name_free.push_back(nm);
            size_t k = real.first, off = real.second;
            MC->live.erase({k, off});
            pool_free(&MC->head, MC->zones[k].buf->p + off);
            o.result = s(pool_avail(&MC->head));
            o.tag("free");
        }
        else if (op == "in")
        {
            MPoolCase::Cell nm{strtoul(w[1].c_str(), 0, 10), strtoul(w[2].c_str(), 0, 10)}, real;
            if (!MC->real_of(nm, real)) real = nm;
            size_t k = real.first, off = real.second;
            int r = pool_in_freelist(&MC->head, MC->zones[k].buf->p + off);
            o.result = r ? "1" : "0";
            if ((r != 0) == (MC->live.count({k, off}) != 0)) o.fail("pool_in_freelist disagrees with the shadow map");
        }
        else
        {
            o.result = "bad-op";
            return;
        }
        MC->check_patterns(o);
        MC->check_freelist(o);
        if (pool_avail(&MC->head) != MC->cap - MC->live.size())
            o.fail("avail " + s(pool_avail(&MC->head)) + " != capacity - live = " + s(MC->cap) + " - " + s(MC->live.size()));
        return;
    }
    // ------------------------------------------------ pool ops
    if (PC && !PC->is_ip)
    {
        if (op == "a")
        {
            void *q = pool_alloc(&PC->head);
            o.result = (q ? PC->name_alloc((size_t)((uint8_t *)q - PC->zone->p)) : std::string("null")) + " " + s(pool_avail(&PC->head));
            PC->check_new(q, o);
            o.tag(q ? "alloc" : "alloc-null");
        }
        else if (op == "f")
        {
            size_t nm = strtoul(w[1].c_str(), 0, 10), off = 0;
            if (!PC->bound.count(nm) || !PC->real_of(nm, off))
            {
                o.result = "skip";
                o.fail("history cannot continue: cell " + s(nm) + " was never handed out");
                return;
            }
            PC->name_release(nm);
            PC->live.erase(off);
            pool_free(&PC->head, PC->zone->p + off);
            o.result = s(pool_avail(&PC->head));
            o.tag("free");
        }
        else if (op == "in")
        {
            size_t nm = strtoul(w[1].c_str(), 0, 10), off = 0;
            if (!PC->real_of(nm, off)) off = nm;
            int r = pool_in_freelist(&PC->head, PC->zone->p + off);
            o.result = r ? "1" : "0";
            if ((r != 0) == (PC->live.count(off) != 0)) o.fail("pool_in_freelist disagrees with the shadow map");
        }
        else
            o.result = "bad-op";
        PC->check_patterns(o);
        if (pool_avail(&PC->head) != PC->cap - PC->live.size()) o.fail("avail " + s(pool_avail(&PC->head)) + " != capacity - live = " + s(PC->cap - PC->live.size()));
        return;
    }
    if (PC && PC->is_ip)
    {
        igris::pool &ip = PC->ip;
        if (op == "g")
        {
            void *q = ip.get();
            o.result = (q ? PC->name_alloc((size_t)((uint8_t *)q - PC->zone->p)) : std::string("null")) + " " + su(ip.room()) + " " + su(ip.avail());
            PC->check_new(q, o);
            o.tag(q ? "get" : "get-null");
        }
        else if (op == "p")
        {
            if (w[1] == "null")
            {
                ip.put(nullptr);
                o.tag("put-null");
            }
            else
            {
                size_t nm = strtoul(w[1].c_str(), 0, 10), off = 0;
                if (!PC->bound.count(nm) || !PC->real_of(nm, off))
                {
                    o.result = "skip";
                    o.fail("history cannot continue: cell " + s(nm) + " was never handed out");
                    return;
                }
                PC->name_release(nm);
                PC->live.erase(off);
                ip.put(PC->zone->p + off);
                o.tag("put");
            }
            o.result = su(ip.room()) + " " + su(ip.avail());
        }
        else if (op == "ca")
        {
            long i = strtol(w[1].c_str(), 0, 10);
            // an index inside the pool names a cell (see NAMES): ask about the real cell behind the name
            size_t off = 0;
            if (i >= 0 && (size_t)i < PC->cap && PC->real_of((size_t)i * PC->e, off)) i = (long)(off / PC->e);
            bool r = ip.cell_is_allocated((int)i);
            o.result = r ? "1" : "0";
            bool ref = i >= 0 && (size_t)i < PC->cap && PC->live.count((size_t)i * PC->e);
            if (r != ref) o.fail("cell_is_allocated(" + s(i) + ") disagrees with the shadow map");
        }
        else if (op == "ri")
        {
            // init() again on the SAME object with another zone, element size and capacity, whatever its state
            // (cells handed out, cells on the list): it must become a fresh pool over the new zone
            PC->old_zones.push_back(std::move(PC->zone));
            PC->e = strtoul(w[1].c_str(), 0, 10);
            PC->cap = strtoul(w[2].c_str(), 0, 10);
            PC->zone.reset(new exact_buf(PC->e * PC->cap));
            PC->live.clear();
            PC->names_init();
            ip.init(PC->zone->p, PC->e * PC->cap, PC->e);
            o.result = su(ip.size()) + " " + su(ip.room()) + " " + su(ip.avail());
            if (ip.size() != PC->cap || ip.room() != PC->cap || ip.avail() != PC->cap || ip.element_size() != PC->e) o.fail("re-initialised pool does not report its new capacity / element size");
            o.tag("re-init");
        }
        else if (op == "sz")
        {
            o.result = su(ip.size()) + " " + su(ip.element_size());
            if (ip.size() != PC->cap) o.fail("size() " + su(ip.size()) + " != capacity " + s(PC->cap));
        }
        else if (op == "it")
        {
            o.result = "it:";
            std::vector<size_t> seen;
            size_t steps = 0;
            for (auto it = ip.begin(); it != ip.end() && steps <= PC->cap; ++it, ++steps)
                seen.push_back((size_t)((uint8_t *)*it - PC->zone->p));
            // result line: the NAMES of the visited cells in ascending order (the ascending order of the real
            // visit and its completeness are judged just below against the shadow map)
            {
                std::map<size_t, size_t> name_of;
                for (auto &kv : PC->bound) name_of[kv.second] = kv.first;
                std::vector<size_t> names;
                for (size_t off : seen) names.push_back(name_of.count(off) ? name_of[off] / PC->e : 1000000 + off);
                std::sort(names.begin(), names.end());
                for (size_t nmi : names) o.result += " " + s(nmi);
            }
            std::vector<size_t> ref;
            for (auto &kv : PC->live) ref.push_back(kv.first);
            if (seen != ref) o.fail("iteration over allocated cells disagrees with the shadow map");
            o.tag("iterate");
        }
        else
            o.result = "bad-op";
        PC->check_patterns(o);
        size_t want = PC->cap - PC->live.size();
        if (ip.avail() != want) o.fail("avail " + s(ip.avail()) + " != capacity - live = " + s(want));
        if (ip.room() != want) o.fail("room " + su(ip.room()) + " != capacity - live = " + s(want));
        return;
    }
    if (SC)
    {
        SopBase &p = *SC->p;
        long c0 = sop_ctor_runs, d0 = sop_dtor_runs;
        if (op == "c")
        {
            void *q = p.create();
            if (q)
            {
                long k = SC->zone_of(q);
                size_t off = k < 0 ? 0 : (size_t)((char *)q - SC->zbase((size_t)k));
                if (k < 0) o.fail("object outside the storage and the engaged zones");
                else if (off % p.storage()) o.fail("object not on a cell boundary");
                else if (off + p.storage() > SC->zcells((size_t)k) * p.storage()) o.fail("object reaches behind its zone");
                if ((uintptr_t)q % p.alT()) o.fail("object misaligned for T");
                if (k >= 0 && SC->live.count({(size_t)k, off})) o.fail("cell handed out twice");
                if (SC->live.size() >= SC->cap) o.fail("non-null although Capacity objects are live");
                if (sop_ctor_runs != c0 + 1 || sop_last_ctor != q) o.fail("create: the constructor did not run exactly once on the returned cell");
                if (k >= 0) SC->live.insert({(size_t)k, off});
                if (k < 0 || SC->name_free.empty()) o.result = "?" + s(k) + ":" + s(off);
                else
                {
                    SopCase::Cell nm = SC->name_free.back();
                    SC->name_free.pop_back();
                    SC->bound[nm] = {(size_t)k, off};
                    o.result = nm.first == 0 ? s(nm.second) : s(nm.first) + ":" + s(nm.second);
                }
                o.tag(k > 0 ? "create-in-extra-zone" : "create");
            }
            else
            {
                if (SC->live.size() != SC->cap) o.fail("null with free cells left");
                if (sop_ctor_runs != c0) o.fail("create returned null but a constructor ran");
                o.result = "null";
                o.tag("create-null");
            }
            if (sop_dtor_runs != d0) o.fail("create ran a destructor");
        }
        else if (op == "d")
        {
            SopCase::Cell nm{w.size() > 2 ? strtoul(w[1].c_str(), 0, 10) : 0, strtoul(w[w.size() > 2 ? 2 : 1].c_str(), 0, 10)};
            auto itb = SC->bound.find(nm);
            if (itb == SC->bound.end())
            {
                o.result = "skip";
                o.fail("history cannot continue: this object was never created");
                return;
            }
            size_t k = itb->second.first, off = itb->second.second;
            SC->bound.erase(itb);
            SC->name_free.push_back(nm);
            SC->live.erase({k, off});
            void *q = SC->zbase(k) + off;
            p.destroy(q);
            if (sop_dtor_runs != d0 + 1 || sop_last_dtor != q) o.fail("destroy: the destructor did not run exactly once on the object");
            if (sop_ctor_runs != c0) o.fail("destroy ran a constructor");
            o.result = "";
            o.tag("destroy");
        }
        else if (op == "ct")
        {
            // round 3b: create(args...) whose T constructor throws.  No object exists afterwards, so the cell must be
            // back in the pool ("free count = capacity - live", judged below) and the exception must reach the caller.
            int rc = p.create_throw();
            if (rc == 2) o.fail("create(throwing constructor) returned an object");
            if (rc == 0 && SC->live.size() != SC->cap) o.fail("null with free cells left");
            if (rc == 1 && SC->live.size() >= SC->cap) o.fail("a constructor was started although Capacity objects are live");
            if (sop_ctor_runs != c0 || sop_dtor_runs != d0) o.fail("create(throwing constructor) completed a constructor / ran a destructor");
            o.result = rc == 1 ? "throw" : rc == 0 ? "null" : "object";
            o.tag(rc == 1 ? "create-ctor-throws" : "create-ctor-throws-null");
        }
        else if (op == "x")
        {
            size_t n = strtoul(w[1].c_str(), 0, 10);
            size_t al = std::max(p.alT(), (size_t)8);
            char *z = (char *)aligned_alloc(al, n ? n * p.storage() : al); // exactly sized (ASan)
            SC->extra.push_back({z, n});
            size_t before = p.avail();
            p.engage(z, n);
            SC->names_engage(SC->extra.size(), n, p.storage());
            SC->cap += n;
            o.result = s(p.avail());
            if (p.avail() != before + n) o.fail("pool_engage(freelist(), " + s(n) + " cells): avail " + s(before) + " -> " + s(p.avail()));
            if (sop_ctor_runs != c0 || sop_dtor_runs != d0) o.fail("engage ran a constructor / destructor");
            o.tag(before ? "sop-engage-onto-nonempty-list" : "sop-engage");
            goto sop_checks;
        }
        else
        {
            o.result = "bad-op";
            return;
        }
        if (!o.result.empty()) o.result += " ";
        o.result += s(p.avail()) + " " + s(sop_objs.size()) + " " + s(sop_ctor_runs) + " " + s(sop_dtor_runs);
    sop_checks:
        if (!sop_err.empty()) o.fail(sop_err);
        if (sop_objs.size() != SC->live.size()) o.fail("constructed objects != live cells");
        if (sop_ctor_runs - sop_dtor_runs != (long)SC->live.size()) o.fail("constructor runs - destructor runs != live objects");
        for (auto &c : SC->live)
            if (!p.intact(SC->zbase(c.first) + c.second)) o.fail("contents of live object at " + s(c.first) + ":" + s(c.second) + " changed");
        if (p.avail() != SC->cap - SC->live.size()) o.fail("avail != Capacity - live");
        return;
    }
    if (c10::heap_active())
    {
        c10::heap_op(w, o);
        return;
    }
    o.result = "bad-op";
}

// the generators live in C10_gen.cpp (round 3b: compiled in parallel with this file)
void c10_gen(hv::rng &r, const std::string &tier);

int main(int argc, char **argv)
{
    if (argc >= 3) g_seed = strtoull(argv[2], 0, 10);
    return main_(argc, argv, c10_gen, run_op);
}
