// C07 harness: integer <-> text.
//   igris/util/numconvert.c (integer functions), igris/util/hexascii.h (hex2half),
//   compat/libc/stdlib/{itoa,atol}.c (through harness/C07_libc.c, renamed igv_*),
//   igris/dprint/dprint_func_impl.c (integer printers), igris/defs/vt100.h
// against the Lean model IgrisModel/C07.
//
// Operations (one per line, all stateless):
//   toa   K B V             render value V (16 hex digits, the 64-bit pattern of the value
//                           sign/zero-extended from its width) with igris_<K>toa in base B into
//                           an exactly sized buffer, then parse the text back with igris_ato<K>
//                           (as rendered, and with the case of every letter flipped)
//                           result: <buffer hex> <ret offset> <value> <end> <value flipped> <end flipped>
//   rng   K B LO N STRIDE   the same for the N values LO + k*STRIDE; result: FNV-1a hash of what
//                           `toa` would print (buffer, ret, value, end) + the last text
//   sweep K B LO N          oracle only (N consecutive values), result "swept N"
//   ato   K B HEX           igris_ato<K>(HEX bytes (NUL terminated), B, &end); result: <value> <end>
//   lc    FN B V            itoa/utoa/ltoa/ultoa; result: <buffer hex> <ret offset>
//   atol  HEX               libc atol and atoi of the text; result: <long> <int>
//   dpr   FN V              debug printers; result: hex of the characters given to debug_putchar
//   vt    V                 vt100_left(buf, (int)V); result: <buffer hex> <return value>
//   h2h   CC                hex2half((char)CC); result: 2 hex digits
// round 3:
//   wh    FN P SIZE REP HEX debug_writehex / _reversed / writebin / _reversed / debug_printhex_n (FN = hex hexr
//                           bin binr hexn) on mem + P, SIZE bytes; mem = HEX repeated REP times, exactly sized;
//                           result: <length> <FNV-1a> <first 48 bytes> of the characters given to debug_putchar
//   dump  LEN REP HEX       debug_print_dump(mem, LEN); the address column is reported relative to mem
//   hxa   W V               uint<W>_to_hex(V) into an exactly sized buffer, hex_to_uint<W> of it (as written and lower case)
//   tbl   h2x|dv|cty|alpha  tables read out of the compiled code: half2hex(0..255); digit_value of every character
//                           (through igris_atou8(c, 255)); igris/util/ctype.h on -128..255; the digit characters of
//                           every renderer (digits 0..35 in base 36)
//   consts                  sizeof / signedness of the parameter and return types of every entry point
//   pre                     results of calls made BEFORE main() (constructor with init_priority(101))
//   maxlen K B              length of the text of the largest (and smallest) value of the kind in base B
//   atorep K B LEN PAT TAIL igris_ato<K> on PAT repeated to LEN bytes followed by TAIL (long inputs)
//   seq   K V B1,B2,..      the same value rendered into ONE buffer in several bases, one after the other
//   twin toa|ato|h2h ...    the same operation on the unanchored copy in igris/container/std_portable.h (finding
//                           C07-std-portable-twin: every defect repaired in numconvert.c is still in that copy)
//   asml  W V1 [V2 V3 V4]   debug_asmlink_args<W>x<N>; asmr V: debug_asmlink_ret8..64, _test, dprptr(V), dprptrln(V), debug_print(NULL)
#include "common/hv.h"
#include <array>
#include <climits>
#include <cerrno>
#include <igris/util/numconvert.h>
#include <igris/util/hexascii.h>
#include <igris/util/ctype.h>
#include <igris/dprint/dprint.h>
#include <igris/defs/vt100.h>
#include <type_traits>
#include <ctype.h>

static_assert(sizeof(long) == 8 && sizeof(int) == 4 && sizeof(short) == 2, "LP64 assumed by the model");
static_assert(CHAR_MIN < 0, "char is signed (model: digit_value compares a signed char)");
static_assert((int8_t)(uint8_t)0x80 == -128 && (int32_t)0x80000000u == INT32_MIN, "modular narrowing");

extern "C"
{
    char *igv_itoa(int, char *, unsigned short);
    char *igv_utoa(unsigned, char *, unsigned short);
    char *igv_ltoa(long, char *, unsigned short);
    char *igv_ultoa(unsigned long, char *, unsigned short);
    long igv_atol(const char *);
    int igv_atoi(const char *);
    // defined in dprint_func_impl.c, not declared in dprint.h
    void debug_printdec_uint8(uint8_t);
    void debug_printdec_uint16(uint16_t);
    void debug_printdec_uint32(uint32_t);
    void debug_printdec_uint64(uint64_t);
    void debug_printhex_n(uint8_t *, int);
    void dprptr(const void *);
    void dprptrln(const void *);
    void c07_asmlink_args(int, int, const uint64_t *);
    uint64_t c07_asmlink_ret(int);
    void c07_asmlink_test(void);
    // harness/C07_twin.cpp: the copy in igris/container/std_portable.h
    char *c07_twin_toa(int k, unsigned long long v, char *buf, unsigned char base);
    unsigned long long c07_twin_ato(int k, const char *buf, unsigned char base, char **end);
    unsigned char c07_twin_hex2half(char c);
}

// the platform hook of the debug-print library: capture the characters
// (a plain zero-initialised array: usable from a constructor that runs before main())
static char g_cap[1 << 21];
static size_t g_cap_n;
extern "C" void debug_putchar(char c) { if (g_cap_n < sizeof g_cap) g_cap[g_cap_n] = c; g_cap_n++; }
static void cap_clear() { g_cap_n = 0; }
static std::string cap_str() { return std::string(g_cap, g_cap_n < sizeof g_cap ? g_cap_n : sizeof g_cap); }

// calls made before main(): static-initialisation-order dependencies of the routines (there must be none)
struct PreMain
{
    char a[16], b[72], f[16], d[40], e[16];
    uint32_t cv; long ce; size_t dn, en;
    PreMain()
    {
        igris_i32toa(INT32_MIN, a, 10);
        igris_u64toa(~0ull, b, 2);
        char *end = 0;
        static const char t[] = "4294967295";
        cv = igris_atou32(t, 10, &end);
        ce = end - t;
        g_cap_n = 0;
        debug_printdec_signed_long_long(LLONG_MIN);
        dn = g_cap_n < sizeof d ? g_cap_n : sizeof d;
        memcpy(d, g_cap, dn);
        g_cap_n = 0;
        debug_printhex_uint32(0xDEADBEEFu);
        en = g_cap_n < sizeof e ? g_cap_n : sizeof e;
        memcpy(e, g_cap, en);
        g_cap_n = 0;
        igv_itoa(-255, f, 16);
    }
};
__attribute__((init_priority(101))) static PreMain g_pre;
// debug_write comes from igris/dprint/dprint_manually.c (weak, loops over debug_putchar)

using namespace hv;
typedef std::vector<uint8_t> bytes;
typedef unsigned __int128 u128;

// ------------------------------------------------------------------ kinds
enum { I8, I16, I32, I64, U8, U16, U32, U64, NKIND };
static const char *KNAME[NKIND] = {"i8", "i16", "i32", "i64", "u8", "u16", "u32", "u64"};
static const int KBITS[NKIND] = {8, 16, 32, 64, 8, 16, 32, 64};
static bool ksigned(int k) { return k < 4; }
static int kind_of(const std::string &s)
{
    for (int k = 0; k < NKIND; k++)
        if (s == KNAME[k]) return k;
    return -1;
}
static uint64_t wmask(int bits) { return bits == 64 ? ~0ull : ((1ull << bits) - 1); }
// 64-bit pattern of a w-bit pattern, sign- or zero-extended
static uint64_t extend(uint64_t v, int bits, bool sgn)
{
    v &= wmask(bits);
    if (sgn && bits < 64 && (v >> (bits - 1)) & 1) v |= ~wmask(bits);
    return v;
}

static bool g_twin = false; // route call_toa / call_ato / hex2half to the std_portable.h copy
static char *call_toa(int k, uint64_t v, char *buf, uint8_t base)
{
    if (g_twin) return c07_twin_toa(k, v, buf, base);
    switch (k)
    {
    case I8: return igris_i8toa((int8_t)v, buf, base);
    case I16: return igris_i16toa((int16_t)v, buf, base);
    case I32: return igris_i32toa((int32_t)v, buf, base);
    case I64: return igris_i64toa((int64_t)v, buf, base);
    case U8: return igris_u8toa((uint8_t)v, buf, base);
    case U16: return igris_u16toa((uint16_t)v, buf, base);
    case U32: return igris_u32toa((uint32_t)v, buf, base);
    default: return igris_u64toa((uint64_t)v, buf, base);
    }
}
// returns the w-bit pattern of the result
static uint64_t call_ato(int k, const char *buf, uint8_t base, char **end)
{
    if (g_twin) return c07_twin_ato(k, buf, base, end);
    switch (k)
    {
    case I8: return (uint8_t)igris_atoi8(buf, base, end);
    case I16: return (uint16_t)igris_atoi16(buf, base, end);
    case I32: return (uint32_t)igris_atoi32(buf, base, end);
    case I64: return (uint64_t)igris_atoi64(buf, base, end);
    case U8: return igris_atou8(buf, base, end);
    case U16: return igris_atou16(buf, base, end);
    case U32: return igris_atou32(buf, base, end);
    default: return igris_atou64(buf, base, end);
    }
}

// ------------------------------------------------------------------ references (oracle)
static const char AL_LO[] = "0123456789abcdefghijklmnopqrstuvwxyz";
static const char AL_UP[] = "0123456789ABCDEFGHIJKLMNOPQRSTUVWXYZ";

// Canonical digits, most significant first, produced from the HIGHEST power
// downwards (the code under test divides from the least significant end).
static int ref_digits(uint64_t mag, unsigned base, const char *al, char *out)
{
    u128 p = 1;
    while (p * base <= (u128)mag) p *= base;
    int n = 0;
    u128 m = mag;
    while (p)
    {
        unsigned d = (unsigned)(m / p);
        m -= (u128)d * p;
        out[n++] = al[d];
        p /= base;
    }
    return n;
}
// canonical text of the w-bit pattern v interpreted as signed/unsigned
static int ref_text(uint64_t v, int bits, bool sgn, unsigned base, bool upper, char *out)
{
    int n = 0;
    uint64_t mag = v & wmask(bits);
    if (sgn && (mag >> (bits - 1)) & 1)
    {
        out[n++] = '-';
        mag = (0 - mag) & wmask(bits); // |minimum| = 2^(bits-1) fits the unsigned type
    }
    n += ref_digits(mag, base, upper ? AL_UP : AL_LO, out + n);
    out[n] = 0;
    return n;
}
static int ref_dv(uint8_t c)
{
    for (int i = 0; i < 36; i++)
        if (c == (uint8_t)AL_LO[i] || c == (uint8_t)AL_UP[i]) return i;
    return 1000;
}
// value (mod 2^bits) and end offset of the longest digit prefix in `base`
static uint64_t ref_parse(const uint8_t *s, int bits, bool sgn, unsigned base, size_t *end, bool *wrapped = 0)
{
    size_t i = 0;
    bool neg = false;
    if (sgn && s[0] == '-') { neg = true; i = 1; }
    u128 acc = 0;
    bool wr = false;
    while (ref_dv(s[i]) < (int)base)
    {
        acc = acc * base + ref_dv(s[i]);
        if (acc >> bits) wr = true;
        acc &= (((u128)1) << 64) - 1;
        i++;
    }
    *end = i;
    if (wrapped) *wrapped = wr;
    uint64_t r = (uint64_t)acc;
    if (neg) r = 0 - r;
    return r & wmask(bits);
}
static std::string flipcase(const std::string &s)
{
    std::string r = s;
    for (auto &c : r)
        if (c >= 'a' && c <= 'z') c = (char)(c - 32);
        else if (c >= 'A' && c <= 'Z') c = (char)(c + 32);
    return r;
}
static std::string show(const std::string &s)
{
    std::string r;
    for (unsigned char c : s)
        if (c >= 32 && c < 127) r.push_back((char)c);
        else { char b[8]; snprintf(b, sizeof b, "\\x%02x", c); r += b; }
    return r;
}

struct fnv
{
    uint64_t h = 14695981039346656037ull;
    void byte(uint8_t b) { h = (h ^ b) * 1099511628211ull; }
    void le64(uint64_t v) { for (int i = 0; i < 8; i++) byte((uint8_t)(v >> (8 * i))); }
};

// One value through toa + ato.  `buf` is placed so that it ENDS at the end of a
// heap block (ASan flags any write past the canonical length + 1).
struct RoundTrip
{
    std::string text;  // what the implementation wrote (bytes up to the NUL, or the whole buffer)
    bytes raw;         // whole buffer
    long ret;
    bool have_back;
    uint64_t back, backf;
    long end, endf;
};
static uint8_t *g_block = 0; // 96-byte heap block reused inside one op
static const size_t BLK = 96;

static void roundtrip(int k, uint64_t v, unsigned base, out &o, RoundTrip &r, bool flip)
{
    int bits = KBITS[k];
    bool sgn = ksigned(k);
    bool valid = base >= 2 && base <= 36;
    char ref[80];
    int len = valid ? ref_text(v, bits, sgn, base, !sgn, ref) : 0;
    if (!valid) ref[0] = 0;
    uint8_t *buf = g_block + BLK - (len + 1);
    memset(g_block, 0xA5, BLK);
    char *ret = call_toa(k, v, (char *)buf, (uint8_t)base);
    r.raw.assign(buf, buf + len + 1);
    r.ret = ret - (char *)buf;
    bool same = memcmp(buf, ref, len + 1) == 0;
    if (!same)
        o.fail(std::string("igris_") + KNAME[k] + "toa(" + hexn(v, 16) + ", base " + std::to_string(base) + ") wrote `" +
               show(std::string((char *)buf, len + 1)) + "`, canonical text is `" + ref + "`");
    if (r.ret != len)
        o.fail(std::string("igris_") + KNAME[k] + "toa returned buf+" + std::to_string(r.ret) + ", terminator is at " + std::to_string(len));
    for (uint8_t *q = g_block; q < buf; q++)
        if (*q != 0xA5) { o.fail("write before the buffer"); break; }
    r.have_back = false;
    if (!valid || buf[len] != 0) return;
    // parse back: the text sits at the very end of the block, so reading past the NUL is flagged too
    r.have_back = true;
    char *e = 0;
    r.back = call_ato(k, (const char *)buf, (uint8_t)base, &e);
    r.end = e - (char *)buf;
    uint64_t want = v & wmask(bits);
    if (r.back != want)
        o.fail(std::string("igris_ato") + KNAME[k] + "(`" + show((char *)buf) + "`, base " + std::to_string(base) + ") = " + hexn(r.back, bits / 4) +
               ", rendered value was " + hexn(want, bits / 4));
    if (r.end != len)
        o.fail(std::string("igris_ato") + KNAME[k] + "(`" + show((char *)buf) + "`, base " + std::to_string(base) + ") reports end offset " +
               std::to_string(r.end) + ", first unconsumed character is at " + std::to_string(len));
    if (flip)
    {
        std::string f = flipcase(std::string((char *)buf, len));
        memcpy(buf, f.c_str(), len + 1);
        e = 0;
        r.backf = call_ato(k, (const char *)buf, (uint8_t)base, &e);
        r.endf = e - (char *)buf;
        if (r.backf != want || r.endf != len)
            o.fail(std::string("igris_ato") + KNAME[k] + "(`" + show(f) + "`, base " + std::to_string(base) + ") = " + hexn(r.backf, bits / 4) + " end " +
                   std::to_string(r.endf) + " (case-flipped text of " + hexn(want, bits / 4) + ")");
    }
}

// ------------------------------------------------------------------ debug printers
struct DFn { const char *name; int bits; bool sgn; char fmt; void (*call)(uint64_t); };
#define DF(nm, bits, sgn, fmt, expr) {nm, bits, sgn, fmt, [](uint64_t v) { expr; }}
static const DFn DFNS[] = {
    DF("dec_u8", 8, false, 'd', debug_printdec_uint8((uint8_t)v)),
    DF("dec_u16", 16, false, 'd', debug_printdec_uint16((uint16_t)v)),
    DF("dec_u32", 32, false, 'd', debug_printdec_uint32((uint32_t)v)),
    DF("dec_u64", 64, false, 'd', debug_printdec_uint64((uint64_t)v)),
    DF("dec_uc", 8, false, 'd', debug_printdec_unsigned_char((unsigned char)v)),
    DF("dec_us", 16, false, 'd', debug_printdec_unsigned_short((unsigned short)v)),
    DF("dec_ui", 32, false, 'd', debug_printdec_unsigned_int((unsigned int)v)),
    DF("dec_ul", 64, false, 'd', debug_printdec_unsigned_long((unsigned long)v)),
    DF("dec_ull", 64, false, 'd', debug_printdec_unsigned_long_long((unsigned long long)v)),
    DF("dec_sc", 8, true, 'd', debug_printdec_signed_char((signed char)v)),
    DF("dec_ss", 16, true, 'd', debug_printdec_signed_short((signed short)v)),
    DF("dec_si", 32, true, 'd', debug_printdec_signed_int((signed int)v)),
    DF("dec_sl", 64, true, 'd', debug_printdec_signed_long((signed long)v)),
    DF("dec_sll", 64, true, 'd', debug_printdec_signed_long_long((signed long long)v)),
    DF("hex_u4", 4, false, 'x', debug_printhex_uint4((uint8_t)(v & 15))),
    DF("hex_u8", 8, false, 'x', debug_printhex_uint8((uint8_t)v)),
    DF("hex_u16", 16, false, 'x', debug_printhex_uint16((uint16_t)v)),
    DF("hex_u32", 32, false, 'x', debug_printhex_uint32((uint32_t)v)),
    DF("hex_u64", 64, false, 'x', debug_printhex_uint64((uint64_t)v)),
    DF("hex_c", 8, false, 'x', debug_printhex_char((char)v)),
    DF("hex_uc", 8, false, 'x', debug_printhex_unsigned_char((unsigned char)v)),
    DF("hex_us", 16, false, 'x', debug_printhex_unsigned_short((unsigned short)v)),
    DF("hex_ui", 32, false, 'x', debug_printhex_unsigned_int((unsigned int)v)),
    DF("hex_ul", 64, false, 'x', debug_printhex_unsigned_long((unsigned long)v)),
    DF("hex_ull", 64, false, 'x', debug_printhex_unsigned_long_long((unsigned long long)v)),
    DF("hex_sc", 8, false, 'x', debug_printhex_signed_char((signed char)v)),
    DF("hex_ss", 16, false, 'x', debug_printhex_signed_short((signed short)v)),
    DF("hex_si", 32, false, 'x', debug_printhex_signed_int((signed int)v)),
    DF("hex_sl", 64, false, 'x', debug_printhex_signed_long((signed long)v)),
    DF("hex_sll", 64, false, 'x', debug_printhex_signed_long_long((signed long long)v)),
    DF("hex_ptr", 64, false, 'x', debug_printhex_ptr((const void *)(uintptr_t)v)),
    DF("bin_u4", 4, false, 'b', debug_printbin_uint4((uint8_t)(v & 15))),
    DF("bin_u8", 8, false, 'b', debug_printbin_uint8((uint8_t)v)),
    DF("bin_u16", 16, false, 'b', debug_printbin_uint16((uint16_t)v)),
    DF("bin_u32", 32, false, 'b', debug_printbin_uint32((uint32_t)v)),
    DF("bin_u64", 64, false, 'b', debug_printbin_uint64((uint64_t)v)),
};
static const int NDFN = sizeof DFNS / sizeof DFNS[0];

// decimal: the canonical text; hex/bin: the canonical upper-case digits
// zero-padded to the full width of the type
static std::string ref_dprint(const DFn &f, uint64_t v)
{
    char t[80];
    if (f.fmt == 'd')
    {
        // glibc as an independent reference for base 10
        uint64_t x = extend(v, f.bits, f.sgn);
        if (f.sgn) snprintf(t, sizeof t, "%lld", (long long)x);
        else snprintf(t, sizeof t, "%llu", (unsigned long long)x);
        return t;
    }
    unsigned base = f.fmt == 'x' ? 16 : 2;
    int width = f.fmt == 'x' ? f.bits / 4 : f.bits;
    int n = ref_text(v, f.bits, false, base, true, t);
    return std::string(width - n, '0') + t;
}

// ------------------------------------------------------------------ run
static uint64_t h64(const std::string &s) { return strtoull(s.c_str(), 0, 16); }

static void run_toa(const std::vector<std::string> &w, out &o)
{
    int k = kind_of(w[1]);
    unsigned base = (unsigned)strtoul(w[2].c_str(), 0, 10);
    uint64_t v = h64(w[3]);
    int bits = KBITS[k];
    RoundTrip r;
    roundtrip(k, v, base, o, r, true);
    o.result = hex(r.raw) + " " + std::to_string(r.ret);
    if (r.have_back)
        o.result += " " + hexn(r.back, bits / 4) + " " + std::to_string(r.end) + " " + hexn(r.backf, bits / 4) + " " + std::to_string(r.endf);
    bool valid = base >= 2 && base <= 36;
    if (!valid) { o.tag("base-out-of-range"); return; }
    o.tag(KNAME[k]);
    uint64_t p = v & wmask(bits);
    if (ksigned(k) && (p >> (bits - 1)) & 1) o.tag(p == (1ull << (bits - 1)) ? "minimum" : "negative");
    else if (p == (ksigned(k) ? wmask(bits) >> 1 : wmask(bits))) o.tag("maximum");
    if (base > 10) o.tag("letters-possible");
    if (base == 2 && bits == 64 && p >> 62) o.tag("longest-text");
}

// Odometer reference for sweeps: the canonical text of v+1 is obtained from the
// text of v by incrementing (or, for negative v, decrementing) the digit string
// -- no division anywhere, so it shares nothing with the code under test.
struct Odometer
{
    unsigned base;
    bool neg;
    int n;
    uint8_t d[72]; // most significant first, digit values
    void seed(uint64_t v, int bits, bool sgn, unsigned b)
    {
        base = b;
        char t[80];
        int len = ref_text(v, bits, sgn, b, false, t);
        neg = t[0] == '-';
        n = 0;
        for (int i = neg ? 1 : 0; i < len; i++) d[n++] = (uint8_t)ref_dv((uint8_t)t[i]);
    }
    void next()
    {
        if (neg)
        { // magnitude - 1
            int i = n - 1;
            while (d[i] == 0) d[i--] = (uint8_t)(base - 1);
            d[i]--;
            if (d[0] == 0 && n > 1) { memmove(d, d + 1, --n); }
            if (n == 1 && d[0] == 0) neg = false;
        }
        else
        { // magnitude + 1
            int i = n - 1;
            while (i >= 0 && d[i] == base - 1) d[i--] = 0;
            if (i < 0) { memmove(d + 1, d, n++); d[0] = 1; }
            else d[i]++;
        }
    }
    int text(bool upper, char *out) const
    {
        int k = 0;
        const char *al = upper ? AL_UP : AL_LO;
        if (neg) out[k++] = '-';
        for (int i = 0; i < n; i++) out[k++] = al[d[i]];
        out[k] = 0;
        return k;
    }
};

// render + parse back of one value against a given reference text; no allocation
static bool fast_ok(int k, uint64_t v, unsigned base, const char *ref, int len)
{
    uint8_t *buf = g_block + BLK - (len + 1);
    char *ret = call_toa(k, v, (char *)buf, (uint8_t)base);
    bool ok = ret == (char *)buf + len && memcmp(buf, ref, len + 1) == 0 && buf[-1] == 0xA5;
    if (ok)
    {
        char *e = 0;
        uint64_t back = call_ato(k, (const char *)buf, (uint8_t)base, &e);
        ok = back == (v & wmask(KBITS[k])) && e == (char *)buf + len;
    }
    memset(buf - 1, 0xA5, len + 2);
    return ok;
}

static void run_rng(const std::vector<std::string> &w, out &o, bool sweep)
{
    int k = kind_of(w[1]);
    unsigned base = (unsigned)strtoul(w[2].c_str(), 0, 10);
    uint64_t lo = h64(w[3]);
    uint64_t n = strtoull(w[4].c_str(), 0, 10);
    uint64_t stride = sweep ? 1 : strtoull(w[5].c_str(), 0, 10);
    int bits = KBITS[k];
    fnv h;
    RoundTrip r;
    uint64_t v = lo;
    o.tag(sweep ? "sweep" : "range");
    o.tag(KNAME[k]);
    if (sweep)
    {
        if (base < 2 || base > 36) { o.result = "bad-op"; return; }
        memset(g_block, 0xA5, BLK);
        Odometer od;
        od.seed(extend(v, bits, ksigned(k)), bits, ksigned(k), base);
        char ref[80];
        for (uint64_t i = 0; i < n; i++, v++)
        {
            uint64_t x = extend(v, bits, ksigned(k));
            int len = od.text(!ksigned(k), ref);
            if (!fast_ok(k, x, base, ref, len))
            {
                // the slow path recomputes the reference from scratch and words the failure
                roundtrip(k, x, base, o, r, true);
                if (o.oracle == "ok") o.fail("odometer reference `" + std::string(ref) + "` disagrees with the power-based reference at " + hexn(x, 16));
                break;
            }
            od.next();
        }
        o.result = "swept " + std::to_string(n);
        return;
    }
    for (uint64_t i = 0; i < n; i++, v += stride)
    {
        roundtrip(k, extend(v, bits, ksigned(k)), base, o, r, false);
        for (uint8_t b : r.raw) h.byte(b);
        h.byte((uint8_t)r.ret);
        h.le64(r.have_back ? r.back : 0);
        h.byte(r.have_back ? (uint8_t)r.end : 0xff);
        if (o.oracle != "ok") break;
    }
    o.result = hexn(h.h, 16) + " " + hex(r.raw);
}

static void run_ato(const std::vector<std::string> &w, out &o)
{
    int k = kind_of(w[1]);
    unsigned base = (unsigned)strtoul(w[2].c_str(), 0, 10);
    bytes s = unhex(w[3]);
    int bits = KBITS[k];
    if (s.empty() || s.back() != 0) { o.result = "bad-op"; return; }
    exact_buf b(s);
    char *e = 0;
    uint64_t v = call_ato(k, (const char *)b.p, (uint8_t)base, &e);
    long end = e ? e - (char *)b.p : -1;
    o.result = hexn(v, bits / 4) + " " + std::to_string(end);
    size_t rend;
    bool wrapped;
    uint64_t rv = ref_parse(s.data(), bits, ksigned(k), base, &rend, &wrapped);
    std::string txt((char *)s.data(), s.size() - 1);
    if (v != rv)
        o.fail(std::string("igris_ato") + KNAME[k] + "(`" + show(txt) + "`, base " + std::to_string(base) + ") = " + hexn(v, bits / 4) + ", digits of that base give " + hexn(rv, bits / 4));
    if (end != (long)rend)
        o.fail(std::string("igris_ato") + KNAME[k] + "(`" + show(txt) + "`, base " + std::to_string(base) + ") reports end offset " + std::to_string(end) +
               ", first character that cannot continue the number is at " + std::to_string(rend));
    // the same call without an end pointer
    uint64_t v2 = call_ato(k, (const char *)b.p, (uint8_t)base, 0);
    if (v2 != v) o.fail("value differs when end == NULL");
    // the usual idiom `p = ...; v = ato(p, base, &p)`: end aliases the caller's own pointer
    {
        char *pp = (char *)b.p;
        uint64_t v3 = call_ato(k, pp, (uint8_t)base, &pp);
        if (v3 != v || pp != e) o.fail("value / end differ when end aliases the string pointer");
    }
    // glibc as a second opinion where its grammar coincides (no sign/space/0x handling involved)
    if (base >= 2 && base <= 36 && !wrapped && rend > 0 && !(base == 16 && s.size() > 1 && (s[1] == 'x' || s[1] == 'X')) && ref_dv(s[0]) < (int)base)
    {
        errno = 0;
        char *ge;
        unsigned long long g = strtoull((const char *)s.data(), &ge, (int)base);
        if (errno == 0 && ((g & wmask(bits)) != rv || (size_t)(ge - (char *)s.data()) != rend))
            o.fail("harness reference disagrees with strtoull");
    }
    o.tag(KNAME[k]);
    size_t first = (ksigned(k) && s[0] == '-') ? 1 : 0;
    if (first) o.tag("minus");
    if (rend == first) o.tag("no-digits");
    if (wrapped) o.tag("wraps");
    uint8_t t = s[rend];
    if (t == 0) o.tag("term-nul");
    else if (ref_dv(t) < 36) o.tag("term-digit-of-larger-base");
    else if (t >= 0x80) o.tag("term-high-bit");
    bool lo = false, up = false;
    for (size_t i = first; i < rend; i++) { if (s[i] >= 'a') lo = true; else if (s[i] >= 'A') up = true; }
    if (lo) o.tag("lower-case");
    if (up) o.tag("upper-case");
    if (base < 2 || base > 36) o.tag("base-out-of-range");
}

static void run_lc(const std::vector<std::string> &w, out &o)
{
    const std::string &fn = w[1];
    unsigned base = (unsigned)strtoul(w[2].c_str(), 0, 10);
    uint64_t v = h64(w[3]);
    int bits = (fn == "itoa" || fn == "utoa") ? 32 : 64;
    bool sgn = fn == "itoa" || fn == "ltoa";
    bool valid = base >= 2 && base <= 36;
    char ref[80];
    int len = valid ? ref_text(v, bits, sgn, base, false, ref) : 0;
    ref[len] = 0;
    exact_buf b((size_t)len + 1);
    char *r;
    if (fn == "itoa") r = igv_itoa((int)v, (char *)b.p, (unsigned short)base);
    else if (fn == "utoa") r = igv_utoa((unsigned)v, (char *)b.p, (unsigned short)base);
    else if (fn == "ltoa") r = igv_ltoa((long)v, (char *)b.p, (unsigned short)base);
    else r = igv_ultoa((unsigned long)v, (char *)b.p, (unsigned short)base);
    o.result = hex(b.p, b.n) + " " + std::to_string(r - (char *)b.p);
    if (memcmp(b.p, ref, len + 1))
        o.fail(fn + "(" + hexn(v, 16) + ", base " + std::to_string(base) + ") wrote `" + show(std::string((char *)b.p, len + 1)) + "`, canonical text is `" + ref + "`");
    if (r != (char *)b.p) o.fail(fn + " did not return buf");
    if (!valid) { o.tag("base-out-of-range"); return; }
    o.tag(fn.c_str());
    uint64_t p = v & wmask(bits);
    if (sgn && (p >> (bits - 1)) & 1) o.tag(p == (1ull << (bits - 1)) ? "minimum" : "negative");
}

static void run_atol(const std::vector<std::string> &w, out &o)
{
    bytes s = unhex(w[1]);
    if (s.empty() || s.back() != 0) { o.result = "bad-op"; return; }
    exact_buf b(s);
    long l = igv_atol((const char *)b.p);
    int i = igv_atoi((const char *)b.p);
    o.result = hexn((uint64_t)l, 16) + " " + hexn((uint32_t)i, 8);
    errno = 0;
    long g = strtol((const char *)s.data(), 0, 10);
    if (errno == 0)
    {
        if (g != l) o.fail("atol(`" + show(std::string((char *)s.data())) + "`) = " + std::to_string(l) + ", strtol gives " + std::to_string(g));
        if ((int)g != i) o.fail("atoi(`" + show(std::string((char *)s.data())) + "`) = " + std::to_string(i));
    }
    o.tag("atol");
    if (g < 0) o.tag("negative");
    if (g == LONG_MIN) o.tag("minimum");
    if (isspace(s[0])) o.tag("leading-space");
}

static void run_dpr(const std::vector<std::string> &w, out &o)
{
    const DFn *f = 0;
    for (int i = 0; i < NDFN; i++)
        if (w[1] == DFNS[i].name) f = &DFNS[i];
    if (!f) { o.result = "bad-op"; return; }
    uint64_t v = h64(w[2]);
    cap_clear();
    f->call(v);
    std::string g_out = cap_str();
    o.result = hex(g_out);
    std::string ref = ref_dprint(*f, v);
    if (g_out != ref)
        o.fail(std::string("debug_print ") + f->name + "(" + hexn(v, 16) + ") emitted `" + show(g_out) + "`, canonical text is `" + ref + "`");
    o.tag(f->fmt == 'd' ? "dprint-dec" : f->fmt == 'x' ? "dprint-hex" : "dprint-bin");
    uint64_t p = v & wmask(f->bits);
    if (f->sgn && (p >> (f->bits - 1)) & 1) o.tag(p == (1ull << (f->bits - 1)) ? "minimum" : "negative");
}

static void run_vt(const std::vector<std::string> &w, out &o)
{
    int arg = (int)(uint32_t)h64(w[1]);
    char ref[40];
    int len = snprintf(ref, sizeof ref, "\x1b[%dD", arg);
    exact_buf b((size_t)len + 1);
    int r = vt100_left((char *)b.p, arg);
    o.result = hex(b.p, b.n) + " " + std::to_string(r);
    if (memcmp(b.p, ref, len + 1) || r != len) o.fail("vt100_left(" + std::to_string(arg) + ")");
    o.tag("vt100");
}


// ------------------------------------------------------------------ round 3 ops
static std::string show_stream(const std::string &t)
{
    fnv h;
    for (unsigned char c : t) h.byte(c);
    return std::to_string(t.size()) + " " + hexn(h.h, 16) + " " + (t.empty() ? std::string("-") : hex(t.substr(0, 48)));
}
static bytes repeat_bytes(const bytes &b, size_t rep)
{
    bytes m;
    for (size_t i = 0; i < rep; i++) m.insert(m.end(), b.begin(), b.end());
    return m;
}
static std::string first_diff(const std::string &a, const std::string &b)
{
    size_t i = 0;
    while (i < a.size() && i < b.size() && a[i] == b[i]) i++;
    size_t lo = i < 12 ? 0 : i - 12;
    return "at character " + std::to_string(i) + ": emitted `" + show(a.substr(lo, 40)) + "`, expected `" + show(b.substr(lo, 40)) + "`";
}

static void run_wh(const std::vector<std::string> &w, out &o)
{
    const std::string &fn = w[1];
    size_t p = strtoull(w[2].c_str(), 0, 10), size = strtoull(w[3].c_str(), 0, 10), rep = strtoull(w[4].c_str(), 0, 10);
    bytes mem = repeat_bytes(unhex(w[5]), rep);
    if (p + size != mem.size() || size > 65535) { o.result = "bad-op"; return; } // the block ends where the routine must stop
    exact_buf b(mem);
    cap_clear();
    if (fn == "hex") debug_writehex(b.p + p, (uint16_t)size);
    else if (fn == "hexr") debug_writehex_reversed(b.p + p, (uint16_t)size);
    else if (fn == "bin") debug_writebin(b.p + p, (uint16_t)size);
    else if (fn == "binr") debug_writebin_reversed(b.p + p, (uint16_t)size);
    else if (fn == "hexn") debug_printhex_n(b.p + p, (int)size);
    else { o.result = "bad-op"; return; }
    std::string got = cap_str();
    o.result = show_stream(got);
    // reference: one byte at a time, in the documented order
    std::string ref;
    bool rev = fn == "hexr" || fn == "binr" || fn == "hexn";
    for (size_t i = 0; i < size; i++)
    {
        uint8_t x = mem[p + (rev ? size - 1 - i : i)];
        if (fn[0] == 'h') { ref.push_back(AL_UP[x >> 4]); ref.push_back(AL_UP[x & 15]); }
        else for (int bit = 7; bit >= 0; bit--) ref.push_back((x >> bit) & 1 ? '1' : '0');
    }
    if (got != ref) o.fail("debug_write " + fn + " of " + std::to_string(size) + " bytes " + first_diff(got, ref));
    o.tag(("write-" + fn).c_str());
    if (size == 0) o.tag("size-0");
    if (size >= 255 && size <= 257) o.tag("size-around-256");
    if (size == 65535) o.tag("size-65535");
    if (got.size() >= 300 * 1024) o.tag("output-300KiB");
}

static void run_dump(const std::vector<std::string> &w, out &o)
{
    size_t len = strtoull(w[1].c_str(), 0, 10), rep = strtoull(w[2].c_str(), 0, 10);
    bytes mem = repeat_bytes(unhex(w[3]), rep);
    if (len != mem.size() || len > 65535) { o.result = "bad-op"; return; }
    exact_buf b(mem);
    cap_clear();
    debug_print_dump(b.p, (uint16_t)len);
    std::string got = cap_str();
    // reference
    std::string ref, canon;
    size_t rows = (len + 7) / 8;
    for (size_t r = 0; r < rows; r++)
    {
        char t[40];
        snprintf(t, sizeof t, "0x%016llX:", (unsigned long long)(uintptr_t)(b.p + 8 * r));
        ref += t;
        for (size_t j = 8 * r; j < 8 * r + 8; j++)
            if (j < len) { snprintf(t, sizeof t, "%02X ", mem[j]); ref += t; }
            else ref += "   ";
        for (size_t j = 8 * r; j < 8 * r + 8; j++)
            if (j >= len) ref.push_back(' ');
            else ref.push_back(mem[j] >= 32 && mem[j] <= 126 ? (char)mem[j] : '.'); // printable: as is, everything else '.'
        ref += "\r\n";
    }
    if (got != ref) o.fail("debug_print_dump of " + std::to_string(len) + " bytes " + first_diff(got, ref));
    // the address column relative to mem (what the model prints with mem = 0)
    canon = got;
    const size_t ROW = 2 + 16 + 1 + 24 + 8 + 2;
    if (canon.size() == rows * ROW)
        for (size_t r = 0; r < rows; r++)
        {
            std::string a = canon.substr(r * ROW + 2, 16);
            bool hx = true;
            for (char c : a) if (!((c >= '0' && c <= '9') || (c >= 'A' && c <= 'F'))) hx = false;
            if (!hx) continue;
            uint64_t v = strtoull(a.c_str(), 0, 16) - (uint64_t)(uintptr_t)b.p;
            char t[24];
            snprintf(t, sizeof t, "%016llX", (unsigned long long)v);
            canon.replace(r * ROW + 2, 16, t);
        }
    o.result = show_stream(canon);
    o.tag("dump");
    if (len == 0) o.tag("size-0");
    if (len % 8) o.tag("partial-row");
    if (len == 65535) o.tag("size-65535");
    if (got.size() >= 300 * 1024) o.tag("output-300KiB");
    bool np = false, hi = false;
    for (uint8_t x : mem) { if (x < 32 || x == 127) np = true; if (x >= 128) hi = true; }
    if (np) o.tag("control-char");
    if (hi) o.tag("high-bit-char");
}

static void run_hxa(const std::vector<std::string> &w, out &o)
{
    int W = atoi(w[1].c_str());
    uint64_t v = h64(w[2]) & wmask(W);
    int n = W / 4;
    if (W != 8 && W != 16 && W != 32 && W != 64) { o.result = "bad-op"; return; }
    exact_buf b((size_t)n);
    switch (W)
    {
    case 8: uint8_to_hex((char *)b.p, (uint8_t)v); break;
    case 16: uint16_to_hex((char *)b.p, (uint16_t)v); break;
    case 32: uint32_to_hex((char *)b.p, (uint32_t)v); break;
    default: uint64_to_hex((char *)b.p, (uint64_t)v); break;
    }
    std::string txt((char *)b.p, n);
    auto back = [&](const std::string &t) -> uint64_t {
        exact_buf c(bytes(t.begin(), t.end()));
        switch (W)
        {
        case 8: return hex_to_uint8((char *)c.p);
        case 16: return hex_to_uint16((char *)c.p);
        case 32: return hex_to_uint32((char *)c.p);
        default: return hex_to_uint64((char *)c.p);
        }
    };
    uint64_t b1 = back(txt), b2 = back(flipcase(txt));
    o.result = hex(txt) + " " + hexn(b1, n) + " " + hexn(b2, n);
    char ref[24];
    snprintf(ref, sizeof ref, "%0*llX", n, (unsigned long long)v);
    if (txt != ref) o.fail("uint" + std::to_string(W) + "_to_hex(" + hexn(v, n) + ") wrote `" + show(txt) + "`, fixed-width upper-case text is `" + ref + "`");
    if (b1 != v) o.fail("hex_to_uint" + std::to_string(W) + "(`" + show(txt) + "`) = " + hexn(b1, n));
    if (b2 != v) o.fail("hex_to_uint" + std::to_string(W) + "(`" + show(flipcase(txt)) + "`) = " + hexn(b2, n) + " (lower-case text of " + hexn(v, n) + ")");
    o.tag(("hexascii-" + std::to_string(W)).c_str());
}

template <class T> static std::string tsig() { return std::to_string(sizeof(T)) + (std::is_signed<T>::value ? "s" : "u"); }
template <class R, class A, class B, class C> static std::string toasig(R (*)(A, B, C)) { return tsig<A>() + "/" + tsig<C>(); }
template <class R, class A, class B, class C> static std::string atosig(R (*)(A, B, C)) { return tsig<R>() + "/" + tsig<B>(); }
template <class R, class A> static std::string argsig(R (*)(A)) { return tsig<A>(); }
template <class R, class A> static std::string retsig(R (*)(A)) { return tsig<R>(); }
template <class R, class A, class B> static std::string arg2sig(R (*)(A, B)) { return tsig<B>(); }
static std::string join(const std::vector<std::string> &v)
{
    std::string r;
    for (size_t i = 0; i < v.size(); i++) r += (i ? "," : "") + v[i];
    return r;
}

static void run_consts(out &o)
{
    uint16_t probe = 0x0102;
    std::string r = "int=" + std::to_string(sizeof(int)) + " long=" + std::to_string(sizeof(long)) + " short=" + std::to_string(sizeof(short)) +
                    " ptr=" + std::to_string(sizeof(uintptr_t)) + " char=" + (CHAR_MIN < 0 ? "s" : "u") + " " + (*(uint8_t *)&probe == 2 ? "le" : "be") + " ";
    r += "toa:" + join({toasig(igris_i8toa), toasig(igris_i16toa), toasig(igris_i32toa), toasig(igris_i64toa), toasig(igris_u8toa), toasig(igris_u16toa),
                        toasig(igris_u32toa), toasig(igris_u64toa)}) + " ";
    r += "ato:" + join({atosig(igris_atoi8), atosig(igris_atoi16), atosig(igris_atoi32), atosig(igris_atoi64), atosig(igris_atou8), atosig(igris_atou16),
                        atosig(igris_atou32), atosig(igris_atou64)}) + " ";
    r += "lc:" + join({toasig(igv_itoa), toasig(igv_utoa), toasig(igv_ltoa), toasig(igv_ultoa)}) + " atol:" + retsig(igv_atol) + " atoi:" + retsig(igv_atoi) + " ";
    r += "dpr:" + join({argsig(debug_printdec_uint8), argsig(debug_printdec_uint16), argsig(debug_printdec_uint32), argsig(debug_printdec_uint64),
                        argsig(debug_printdec_unsigned_char), argsig(debug_printdec_unsigned_short), argsig(debug_printdec_unsigned_int),
                        argsig(debug_printdec_unsigned_long), argsig(debug_printdec_unsigned_long_long), argsig(debug_printdec_signed_char),
                        argsig(debug_printdec_signed_short), argsig(debug_printdec_signed_int), argsig(debug_printdec_signed_long),
                        argsig(debug_printdec_signed_long_long), argsig(debug_printhex_uint4), argsig(debug_printhex_uint8), argsig(debug_printhex_uint16),
                        argsig(debug_printhex_uint32), argsig(debug_printhex_uint64), argsig(debug_printhex_char), argsig(debug_printhex_unsigned_char),
                        argsig(debug_printhex_unsigned_short), argsig(debug_printhex_unsigned_int), argsig(debug_printhex_unsigned_long),
                        argsig(debug_printhex_unsigned_long_long), argsig(debug_printhex_signed_char), argsig(debug_printhex_signed_short),
                        argsig(debug_printhex_signed_int), argsig(debug_printhex_signed_long), argsig(debug_printhex_signed_long_long),
                        argsig(debug_printbin_uint4), argsig(debug_printbin_uint8), argsig(debug_printbin_uint16), argsig(debug_printbin_uint32),
                        argsig(debug_printbin_uint64)}) + " ";
    r += "wh:" + join({arg2sig(debug_writehex), arg2sig(debug_writehex_reversed), arg2sig(debug_writebin), arg2sig(debug_writebin_reversed),
                       arg2sig(debug_printhex_n)}) + " dump:" + arg2sig(debug_print_dump) + " vt:" + arg2sig(vt100_left);
    o.result = r;
    o.tag("consts");
}

static void run_tbl(const std::vector<std::string> &w, out &o)
{
    const std::string &t = w[1];
    o.tag(("table-" + t).c_str());
    if (t == "h2x")
    {
        bytes r;
        for (unsigned n = 0; n < 256; n++) r.push_back((uint8_t)half2hex((uint8_t)n));
        o.result = hex(r);
        for (unsigned n = 0; n < 16; n++)
            if (r[n] != (uint8_t)AL_UP[n]) o.fail("half2hex(" + std::to_string(n) + ") = `" + show(std::string(1, (char)r[n])) + "`");
    }
    else if (t == "dv")
    {
        bytes r;
        for (unsigned c = 0; c < 256; c++)
        {
            bytes s = {(uint8_t)c, 0};
            exact_buf b(s);
            char *e = 0;
            uint8_t v = igris_atou8((const char *)b.p, 255, &e);
            long end = e - (char *)b.p;
            r.push_back((uint8_t)(v + 128 * end));
            int want = ref_dv((uint8_t)c);
            if (want < 36 ? (v != want || end != 1) : (v != 0 || end != 0))
                o.fail("digit value of character " + hexn(c, 2) + ": igris_atou8 in base 255 gives " + std::to_string(v) + " end " + std::to_string(end));
        }
        o.result = hex(r);
    }
    else if (t == "cty")
    {
        std::string r;
        for (int c = -128; c < 256; c++)
        {
            unsigned m = (igris_isdigit(c) ? 1 : 0) | (igris_isxdigit(c) ? 2 : 0) | (igris_isblank(c) ? 4 : 0) | (igris_isspace(c) ? 8 : 0) |
                         (igris_isupper(c) ? 16 : 0) | (igris_islower(c) ? 32 : 0) | (igris_isalpha(c) ? 64 : 0) | (igris_isalnum(c) ? 128 : 0) |
                         (igris_isprint(c) ? 256 : 0);
            int up = igris_toupper(c), lo = igris_tolower(c);
            r += hexn(m, 4) + hexn((uint8_t)(up - c + 128), 2) + hexn((uint8_t)(lo - c + 128), 2);
            // host <ctype.h> ("C" locale) inside ASCII; nothing outside it
            bool a = c >= 0 && c < 128;
            unsigned want = !a ? 0 : ((isdigit(c) ? 1 : 0) | (isxdigit(c) ? 2 : 0) | (isblank(c) ? 4 : 0) | (isspace(c) ? 8 : 0) | (isupper(c) ? 16 : 0) |
                                      (islower(c) ? 32 : 0) | (isalpha(c) ? 64 : 0) | (isalnum(c) ? 128 : 0) | (isprint(c) ? 256 : 0));
            int wup = a ? toupper(c) : c, wlo = a ? tolower(c) : c;
            if (m != want || up != wup || lo != wlo) o.fail("igris ctype of " + std::to_string(c) + ": mask " + hexn(m, 4) + " (host " + hexn(want, 4) + ")");
        }
        o.result = r;
    }
    else if (t == "alpha")
    {
        std::string r, ref;
        char buf[16];
        for (int fn = 0; fn < 6; fn++)
            for (int d = 0; d < 36; d++)
            {
                memset(buf, 0, sizeof buf);
                switch (fn)
                {
                case 0: igris_i64toa(d, buf, 36); break;
                case 1: igris_u64toa(d, buf, 36); break;
                case 2: igv_itoa(d, buf, 36); break;
                case 3: igv_utoa(d, buf, 36); break;
                case 4: igv_ltoa(d, buf, 36); break;
                default: igv_ultoa(d, buf, 36); break;
                }
                r += buf;
                ref.push_back(fn == 1 ? AL_UP[d] : AL_LO[d]);
            }
        cap_clear();
        for (int d = 0; d < 16; d++) debug_printhex_uint4((uint8_t)d);
        r += cap_str();
        for (int d = 0; d < 16; d++) r.push_back(half2hex((uint8_t)d));
        ref += std::string(AL_UP, 16) + std::string(AL_UP, 16);
        o.result = hex(r);
        if (r != ref) o.fail("digit alphabets: `" + show(r) + "`");
    }
    else o.result = "bad-op";
}

static void run_pre(out &o)
{
    const PreMain &g = g_pre;
    o.result = hex(std::string(g.a)) + " " + hex(std::string(g.b)) + " " + hexn(g.cv, 8) + "/" + std::to_string(g.ce) + " " + hex(std::string(g.d, g.dn)) + " " +
               hex(std::string(g.e, g.en)) + " " + hex(std::string(g.f));
    if (std::string(g.a) != "-2147483648" || std::string(g.b) != std::string(64, '1') || g.cv != 0xffffffffu || g.ce != 10 ||
        std::string(g.d, g.dn) != "-9223372036854775808" || std::string(g.e, g.en) != "DEADBEEF" || std::string(g.f) != "-ff")
        o.fail("a conversion called before main() gave a different text");
    o.tag("before-main");
}

static int ref_len(u128 mag, unsigned base)
{
    int k = 1;
    u128 p = base;
    while (p <= mag) { p *= base; k++; }
    return k;
}
static void run_maxlen(const std::vector<std::string> &w, out &o)
{
    int k = kind_of(w[1]);
    unsigned base = (unsigned)strtoul(w[2].c_str(), 0, 10);
    if (base < 2 || base > 36) { o.result = "bad-op"; return; }
    int bits = KBITS[k];
    bool sgn = ksigned(k);
    uint64_t vmax = sgn ? wmask(bits) >> 1 : wmask(bits);
    int lmax = ref_len(vmax, base), lmin = sgn ? 1 + ref_len((u128)vmax + 1, base) : 0;
    long got[2] = {-1, -1};
    for (int i = 0; i < (sgn ? 2 : 1); i++)
    {
        int len = i ? lmin : lmax;
        exact_buf b((size_t)len + 1); // the longest text of the kind fits exactly
        char *r = call_toa(k, extend(i ? vmax + 1 : vmax, bits, sgn), (char *)b.p, (uint8_t)base);
        got[i] = r - (char *)b.p;
        if (got[i] != len || b.p[len] != 0 || strlen((char *)b.p) != (size_t)len)
            o.fail(std::string("longest text of ") + KNAME[k] + " in base " + std::to_string(base) + ": expected " + std::to_string(len) + " characters");
    }
    o.result = std::to_string(got[0]) + " " + (sgn ? std::to_string(got[1]) : std::string("-"));
    o.tag("longest-text-of-kind");
}

static void run_atorep(const std::vector<std::string> &w, out &o)
{
    int k = kind_of(w[1]);
    unsigned base = (unsigned)strtoul(w[2].c_str(), 0, 10);
    size_t len = strtoull(w[3].c_str(), 0, 10);
    bytes pat = unhex(w[4]), tail = unhex(w[5]);
    if (tail.empty() || tail.back() != 0) { o.result = "bad-op"; return; }
    bytes s;
    if (!pat.empty())
        for (size_t i = 0; i < len; i++) s.push_back(pat[i % pat.size()]);
    s.insert(s.end(), tail.begin(), tail.end());
    int bits = KBITS[k];
    exact_buf b(s);
    char *e = 0;
    uint64_t v = call_ato(k, (const char *)b.p, (uint8_t)base, &e);
    long end = e - (char *)b.p;
    o.result = hexn(v, bits / 4) + " " + std::to_string(end);
    size_t rend;
    bool wrapped;
    uint64_t rv = ref_parse(s.data(), bits, ksigned(k), base, &rend, &wrapped);
    if (v != rv || end != (long)rend)
        o.fail(std::string("igris_ato") + KNAME[k] + " on " + std::to_string(s.size()) + " bytes, base " + std::to_string(base) + ": " + hexn(v, bits / 4) + " end " +
               std::to_string(end) + ", expected " + hexn(rv, bits / 4) + " end " + std::to_string(rend));
    o.tag("long-text");
    if (rend >= 300 * 1024) o.tag("input-300KiB");
    if (rend >= 65535 && rend <= 65537) o.tag("length-around-65536");
    if (wrapped) o.tag("wraps");
}

static void run_seq(const std::vector<std::string> &w, out &o)
{
    int k = kind_of(w[1]);
    uint64_t v = extend(h64(w[2]), KBITS[k], ksigned(k));
    exact_buf b((size_t)72);
    bytes prev = b.vec();
    size_t pos = 0;
    const std::string &bs = w[3];
    while (pos <= bs.size())
    {
        size_t c = bs.find(',', pos);
        if (c == std::string::npos) c = bs.size();
        unsigned base = (unsigned)strtoul(bs.substr(pos, c - pos).c_str(), 0, 10);
        pos = c + 1;
        bool valid = base >= 2 && base <= 36;
        char ref[80];
        int len = valid ? ref_text(v, KBITS[k], ksigned(k), base, !ksigned(k), ref) : 0;
        ref[len] = 0;
        char *r = call_toa(k, v, (char *)b.p, (uint8_t)base);
        if (memcmp(b.p, ref, len + 1) || r != (char *)b.p + len)
            o.fail(std::string("igris_") + KNAME[k] + "toa into a buffer that held an earlier text: base " + std::to_string(base) + " wrote `" + show(std::string((char *)b.p, len + 1)) + "`");
        for (size_t i = len + 1; i < 72; i++)
            if (b.p[i] != prev[i]) { o.fail("bytes behind the terminator changed (offset " + std::to_string(i) + ", base " + std::to_string(base) + ")"); break; }
        prev = b.vec();
    }
    size_t t = 0;
    for (size_t i = 0; i < 72; i++) if (b.p[i] != 0xA5) t = i + 1;
    o.result = t ? hex(b.p, t) : std::string("-");
    o.tag("same-buffer-several-bases");
}


static void run_asml(const std::vector<std::string> &w, out &o)
{
    int W = atoi(w[1].c_str());
    size_t n = w.size() - 2;
    uint64_t v[4] = {0, 0, 0, 0};
    for (size_t i = 0; i < n; i++) v[i] = h64(w[2 + i]) & wmask(W);
    if (W != 8 && W != 16 && W != 32) { o.result = "bad-op"; return; }
    cap_clear();
    c07_asmlink_args(W, (int)n, v);
    std::string got = cap_str(), ref;
    o.result = hex(got);
    for (size_t i = 0; i < n; i++)
    {
        char t[24];
        snprintf(t, sizeof t, "%0*llX:", W / 4, (unsigned long long)v[i]);
        ref += t;
    }
    if (got != ref) o.fail("debug_asmlink_args" + std::to_string(W) + "x" + std::to_string(n) + " emitted `" + show(got) + "`, expected `" + ref + "`");
    o.tag("asmlink-args");
}
static void run_asmr(const std::vector<std::string> &w, out &o)
{
    uint64_t v = h64(w[1]);
    cap_clear();
    c07_asmlink_test();
    std::string t = cap_str();
    cap_clear();
    dprptr((const void *)(uintptr_t)v);
    std::string a = cap_str();
    cap_clear();
    dprptrln((const void *)(uintptr_t)v);
    std::string b = cap_str();
    cap_clear();
    debug_print((const char *)0);
    std::string nul = cap_str();
    o.result = hexn(c07_asmlink_ret(8), 2) + " " + hexn(c07_asmlink_ret(16), 4) + " " + hexn(c07_asmlink_ret(32), 8) + " " + hexn(c07_asmlink_ret(64), 16) + " " +
               hex(t) + " " + hex(a) + " " + hex(b) + " " + hex(nul);
    char ref[24];
    snprintf(ref, sizeof ref, "%016llX", (unsigned long long)v);
    if (a != ref || b != std::string(ref) + "\r\n") o.fail("dprptr(" + hexn(v, 16) + ") emitted `" + show(a) + "` / `" + show(b) + "`");
    if (t != "ABCDE12345" || nul != "NULL") o.fail("debug_asmlink_test / debug_print(NULL)");
    if (c07_asmlink_ret(8) != 0xFE || c07_asmlink_ret(16) != 0xFEDC || c07_asmlink_ret(32) != 0xFEDCBA98u || c07_asmlink_ret(64) != 0xFEDCBA9876543210ull)
        o.fail("debug_asmlink_ret constants");
    o.tag("asmlink-ret-dprptr");
}

static void run_op(const std::vector<std::string> &w, const std::string &, out &o)
{
    // hv::main_ arms a 3 s watchdog per op.  On this (virtualised, shared) machine a process
    // is occasionally not scheduled for seconds (steal time): 50 ms sweep ops were seen to hit
    // the 3 s limit under external load.  None of the routines under test has an unbounded
    // loop that a stall could be confused with for long, so give every op 20 s instead.
    hv::arm(20);
    if (!g_block) g_block = (uint8_t *)malloc(BLK);
    if (w.empty()) { o.result = "bad-op"; return; }
    if (w[0] == "twin" && w.size() >= 2 && !g_twin)
    {
        std::vector<std::string> w2(w.begin() + 1, w.end());
        if (w2[0] != "toa" && w2[0] != "ato" && w2[0] != "h2h") { o.result = "bad-op"; return; }
        g_twin = true;
        run_op(w2, "", o);
        g_twin = false;
        o.tag("std_portable-twin");
        return;
    }
    const std::string &op = w[0];
    if (op == "reset") o.result = "ok";
    else if (op == "toa" && w.size() == 4 && kind_of(w[1]) >= 0) run_toa(w, o);
    else if (op == "rng" && w.size() == 6 && kind_of(w[1]) >= 0) run_rng(w, o, false);
    else if (op == "sweep" && w.size() == 5 && kind_of(w[1]) >= 0) run_rng(w, o, true);
    else if (op == "ato" && w.size() == 4 && kind_of(w[1]) >= 0) run_ato(w, o);
    else if (op == "lc" && w.size() == 4) run_lc(w, o);
    else if (op == "atol" && w.size() == 2) run_atol(w, o);
    else if (op == "dpr" && w.size() == 3) run_dpr(w, o);
    else if (op == "vt" && w.size() == 2) run_vt(w, o);
    else if (op == "wh" && w.size() == 6) run_wh(w, o);
    else if (op == "dump" && w.size() == 4) run_dump(w, o);
    else if (op == "hxa" && w.size() == 3) run_hxa(w, o);
    else if (op == "tbl" && w.size() == 2) run_tbl(w, o);
    else if (op == "consts" && w.size() == 1) run_consts(o);
    else if (op == "pre" && w.size() == 1) run_pre(o);
    else if (op == "maxlen" && w.size() == 3 && kind_of(w[1]) >= 0) run_maxlen(w, o);
    else if (op == "atorep" && w.size() == 6 && kind_of(w[1]) >= 0) run_atorep(w, o);
    else if (op == "seq" && w.size() == 4 && kind_of(w[1]) >= 0) run_seq(w, o);
    else if (op == "asml" && w.size() >= 3 && w.size() <= 6) run_asml(w, o);
    else if (op == "asmr" && w.size() == 2) run_asmr(w, o);
    else if (op == "h2h" && w.size() == 2)
    {
        uint8_t c = (uint8_t)h64(w[1]);
        uint8_t r = g_twin ? c07_twin_hex2half((char)c) : hex2half((char)c);
        o.result = hexn(r, 2);
        int want = hexval((char)c);
        if (want >= 0)
        {
            o.tag(c >= 'a' ? "hex-lower" : c >= 'A' ? "hex-upper" : "hex-decimal");
            if (r != want) o.fail("hex2half('" + show(std::string(1, (char)c)) + "') = " + std::to_string(r));
        }
    }
    else o.result = "bad-op";
}

// ------------------------------------------------------------------ gen
static std::vector<uint64_t> boundary_values(rng &r, int bits, bool sgn, unsigned base, int nrand)
{
    std::vector<uint64_t> v;
    uint64_t m = wmask(bits);
    auto add = [&](uint64_t x) { v.push_back(extend(x, bits, sgn)); };
    uint64_t top = sgn ? (m >> 1) : m; // largest magnitude on the positive side
    for (uint64_t x : {0ull, 1ull, 2ull, 9ull, 10ull, 11ull, 35ull, 36ull, 37ull}) { add(x); if (sgn) add(0 - x); }
    add(top); add(top - 1);
    if (sgn) { add(top + 1); add(top + 2); } // minimum, minimum + 1
    if (base >= 2)
    {
        add(base - 1); add(base); add(base + 1);
        if (sgn) { add(0 - (uint64_t)(base - 1)); add(0 - (uint64_t)base); }
        // powers of the base: every length boundary of the text
        std::vector<uint64_t> pw;
        u128 p = base;
        while (p <= (u128)top) { pw.push_back((uint64_t)p); p *= base; }
        size_t take = pw.size() <= 6 ? pw.size() : 6;
        for (size_t i = 0; i < take; i++)
        {
            uint64_t q = (i < 2 && pw.size() > 6) ? pw[pw.size() - 1 - i] : pw[r.below(pw.size())];
            add(q); add(q - 1); add(q + 1);
            if (sgn) { add(0 - q); add(0 - (q - 1)); }
        }
    }
    for (int i = 0; i < nrand; i++)
    {
        // uniform in the bit length, so that short and long texts are equally likely
        int len = (int)r.range(0, bits);
        uint64_t x = len == 0 ? 0 : (r.next() & wmask(len)) | (1ull << (len - 1));
        if (len == 64) x = r.next();
        add(x);
    }
    return v;
}

static std::string digit_string(rng &r, unsigned base, int len)
{
    std::string s;
    unsigned lim = base < 1 ? 1 : (base > 36 ? 36 : base);
    for (int i = 0; i < len; i++)
    {
        unsigned d = (unsigned)r.below(lim);
        if (r.chance(15)) d = lim - 1; // the largest digit of the base
        s.push_back(r.chance(50) ? AL_LO[d] : AL_UP[d]);
    }
    return s;
}
static void emit_ato(int k, unsigned base, const std::string &s)
{
    // s must end with a NUL byte
    printf("ato %s %u %s\n", KNAME[k], base, hex(s).c_str());
}

static uint64_t g_seed = 1;
static const unsigned NPART = 16; // = thorough_seeds in checks/C07.json

static void gen(rng &r, const std::string &tier)
{
    bool th = tier == "thorough";
    const unsigned odd_bases[] = {0, 1, 37, 64, 255};
    // (0) hex2half on every character
    for (unsigned c = 0; c < 256; c++) printf("h2h %02x\n", c);

    // (1) exhaustive 8-bit and 16-bit values x all bases (as ranges, model and code hashed)
    for (unsigned base = 2; base <= 36; base++)
        for (int k : {I8, U8})
            printf("rng %s %u %016llx 256 1\n", KNAME[k], base, k == I8 ? 0xffffffffffffff80ull : 0ull);
    // every 16-bit value x every base on the code (oracle: odometer reference + parse back) ...
    for (unsigned base = 2; base <= 36; base++)
        for (int k : {I16, U16})
            printf("sweep %s %u %016llx 65536\n", KNAME[k], base, k == I16 ? 0xffffffffffff8000ull : 0ull);
    // ... and model against code on every 16-bit value for a subset of the bases: 2, 10, 16, 36
    // and four seed-chosen ones in the quick tier; in the thorough tier the 35 bases are
    // dealt out over the NPART parallel seeds, so one thorough run covers all of them
    {
        std::vector<unsigned> sel = {2, 10, 16, 36};
        if (th) { for (unsigned b = 2; b <= 36; b++) if (b % NPART == g_seed % NPART) sel.push_back(b); }
        else for (int i = 0; i < 4; i++) sel.push_back((unsigned)r.range(3, 35));
        for (unsigned base : sel)
            for (int k : {I16, U16})
                for (unsigned c = 0; c < 8; c++)
                    printf("rng %s %u %016llx 8192 1\n", KNAME[k], base, (unsigned long long)extend(c * 8192ull + (k == I16 ? 0x8000 : 0), 16, k == I16));
    }

    // (2) boundary-biased single values, every kind x every base (+ bases outside 2..36)
    for (int k = 0; k < NKIND; k++)
    {
        for (unsigned base = 2; base <= 36; base++)
            for (uint64_t v : boundary_values(r, KBITS[k], ksigned(k), base, th ? 24 : 6))
                printf("toa %s %u %016llx\n", KNAME[k], base, (unsigned long long)v);
        for (unsigned base : odd_bases)
            for (uint64_t v : {(uint64_t)0, (uint64_t)1, wmask(KBITS[k]), (uint64_t)12345})
                printf("toa %s %u %016llx\n", KNAME[k], base, (unsigned long long)extend(v, KBITS[k], ksigned(k)));
    }
    // sampled 32- and 64-bit ranges with large odd strides (model hashed against code)
    for (unsigned base = 2; base <= 36; base++)
        for (int ki = 0; ki < 4; ki++)
        {
            static const int K4[4] = {I32, U32, I64, U64};
            const int k = K4[ki];
            printf("rng %s %u %016llx %d %llu\n", KNAME[k], base, (unsigned long long)r.next(), th ? 4096 : 256,
                   (unsigned long long)((r.next() >> (KBITS[k] == 32 ? 44 : 6)) | 1));
        }

    // (3) parse side: digit strings of each base followed by every terminator byte
    std::vector<unsigned> bases;
    for (unsigned b = 2; b <= 36; b++) bases.push_back(b);
    for (unsigned b : odd_bases) bases.push_back(b);
    for (unsigned base : bases)
        for (unsigned t = 0; t < 256; t++)
            for (int k = 0; k < NKIND; k++)
            {
                if (!th && (int)((base + t) % NKIND) != k) continue;
                int mode = (int)r.below(10);
                int len = mode == 0 ? 0 : mode <= 6 ? (int)r.range(1, 8) : mode <= 8 ? (int)r.range(9, 22) : (int)r.range(23, 70);
                std::string s;
                if (r.chance(ksigned(k) ? 35 : 8)) s += '-';
                s += digit_string(r, base, len);
                s.push_back((char)t);
                int extra = (int)r.below(4);
                for (int i = 0; i < extra; i++) s.push_back(r.chance(50) ? AL_LO[r.below(36)] : (char)r.next());
                s.push_back(0);
                // the string must stay NUL terminated: an embedded NUL is fine, the tail is then unread
                emit_ato(k, base, s);
            }
    // texts around the overflow boundary of every width, odd prefixes
    for (unsigned base : {2u, 3u, 7u, 8u, 10u, 16u, 17u, 35u, 36u})
        for (int k = 0; k < NKIND; k++)
        {
            char t[80];
            int bits = KBITS[k];
            for (uint64_t v : {wmask(bits), wmask(bits) >> 1, (wmask(bits) >> 1) + 1, (uint64_t)0})
            {
                ref_text(v, 64, false, base, r.chance(50), t);
                std::string s = t;
                emit_ato(k, base, s + std::string(1, '\0'));
                emit_ato(k, base, "-" + s + std::string(1, '\0'));
                emit_ato(k, base, s + "0" + std::string(1, '\0'));          // one digit too many
                emit_ato(k, base, "000" + s + " " + std::string(1, '\0'));  // leading zeros are digits
            }
            for (const char *odd : {"", "-", "--1", "+1", " 1", "-+1", "0x1f", "1-", "1.", "1.0", "-0", "z", "Z", "zZ9", "\x80", "\xff" "1", "@", "[", "`", "{", "/", ":"})
                emit_ato(k, base, std::string(odd) + std::string(1, '\0'));
        }

    // (4) libc shims
    for (const char *fn : {"itoa", "utoa", "ltoa", "ultoa"})
    {
        int bits = fn[0] == 'l' || fn[1] == 'l' ? 64 : 32;
        bool sgn = fn[0] == 'i' || fn[0] == 'l';
        for (unsigned base = 2; base <= 36; base++)
            for (uint64_t v : boundary_values(r, bits, sgn, base, th ? 16 : 4))
                printf("lc %s %u %016llx\n", fn, base, (unsigned long long)v);
        for (unsigned base : {0u, 1u, 37u, 266u, 65535u, 256u + 16u})
            for (uint64_t v : {(uint64_t)0, (uint64_t)255, wmask(bits)})
                printf("lc %s %u %016llx\n", fn, base, (unsigned long long)extend(v, bits, sgn));
    }
    // atol/atoi on the decimal text of longs (the value always fits; LONG_MIN is the probe below)
    {
        std::vector<uint64_t> vals = boundary_values(r, 64, true, 10, th ? 600 : 150);
        for (uint64_t v : boundary_values(r, 32, true, 10, th ? 200 : 50)) vals.push_back(v);
        for (uint64_t v : vals)
        {
            if (v == 0x8000000000000000ull) continue;
            char t[80];
            ref_text(v, 64, true, 10, false, t);
            std::string s;
            int sp = r.chance(30) ? (int)r.below(4) : 0;
            for (int i = 0; i < sp; i++) s.push_back(" \t\n\v\f\r"[r.below(6)]);
            if (t[0] != '-' && r.chance(20)) s.push_back('+');
            s += t;
            if (r.chance(40)) s += r.chance(50) ? std::string(1, (char)r.range(1, 255)) : std::string(".5e3");
            s.push_back(0);
            bool ok = true;
            {
                errno = 0;
                strtol(s.c_str(), 0, 10);
                if (errno) ok = false; // an appended digit overflowed: outside the stream by construction
            }
            if (ok) printf("atol %s\n", hex(s).c_str());
        }
        for (const char *odd : {"", " ", "-", "+", "+-1", "- 1", "abc", "\x80" "1", "00012", "-0"})
            printf("atol %s\n", hex(std::string(odd) + std::string(1, '\0')).c_str());
        // recorded finding (repaired in fix-C11): LONG_MIN overflows the accumulator
        printf("@F:C07-atol-longmin atol %s\n", hex(std::string("-9223372036854775808") + std::string(1, '\0')).c_str());
        printf("@F:C07-atol-longmin atol %s\n", hex(std::string("  -9223372036854775808x") + std::string(1, '\0')).c_str());
    }

    // (5) debug printers
    for (int i = 0; i < NDFN; i++)
    {
        const DFn &f = DFNS[i];
        if (f.bits <= 8)
            for (unsigned v = 0; v < (1u << f.bits); v++)
                printf("dpr %s %016llx\n", f.name, (unsigned long long)extend(v, f.bits, f.sgn));
        else
            for (uint64_t v : boundary_values(r, f.bits, f.sgn, f.fmt == 'd' ? 10 : f.fmt == 'x' ? 16 : 2, th ? 200 : 30))
                printf("dpr %s %016llx\n", f.name, (unsigned long long)v);
    }
    // (6) vt100_left
    for (uint64_t v : boundary_values(r, 32, true, 10, th ? 200 : 40))
        printf("vt %08x\n", (unsigned)(v & 0xffffffffu));

    // ---------------------------------------------------------------- round 3
    // (8) what the compiled code contains: type widths, tables, alphabets; calls made before main()
    printf("consts\npre\ntbl h2x\ntbl dv\ntbl cty\ntbl alpha\n");

    // (9) EVERY length boundary of the text: base^k - 1, base^k, base^k + 1 (and their negatives)
    //     for every kind, every base 2..36 and every k the type can hold
    for (int k = 0; k < NKIND; k++)
    {
        int bits = KBITS[k];
        bool sgn = ksigned(k);
        uint64_t top = sgn ? wmask(bits) >> 1 : wmask(bits);
        for (unsigned base = 2; base <= 36; base++)
        {
            printf("maxlen %s %u\n", KNAME[k], base);
            for (u128 p = base; p <= (u128)top + (sgn ? 1 : 0); p *= base)
            {
                uint64_t q = (uint64_t)p;
                for (uint64_t x : {q - 1, q, q + 1})
                {
                    if ((u128)x <= (u128)top) printf("toa %s %u %016llx\n", KNAME[k], base, (unsigned long long)extend(x, bits, sgn));
                    if (sgn && (u128)x <= (u128)top + 1) printf("toa %s %u %016llx\n", KNAME[k], base, (unsigned long long)extend(0 - x, bits, sgn));
                }
            }
        }
    }

    // (10) debug_writehex / _reversed / writebin / _reversed / printhex_n: sizes 0, 1, .., around 256, 65535
    {
        auto rnd = [&](size_t n) { bytes b; for (size_t i = 0; i < n; i++) b.push_back(r.chance(20) ? (uint8_t)(r.chance(50) ? 0x00 : 0xff) : (uint8_t)r.next()); return b; };
        for (const char *fn : {"hex", "hexr", "bin", "binr", "hexn"})
        {
            for (size_t size : {0u, 1u, 2u, 3u, 4u, 7u, 8u, 9u, 15u, 16u, 17u, 255u, 256u, 257u})
                for (size_t p : {0u, 3u})
                {
                    bytes m = rnd(p + size);
                    printf("wh %s %zu %zu 1 %s\n", fn, p, size, m.empty() ? "-" : hex(m).c_str());
                }
            // every byte value once, in order
            bytes all;
            for (unsigned c = 0; c < 256; c++) all.push_back((uint8_t)c);
            printf("wh %s 0 256 1 %s\n", fn, hex(all).c_str());
            // uint16_t size at its maximum: 255 random bytes x 257 = 65535 (output 128 KiB hex / 512 KiB binary)
            printf("wh %s 0 65535 257 %s\n", fn, hex(rnd(255)).c_str());
            for (int i = 0; i < (th ? 40 : 8); i++)
            {
                size_t size = r.range(0, 40), p = r.below(5);
                bytes m = rnd(p + size);
                printf("wh %s %zu %zu 1 %s\n", fn, p, size, m.empty() ? "-" : hex(m).c_str());
            }
        }
    }
    // (11) debug_print_dump: rows of 8, partial last row, printable / control / high-bit bytes in the ASCII column
    {
        auto rnd = [&](size_t n) {
            bytes b;
            for (size_t i = 0; i < n; i++)
            {
                int m = (int)r.below(6);
                b.push_back(m == 0 ? (uint8_t)r.range(0, 31) : m == 1 ? (uint8_t)r.range(127, 255) : m == 2 ? (uint8_t)(r.chance(50) ? 32 : 126) : (uint8_t)r.range(32, 126));
            }
            return b;
        };
        for (size_t len : {0u, 1u, 2u, 7u, 8u, 9u, 15u, 16u, 17u, 23u, 24u, 255u, 256u, 257u})
            for (int i = 0; i < 2; i++)
            {
                bytes m = rnd(len);
                printf("dump %zu 1 %s\n", len, m.empty() ? "-" : hex(m).c_str());
            }
        // every value of the first byte (the row's ASCII column must not depend on it), every value in the column
        for (unsigned c = 0; c < 256; c += th ? 1 : 5)
        {
            bytes m = rnd(11);
            m[0] = (uint8_t)c;
            printf("dump 11 1 %s\n", hex(m).c_str());
        }
        bytes all;
        for (unsigned c = 0; c < 256; c++) all.push_back((uint8_t)c);
        printf("dump 256 1 %s\n", hex(all).c_str());
        // uint16_t len at its maximum: 8192 rows, 424 KiB of output
        printf("dump 65535 257 %s\n", hex(rnd(255)).c_str());
        for (int i = 0; i < (th ? 100 : 20); i++)
        {
            size_t len = r.range(1, 70);
            printf("dump %zu 1 %s\n", len, hex(rnd(len)).c_str());
        }
    }
    // (12) hexascii.h: fixed-width text of every byte, boundary values of the wider types, and back
    for (unsigned v = 0; v < 256; v++) printf("hxa 8 %02x\n", v);
    for (int W : {16, 32, 64})
        for (uint64_t v : boundary_values(r, W, false, 16, th ? 300 : 40))
            printf("hxa %d %016llx\n", W, (unsigned long long)v);
    for (uint64_t v : boundary_values(r, 64, false, 16, th ? 200 : 30)) printf("dpr hex_ptr %016llx\n", (unsigned long long)v);

    // (13) long texts: lengths around 255 / 65536 and beyond 300 KiB (the parsers are linear)
    {
        struct L { int k; unsigned base; size_t len; const char *pat; };
        const L ls[] = {
            {U64, 10, 307200, "1234567890"}, {I32, 36, 307201, "zZ09aA"}, {U8, 2, 320000, "10"}, {I64, 16, 65535, "fF0"},
            {U32, 10, 65536, "9"}, {I16, 7, 65537, "6"}, {U16, 36, 255, "z"}, {I8, 10, 256, "0"}, {U64, 2, 257, "1"},
            {I64, 10, 400000, "0"}, // 400 000 leading zeros are digits
        };
        for (const L &l : ls)
            for (const char *tail : {"", "x", "-", " 1"})
            {
                std::string pat = l.pat;
                if (ksigned(l.k) && tail[0] == 'x') pat = std::string(l.pat); // same text; the sign variant follows
                printf("atorep %s %u %zu %s %s\n", KNAME[l.k], l.base, l.len, hex(pat).c_str(), hex(std::string(tail) + std::string(1, '\0')).c_str());
            }
        // a '-' in front of a long text: the pattern cannot hold it, so it is the first tail-less variant
        printf("atorep i64 10 0 - %s\n", hex(std::string("-") + std::string(300, '7') + std::string(1, '\0')).c_str());
        for (int i = 0; i < (th ? 60 : 12); i++)
        {
            int k = (int)r.below(NKIND);
            unsigned base = (unsigned)r.range(2, 36);
            printf("atorep %s %u %zu %s %s\n", KNAME[k], base, (size_t)r.range(0, 3000), hex(digit_string(r, base, (int)r.range(1, 9))).c_str(),
                   hex(std::string(1, (char)r.next()) + std::string(1, '\0')).c_str());
        }
    }
    // (15) the asmlink self-test printers, dprptr / dprptrln, debug_print(NULL)
    for (int W : {8, 16, 32})
        for (int n = 1; n <= 4; n++)
            for (int i = 0; i < (th ? 40 : 8); i++)
            {
                std::string l = "asml " + std::to_string(W);
                std::vector<uint64_t> bv = boundary_values(r, W, false, 16, 4);
                for (int j = 0; j < n; j++) l += " " + hexn(bv[r.below(bv.size())] & wmask(W), W / 4);
                printf("%s\n", l.c_str());
            }
    for (uint64_t v : boundary_values(r, 64, false, 16, th ? 60 : 10)) printf("asmr %016llx\n", (unsigned long long)v);
    // (16) the copy in igris/container/std_portable.h.  Where it agrees with the property (renderings of
    // every value but the minimum of a signed type) it runs in the compared stream; the rest is finding
    // C07-std-portable-twin (end pointer, base-blind digit test, lower-case hex2half, negation of the minimum)
    for (int k = 0; k < NKIND; k++)
        for (unsigned base : {2u, 10u, 16u, 36u, (unsigned)r.range(3, 35)})
            for (uint64_t v : boundary_values(r, KBITS[k], ksigned(k), base, 2))
            {
                bool is_min = ksigned(k) && (v & wmask(KBITS[k])) == (1ull << (KBITS[k] - 1));
                bool neg = ksigned(k) && ((v >> (KBITS[k] - 1)) & 1);
                // the copy parses back with the unrepaired parser: only renderings whose parse-back it gets
                // right could be compared, and it gets none right (end pointer) -> every toa is a probe too
                (void)neg;
                if (is_min) continue; // -num on the minimum: one probe below (a sanitizer abort restarts the harness)
                printf("@F:C07-std-portable-twin twin toa %s %u %016llx\n", KNAME[k], base, (unsigned long long)v);
            }
    for (const char *t : {"3132337800", "00", "666600", "5a00", "3132616200"})
        printf("@F:C07-std-portable-twin twin ato u32 %s %s\n", t[0] == '6' ? "16" : t[0] == '5' ? "36" : "10", t);
    for (unsigned c = 'a'; c <= 'f'; c++) printf("@F:C07-std-portable-twin twin h2h %02x\n", c);
    for (unsigned c : {0x30u, 0x39u, 0x41u, 0x46u}) printf("twin h2h %02x\n", c);
    // (14) one buffer, several calls: a long text first, shorter ones over it, bad bases in between
    for (int i = 0; i < (th ? 400 : 80); i++)
    {
        int k = (int)r.below(NKIND);
        std::vector<uint64_t> bv = boundary_values(r, KBITS[k], ksigned(k), 2, 2);
        uint64_t v = bv[r.below(bv.size())];
        std::string bs = "2";
        int n = (int)r.range(1, 4);
        for (int j = 0; j < n; j++) bs += "," + std::to_string(r.chance(12) ? (unsigned)(r.chance(50) ? 0 : 37) : (unsigned)r.range(2, 36));
        printf("seq %s %016llx %s\n", KNAME[k], (unsigned long long)v, bs.c_str());
    }

}

// (7) thorough: every 32-bit value in base 10 and 16, oracle only.  bin/check runs the seeds
// s*1000+0..NPART-1 in parallel; seed % NPART selects the share of the 32-bit space.
static void gen_wrapper(rng &r, const std::string &tier)
{
    // the one probe that ends in a sanitizer abort (-num on INT64_MIN in the std_portable.h copy) comes FIRST:
    // the harness process that runs it dies without writing its coverage counters (bin/cov), the restarted one
    // runs everything else and exits normally
    printf("@F:C07-std-portable-twin twin toa i64 10 8000000000000000\n");
    gen(r, tier);
    if (tier != "thorough") return;
    uint64_t part = g_seed % NPART, span = (1ull << 32) / NPART;
    const uint64_t CH = 1ull << 18; // ~0.1 s per op: far below the 3 s per-op watchdog even on a loaded machine
    static const int K2[2] = {I32, U32};
    static const unsigned B2[2] = {10u, 16u};
    for (int ki = 0; ki < 2; ki++)
        for (int bi = 0; bi < 2; bi++)
            for (uint64_t lo = part * span; lo < (part + 1) * span; lo += CH)
                printf("sweep %s %u %016llx %llu\n", KNAME[K2[ki]], B2[bi], (unsigned long long)extend(lo, 32, K2[ki] == I32), (unsigned long long)CH);
    // round 3: bases 2, 8 and 36 strided over the whole 32-bit space: in every 8th window of 2^22 values the
    // seed's own 2^18 consecutive ones (the 16 seeds together: 1/8 of the space per kind and base, 2^29 values,
    // every residue class of the window offset)
    static const unsigned B3[3] = {2u, 8u, 36u};
    for (int ki = 0; ki < 2; ki++)
        for (int bi = 0; bi < 3; bi++)
            for (uint64_t win = 0; win < (1ull << 32); win += (1ull << 22))
                if ((win >> 22) % 8 == (g_seed / NPART + bi + 3 * ki) % 8)
                    printf("sweep %s %u %016llx %llu\n", KNAME[K2[ki]], B3[bi], (unsigned long long)extend(win + part * CH, 32, K2[ki] == I32), (unsigned long long)CH);
}

int main(int argc, char **argv)
{
    if (argc >= 3) g_seed = strtoull(argv[2], 0, 10);
    return main_(argc, argv, gen_wrapper, run_op);
}
