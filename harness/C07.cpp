// C07 harness: integer <-> text.
//   igris/util/numconvert.c (integer functions), igris/util/hexascii.h (hex2half),
//   compat/libc/stdlib/{itoa,atol}.c (through harness/C07_libc.c, renamed igv_*),
//   igris/dprint/dprint_func_impl.c (integer printers), igris/defs/vt100.h
// against the Lean model IgrisModel/C07.
//
// Operations (one per line, all stateless):
//   toa   K B V             render value V (16 hex digits, the 64-bit pattern of the value
//                           sign/zero-extended from its width) with igris_<K>toa in base B into
//                           an exactly sized buffer, then parse the text back with igris_ato<K>
//                           (as rendered, and with the case of every letter flipped)
//                           result: <buffer hex> <ret offset> <value> <end> <value flipped> <end flipped>
//   rng   K B LO N STRIDE   the same for the N values LO + k*STRIDE; result: FNV-1a hash of what
//                           `toa` would print (buffer, ret, value, end) + the last text
//   sweep K B LO N          oracle only (N consecutive values), result "swept N"
//   ato   K B HEX           igris_ato<K>(HEX bytes (NUL terminated), B, &end); result: <value> <end>
//   lc    FN B V            itoa/utoa/ltoa/ultoa; result: <buffer hex> <ret offset>
//   atol  HEX               libc atol and atoi of the text; result: <long> <int>
//   dpr   FN V              debug printers; result: hex of the characters given to debug_putchar
//   vt    V                 vt100_left(buf, (int)V); result: <buffer hex> <return value>
//   h2h   CC                hex2half((char)CC); result: 2 hex digits
#include "common/hv.h"
#include <array>
#include <climits>
#include <cerrno>
#include <igris/util/numconvert.h>
#include <igris/util/hexascii.h>
#include <igris/dprint/dprint.h>
#include <igris/defs/vt100.h>

static_assert(sizeof(long) == 8 && sizeof(int) == 4 && sizeof(short) == 2, "LP64 assumed by the model");
static_assert(CHAR_MIN < 0, "char is signed (model: digit_value compares a signed char)");
static_assert((int8_t)(uint8_t)0x80 == -128 && (int32_t)0x80000000u == INT32_MIN, "modular narrowing");

extern "C"
{
    char *igv_itoa(int, char *, unsigned short);
    char *igv_utoa(unsigned, char *, unsigned short);
    char *igv_ltoa(long, char *, unsigned short);
    char *igv_ultoa(unsigned long, char *, unsigned short);
    long igv_atol(const char *);
    int igv_atoi(const char *);
    // defined in dprint_func_impl.c, not declared in dprint.h
    void debug_printdec_uint8(uint8_t);
    void debug_printdec_uint16(uint16_t);
    void debug_printdec_uint32(uint32_t);
    void debug_printdec_uint64(uint64_t);
}

// the platform hook of the debug-print library: capture the characters
static std::string g_out;
extern "C" void debug_putchar(char c) { g_out.push_back(c); }
// debug_write comes from igris/dprint/dprint_manually.c (weak, loops over debug_putchar)

using namespace hv;
typedef std::vector<uint8_t> bytes;
typedef unsigned __int128 u128;

// ------------------------------------------------------------------ kinds
enum { I8, I16, I32, I64, U8, U16, U32, U64, NKIND };
static const char *KNAME[NKIND] = {"i8", "i16", "i32", "i64", "u8", "u16", "u32", "u64"};
static const int KBITS[NKIND] = {8, 16, 32, 64, 8, 16, 32, 64};
static bool ksigned(int k) { return k < 4; }
static int kind_of(const std::string &s)
{
    for (int k = 0; k < NKIND; k++)
        if (s == KNAME[k]) return k;
    return -1;
}
static uint64_t wmask(int bits) { return bits == 64 ? ~0ull : ((1ull << bits) - 1); }
// 64-bit pattern of a w-bit pattern, sign- or zero-extended
static uint64_t extend(uint64_t v, int bits, bool sgn)
{
    v &= wmask(bits);
    if (sgn && bits < 64 && (v >> (bits - 1)) & 1) v |= ~wmask(bits);
    return v;
}

static char *call_toa(int k, uint64_t v, char *buf, uint8_t base)
{
    switch (k)
    {
    case I8: return igris_i8toa((int8_t)v, buf, base);
    case I16: return igris_i16toa((int16_t)v, buf, base);
    case I32: return igris_i32toa((int32_t)v, buf, base);
    case I64: return igris_i64toa((int64_t)v, buf, base);
    case U8: return igris_u8toa((uint8_t)v, buf, base);
    case U16: return igris_u16toa((uint16_t)v, buf, base);
    case U32: return igris_u32toa((uint32_t)v, buf, base);
    default: return igris_u64toa((uint64_t)v, buf, base);
    }
}
// returns the w-bit pattern of the result
static uint64_t call_ato(int k, const char *buf, uint8_t base, char **end)
{
    switch (k)
    {
    case I8: return (uint8_t)igris_atoi8(buf, base, end);
    case I16: return (uint16_t)igris_atoi16(buf, base, end);
    case I32: return (uint32_t)igris_atoi32(buf, base, end);
    case I64: return (uint64_t)igris_atoi64(buf, base, end);
    case U8: return igris_atou8(buf, base, end);
    case U16: return igris_atou16(buf, base, end);
    case U32: return igris_atou32(buf, base, end);
    default: return igris_atou64(buf, base, end);
    }
}

// ------------------------------------------------------------------ references (oracle)
static const char AL_LO[] = "0123456789abcdefghijklmnopqrstuvwxyz";
static const char AL_UP[] = "0123456789ABCDEFGHIJKLMNOPQRSTUVWXYZ";

// Canonical digits, most significant first, produced from the HIGHEST power
// downwards (the code under test divides from the least significant end).
static int ref_digits(uint64_t mag, unsigned base, const char *al, char *out)
{
    u128 p = 1;
    while (p * base <= (u128)mag) p *= base;
    int n = 0;
    u128 m = mag;
    while (p)
    {
        unsigned d = (unsigned)(m / p);
        m -= (u128)d * p;
        out[n++] = al[d];
        p /= base;
    }
    return n;
}
// canonical text of the w-bit pattern v interpreted as signed/unsigned
static int ref_text(uint64_t v, int bits, bool sgn, unsigned base, bool upper, char *out)
{
    int n = 0;
    uint64_t mag = v & wmask(bits);
    if (sgn && (mag >> (bits - 1)) & 1)
    {
        out[n++] = '-';
        mag = (0 - mag) & wmask(bits); // |minimum| = 2^(bits-1) fits the unsigned type
    }
    n += ref_digits(mag, base, upper ? AL_UP : AL_LO, out + n);
    out[n] = 0;
    return n;
}
static int ref_dv(uint8_t c)
{
    for (int i = 0; i < 36; i++)
        if (c == (uint8_t)AL_LO[i] || c == (uint8_t)AL_UP[i]) return i;
    return 1000;
}
// value (mod 2^bits) and end offset of the longest digit prefix in `base`
static uint64_t ref_parse(const uint8_t *s, int bits, bool sgn, unsigned base, size_t *end, bool *wrapped = 0)
{
    size_t i = 0;
    bool neg = false;
    if (sgn && s[0] == '-') { neg = true; i = 1; }
    u128 acc = 0;
    bool wr = false;
    while (ref_dv(s[i]) < (int)base)
    {
        acc = acc * base + ref_dv(s[i]);
        if (acc >> bits) wr = true;
        acc &= (((u128)1) << 64) - 1;
        i++;
    }
    *end = i;
    if (wrapped) *wrapped = wr;
    uint64_t r = (uint64_t)acc;
    if (neg) r = 0 - r;
    return r & wmask(bits);
}
static std::string flipcase(const std::string &s)
{
    std::string r = s;
    for (auto &c : r)
        if (c >= 'a' && c <= 'z') c = (char)(c - 32);
        else if (c >= 'A' && c <= 'Z') c = (char)(c + 32);
    return r;
}
static std::string show(const std::string &s)
{
    std::string r;
    for (unsigned char c : s)
        if (c >= 32 && c < 127) r.push_back((char)c);
        else { char b[8]; snprintf(b, sizeof b, "\\x%02x", c); r += b; }
    return r;
}

struct fnv
{
    uint64_t h = 14695981039346656037ull;
    void byte(uint8_t b) { h = (h ^ b) * 1099511628211ull; }
    void le64(uint64_t v) { for (int i = 0; i < 8; i++) byte((uint8_t)(v >> (8 * i))); }
};

// One value through toa + ato.  `buf` is placed so that it ENDS at the end of a
// heap block (ASan flags any write past the canonical length + 1).
struct RoundTrip
{
    std::string text;  // what the implementation wrote (bytes up to the NUL, or the whole buffer)
    bytes raw;         // whole buffer
    long ret;
    bool have_back;
    uint64_t back, backf;
    long end, endf;
};
static uint8_t *g_block = 0; // 96-byte heap block reused inside one op
static const size_t BLK = 96;

static void roundtrip(int k, uint64_t v, unsigned base, out &o, RoundTrip &r, bool flip)
{
    int bits = KBITS[k];
    bool sgn = ksigned(k);
    bool valid = base >= 2 && base <= 36;
    char ref[80];
    int len = valid ? ref_text(v, bits, sgn, base, !sgn, ref) : 0;
    if (!valid) ref[0] = 0;
    uint8_t *buf = g_block + BLK - (len + 1);
    memset(g_block, 0xA5, BLK);
    char *ret = call_toa(k, v, (char *)buf, (uint8_t)base);
    r.raw.assign(buf, buf + len + 1);
    r.ret = ret - (char *)buf;
    bool same = memcmp(buf, ref, len + 1) == 0;
    if (!same)
        o.fail(std::string("igris_") + KNAME[k] + "toa(" + hexn(v, 16) + ", base " + std::to_string(base) + ") wrote `" +
               show(std::string((char *)buf, len + 1)) + "`, canonical text is `" + ref + "`");
    if (r.ret != len)
        o.fail(std::string("igris_") + KNAME[k] + "toa returned buf+" + std::to_string(r.ret) + ", terminator is at " + std::to_string(len));
    for (uint8_t *q = g_block; q < buf; q++)
        if (*q != 0xA5) { o.fail("write before the buffer"); break; }
    r.have_back = false;
    if (!valid || buf[len] != 0) return;
    // parse back: the text sits at the very end of the block, so reading past the NUL is flagged too
    r.have_back = true;
    char *e = 0;
    r.back = call_ato(k, (const char *)buf, (uint8_t)base, &e);
    r.end = e - (char *)buf;
    uint64_t want = v & wmask(bits);
    if (r.back != want)
        o.fail(std::string("igris_ato") + KNAME[k] + "(`" + show((char *)buf) + "`, base " + std::to_string(base) + ") = " + hexn(r.back, bits / 4) +
               ", rendered value was " + hexn(want, bits / 4));
    if (r.end != len)
        o.fail(std::string("igris_ato") + KNAME[k] + "(`" + show((char *)buf) + "`, base " + std::to_string(base) + ") reports end offset " +
               std::to_string(r.end) + ", first unconsumed character is at " + std::to_string(len));
    if (flip)
    {
        std::string f = flipcase(std::string((char *)buf, len));
        memcpy(buf, f.c_str(), len + 1);
        e = 0;
        r.backf = call_ato(k, (const char *)buf, (uint8_t)base, &e);
        r.endf = e - (char *)buf;
        if (r.backf != want || r.endf != len)
            o.fail(std::string("igris_ato") + KNAME[k] + "(`" + show(f) + "`, base " + std::to_string(base) + ") = " + hexn(r.backf, bits / 4) + " end " +
                   std::to_string(r.endf) + " (case-flipped text of " + hexn(want, bits / 4) + ")");
    }
}

// ------------------------------------------------------------------ debug printers
struct DFn { const char *name; int bits; bool sgn; char fmt; void (*call)(uint64_t); };
#define DF(nm, bits, sgn, fmt, expr) {nm, bits, sgn, fmt, [](uint64_t v) { expr; }}
static const DFn DFNS[] = {
    DF("dec_u8", 8, false, 'd', debug_printdec_uint8((uint8_t)v)),
    DF("dec_u16", 16, false, 'd', debug_printdec_uint16((uint16_t)v)),
    DF("dec_u32", 32, false, 'd', debug_printdec_uint32((uint32_t)v)),
    DF("dec_u64", 64, false, 'd', debug_printdec_uint64((uint64_t)v)),
    DF("dec_uc", 8, false, 'd', debug_printdec_unsigned_char((unsigned char)v)),
    DF("dec_us", 16, false, 'd', debug_printdec_unsigned_short((unsigned short)v)),
    DF("dec_ui", 32, false, 'd', debug_printdec_unsigned_int((unsigned int)v)),
    DF("dec_ul", 64, false, 'd', debug_printdec_unsigned_long((unsigned long)v)),
    DF("dec_ull", 64, false, 'd', debug_printdec_unsigned_long_long((unsigned long long)v)),
    DF("dec_sc", 8, true, 'd', debug_printdec_signed_char((signed char)v)),
    DF("dec_ss", 16, true, 'd', debug_printdec_signed_short((signed short)v)),
    DF("dec_si", 32, true, 'd', debug_printdec_signed_int((signed int)v)),
    DF("dec_sl", 64, true, 'd', debug_printdec_signed_long((signed long)v)),
    DF("dec_sll", 64, true, 'd', debug_printdec_signed_long_long((signed long long)v)),
    DF("hex_u4", 4, false, 'x', debug_printhex_uint4((uint8_t)(v & 15))),
    DF("hex_u8", 8, false, 'x', debug_printhex_uint8((uint8_t)v)),
    DF("hex_u16", 16, false, 'x', debug_printhex_uint16((uint16_t)v)),
    DF("hex_u32", 32, false, 'x', debug_printhex_uint32((uint32_t)v)),
    DF("hex_u64", 64, false, 'x', debug_printhex_uint64((uint64_t)v)),
    DF("hex_c", 8, false, 'x', debug_printhex_char((char)v)),
    DF("hex_uc", 8, false, 'x', debug_printhex_unsigned_char((unsigned char)v)),
    DF("hex_us", 16, false, 'x', debug_printhex_unsigned_short((unsigned short)v)),
    DF("hex_ui", 32, false, 'x', debug_printhex_unsigned_int((unsigned int)v)),
    DF("hex_ul", 64, false, 'x', debug_printhex_unsigned_long((unsigned long)v)),
    DF("hex_ull", 64, false, 'x', debug_printhex_unsigned_long_long((unsigned long long)v)),
    DF("hex_sc", 8, false, 'x', debug_printhex_signed_char((signed char)v)),
    DF("hex_ss", 16, false, 'x', debug_printhex_signed_short((signed short)v)),
    DF("hex_si", 32, false, 'x', debug_printhex_signed_int((signed int)v)),
    DF("hex_sl", 64, false, 'x', debug_printhex_signed_long((signed long)v)),
    DF("hex_sll", 64, false, 'x', debug_printhex_signed_long_long((signed long long)v)),
    DF("bin_u4", 4, false, 'b', debug_printbin_uint4((uint8_t)(v & 15))),
    DF("bin_u8", 8, false, 'b', debug_printbin_uint8((uint8_t)v)),
    DF("bin_u16", 16, false, 'b', debug_printbin_uint16((uint16_t)v)),
    DF("bin_u32", 32, false, 'b', debug_printbin_uint32((uint32_t)v)),
    DF("bin_u64", 64, false, 'b', debug_printbin_uint64((uint64_t)v)),
};
static const int NDFN = sizeof DFNS / sizeof DFNS[0];

// decimal: the canonical text; hex/bin: the canonical upper-case digits
// zero-padded to the full width of the type
static std::string ref_dprint(const DFn &f, uint64_t v)
{
    char t[80];
    if (f.fmt == 'd')
    {
        // glibc as an independent reference for base 10
        uint64_t x = extend(v, f.bits, f.sgn);
        if (f.sgn) snprintf(t, sizeof t, "%lld", (long long)x);
        else snprintf(t, sizeof t, "%llu", (unsigned long long)x);
        return t;
    }
    unsigned base = f.fmt == 'x' ? 16 : 2;
    int width = f.fmt == 'x' ? f.bits / 4 : f.bits;
    int n = ref_text(v, f.bits, false, base, true, t);
    return std::string(width - n, '0') + t;
}

// ------------------------------------------------------------------ run
static uint64_t h64(const std::string &s) { return strtoull(s.c_str(), 0, 16); }

static void run_toa(const std::vector<std::string> &w, out &o)
{
    int k = kind_of(w[1]);
    unsigned base = (unsigned)strtoul(w[2].c_str(), 0, 10);
    uint64_t v = h64(w[3]);
    int bits = KBITS[k];
    RoundTrip r;
    roundtrip(k, v, base, o, r, true);
    o.result = hex(r.raw) + " " + std::to_string(r.ret);
    if (r.have_back)
        o.result += " " + hexn(r.back, bits / 4) + " " + std::to_string(r.end) + " " + hexn(r.backf, bits / 4) + " " + std::to_string(r.endf);
    bool valid = base >= 2 && base <= 36;
    if (!valid) { o.tag("base-out-of-range"); return; }
    o.tag(KNAME[k]);
    uint64_t p = v & wmask(bits);
    if (ksigned(k) && (p >> (bits - 1)) & 1) o.tag(p == (1ull << (bits - 1)) ? "minimum" : "negative");
    else if (p == (ksigned(k) ? wmask(bits) >> 1 : wmask(bits))) o.tag("maximum");
    if (base > 10) o.tag("letters-possible");
    if (base == 2 && bits == 64 && p >> 62) o.tag("longest-text");
}

// Odometer reference for sweeps: the canonical text of v+1 is obtained from the
// text of v by incrementing (or, for negative v, decrementing) the digit string
// -- no division anywhere, so it shares nothing with the code under test.
struct Odometer
{
    unsigned base;
    bool neg;
    int n;
    uint8_t d[72]; // most significant first, digit values
    void seed(uint64_t v, int bits, bool sgn, unsigned b)
    {
        base = b;
        char t[80];
        int len = ref_text(v, bits, sgn, b, false, t);
        neg = t[0] == '-';
        n = 0;
        for (int i = neg ? 1 : 0; i < len; i++) d[n++] = (uint8_t)ref_dv((uint8_t)t[i]);
    }
    void next()
    {
        if (neg)
        { // magnitude - 1
            int i = n - 1;
            while (d[i] == 0) d[i--] = (uint8_t)(base - 1);
            d[i]--;
            if (d[0] == 0 && n > 1) { memmove(d, d + 1, --n); }
            if (n == 1 && d[0] == 0) neg = false;
        }
        else
        { // magnitude + 1
            int i = n - 1;
            while (i >= 0 && d[i] == base - 1) d[i--] = 0;
            if (i < 0) { memmove(d + 1, d, n++); d[0] = 1; }
            else d[i]++;
        }
    }
    int text(bool upper, char *out) const
    {
        int k = 0;
        const char *al = upper ? AL_UP : AL_LO;
        if (neg) out[k++] = '-';
        for (int i = 0; i < n; i++) out[k++] = al[d[i]];
        out[k] = 0;
        return k;
    }
};

// render + parse back of one value against a given reference text; no allocation
static bool fast_ok(int k, uint64_t v, unsigned base, const char *ref, int len)
{
    uint8_t *buf = g_block + BLK - (len + 1);
    char *ret = call_toa(k, v, (char *)buf, (uint8_t)base);
    bool ok = ret == (char *)buf + len && memcmp(buf, ref, len + 1) == 0 && buf[-1] == 0xA5;
    if (ok)
    {
        char *e = 0;
        uint64_t back = call_ato(k, (const char *)buf, (uint8_t)base, &e);
        ok = back == (v & wmask(KBITS[k])) && e == (char *)buf + len;
    }
    memset(buf - 1, 0xA5, len + 2);
    return ok;
}

static void run_rng(const std::vector<std::string> &w, out &o, bool sweep)
{
    int k = kind_of(w[1]);
    unsigned base = (unsigned)strtoul(w[2].c_str(), 0, 10);
    uint64_t lo = h64(w[3]);
    uint64_t n = strtoull(w[4].c_str(), 0, 10);
    uint64_t stride = sweep ? 1 : strtoull(w[5].c_str(), 0, 10);
    int bits = KBITS[k];
    fnv h;
    RoundTrip r;
    uint64_t v = lo;
    o.tag(sweep ? "sweep" : "range");
    o.tag(KNAME[k]);
    if (sweep)
    {
        if (base < 2 || base > 36) { o.result = "bad-op"; return; }
        memset(g_block, 0xA5, BLK);
        Odometer od;
        od.seed(extend(v, bits, ksigned(k)), bits, ksigned(k), base);
        char ref[80];
        for (uint64_t i = 0; i < n; i++, v++)
        {
            uint64_t x = extend(v, bits, ksigned(k));
            int len = od.text(!ksigned(k), ref);
            if (!fast_ok(k, x, base, ref, len))
            {
                // the slow path recomputes the reference from scratch and words the failure
                roundtrip(k, x, base, o, r, true);
                if (o.oracle == "ok") o.fail("odometer reference `" + std::string(ref) + "` disagrees with the power-based reference at " + hexn(x, 16));
                break;
            }
            od.next();
        }
        o.result = "swept " + std::to_string(n);
        return;
    }
    for (uint64_t i = 0; i < n; i++, v += stride)
    {
        roundtrip(k, extend(v, bits, ksigned(k)), base, o, r, false);
        for (uint8_t b : r.raw) h.byte(b);
        h.byte((uint8_t)r.ret);
        h.le64(r.have_back ? r.back : 0);
        h.byte(r.have_back ? (uint8_t)r.end : 0xff);
        if (o.oracle != "ok") break;
    }
    o.result = hexn(h.h, 16) + " " + hex(r.raw);
}

static void run_ato(const std::vector<std::string> &w, out &o)
{
    int k = kind_of(w[1]);
    unsigned base = (unsigned)strtoul(w[2].c_str(), 0, 10);
    bytes s = unhex(w[3]);
    int bits = KBITS[k];
    if (s.empty() || s.back() != 0) { o.result = "bad-op"; return; }
    exact_buf b(s);
    char *e = 0;
    uint64_t v = call_ato(k, (const char *)b.p, (uint8_t)base, &e);
    long end = e ? e - (char *)b.p : -1;
    o.result = hexn(v, bits / 4) + " " + std::to_string(end);
    size_t rend;
    bool wrapped;
    uint64_t rv = ref_parse(s.data(), bits, ksigned(k), base, &rend, &wrapped);
    std::string txt((char *)s.data(), s.size() - 1);
    if (v != rv)
        o.fail(std::string("igris_ato") + KNAME[k] + "(`" + show(txt) + "`, base " + std::to_string(base) + ") = " + hexn(v, bits / 4) + ", digits of that base give " + hexn(rv, bits / 4));
    if (end != (long)rend)
        o.fail(std::string("igris_ato") + KNAME[k] + "(`" + show(txt) + "`, base " + std::to_string(base) + ") reports end offset " + std::to_string(end) +
               ", first character that cannot continue the number is at " + std::to_string(rend));
    // the same call without an end pointer
    uint64_t v2 = call_ato(k, (const char *)b.p, (uint8_t)base, 0);
    if (v2 != v) o.fail("value differs when end == NULL");
    // glibc as a second opinion where its grammar coincides (no sign/space/0x handling involved)
    if (base >= 2 && base <= 36 && !wrapped && rend > 0 && !(base == 16 && s.size() > 1 && (s[1] == 'x' || s[1] == 'X')) && ref_dv(s[0]) < (int)base)
    {
        errno = 0;
        char *ge;
        unsigned long long g = strtoull((const char *)s.data(), &ge, (int)base);
        if (errno == 0 && ((g & wmask(bits)) != rv || (size_t)(ge - (char *)s.data()) != rend))
            o.fail("harness reference disagrees with strtoull");
    }
    o.tag(KNAME[k]);
    size_t first = (ksigned(k) && s[0] == '-') ? 1 : 0;
    if (first) o.tag("minus");
    if (rend == first) o.tag("no-digits");
    if (wrapped) o.tag("wraps");
    uint8_t t = s[rend];
    if (t == 0) o.tag("term-nul");
    else if (ref_dv(t) < 36) o.tag("term-digit-of-larger-base");
    else if (t >= 0x80) o.tag("term-high-bit");
    bool lo = false, up = false;
    for (size_t i = first; i < rend; i++) { if (s[i] >= 'a') lo = true; else if (s[i] >= 'A') up = true; }
    if (lo) o.tag("lower-case");
    if (up) o.tag("upper-case");
    if (base < 2 || base > 36) o.tag("base-out-of-range");
}

static void run_lc(const std::vector<std::string> &w, out &o)
{
    const std::string &fn = w[1];
    unsigned base = (unsigned)strtoul(w[2].c_str(), 0, 10);
    uint64_t v = h64(w[3]);
    int bits = (fn == "itoa" || fn == "utoa") ? 32 : 64;
    bool sgn = fn == "itoa" || fn == "ltoa";
    bool valid = base >= 2 && base <= 36;
    char ref[80];
    int len = valid ? ref_text(v, bits, sgn, base, false, ref) : 0;
    ref[len] = 0;
    exact_buf b((size_t)len + 1);
    char *r;
    if (fn == "itoa") r = igv_itoa((int)v, (char *)b.p, (unsigned short)base);
    else if (fn == "utoa") r = igv_utoa((unsigned)v, (char *)b.p, (unsigned short)base);
    else if (fn == "ltoa") r = igv_ltoa((long)v, (char *)b.p, (unsigned short)base);
    else r = igv_ultoa((unsigned long)v, (char *)b.p, (unsigned short)base);
    o.result = hex(b.p, b.n) + " " + std::to_string(r - (char *)b.p);
    if (memcmp(b.p, ref, len + 1))
        o.fail(fn + "(" + hexn(v, 16) + ", base " + std::to_string(base) + ") wrote `" + show(std::string((char *)b.p, len + 1)) + "`, canonical text is `" + ref + "`");
    if (r != (char *)b.p) o.fail(fn + " did not return buf");
    if (!valid) { o.tag("base-out-of-range"); return; }
    o.tag(fn.c_str());
    uint64_t p = v & wmask(bits);
    if (sgn && (p >> (bits - 1)) & 1) o.tag(p == (1ull << (bits - 1)) ? "minimum" : "negative");
}

static void run_atol(const std::vector<std::string> &w, out &o)
{
    bytes s = unhex(w[1]);
    if (s.empty() || s.back() != 0) { o.result = "bad-op"; return; }
    exact_buf b(s);
    long l = igv_atol((const char *)b.p);
    int i = igv_atoi((const char *)b.p);
    o.result = hexn((uint64_t)l, 16) + " " + hexn((uint32_t)i, 8);
    errno = 0;
    long g = strtol((const char *)s.data(), 0, 10);
    if (errno == 0)
    {
        if (g != l) o.fail("atol(`" + show(std::string((char *)s.data())) + "`) = " + std::to_string(l) + ", strtol gives " + std::to_string(g));
        if ((int)g != i) o.fail("atoi(`" + show(std::string((char *)s.data())) + "`) = " + std::to_string(i));
    }
    o.tag("atol");
    if (g < 0) o.tag("negative");
    if (g == LONG_MIN) o.tag("minimum");
    if (isspace(s[0])) o.tag("leading-space");
}

static void run_dpr(const std::vector<std::string> &w, out &o)
{
    const DFn *f = 0;
    for (int i = 0; i < NDFN; i++)
        if (w[1] == DFNS[i].name) f = &DFNS[i];
    if (!f) { o.result = "bad-op"; return; }
    uint64_t v = h64(w[2]);
    g_out.clear();
    f->call(v);
    o.result = hex(g_out);
    std::string ref = ref_dprint(*f, v);
    if (g_out != ref)
        o.fail(std::string("debug_print ") + f->name + "(" + hexn(v, 16) + ") emitted `" + show(g_out) + "`, canonical text is `" + ref + "`");
    o.tag(f->fmt == 'd' ? "dprint-dec" : f->fmt == 'x' ? "dprint-hex" : "dprint-bin");
    uint64_t p = v & wmask(f->bits);
    if (f->sgn && (p >> (f->bits - 1)) & 1) o.tag(p == (1ull << (f->bits - 1)) ? "minimum" : "negative");
}

static void run_vt(const std::vector<std::string> &w, out &o)
{
    int arg = (int)(uint32_t)h64(w[1]);
    char ref[40];
    int len = snprintf(ref, sizeof ref, "\x1b[%dD", arg);
    exact_buf b((size_t)len + 1);
    int r = vt100_left((char *)b.p, arg);
    o.result = hex(b.p, b.n) + " " + std::to_string(r);
    if (memcmp(b.p, ref, len + 1) || r != len) o.fail("vt100_left(" + std::to_string(arg) + ")");
    o.tag("vt100");
}

static void run_op(const std::vector<std::string> &w, const std::string &, out &o)
{
    // hv::main_ arms a 3 s watchdog per op.  On this (virtualised, shared) machine a process
    // is occasionally not scheduled for seconds (steal time): 50 ms sweep ops were seen to hit
    // the 3 s limit under external load.  None of the routines under test has an unbounded
    // loop that a stall could be confused with for long, so give every op 20 s instead.
    hv::arm(20);
    if (!g_block) g_block = (uint8_t *)malloc(BLK);
    if (w.empty()) { o.result = "bad-op"; return; }
    const std::string &op = w[0];
    if (op == "reset") o.result = "ok";
    else if (op == "toa" && w.size() == 4 && kind_of(w[1]) >= 0) run_toa(w, o);
    else if (op == "rng" && w.size() == 6 && kind_of(w[1]) >= 0) run_rng(w, o, false);
    else if (op == "sweep" && w.size() == 5 && kind_of(w[1]) >= 0) run_rng(w, o, true);
    else if (op == "ato" && w.size() == 4 && kind_of(w[1]) >= 0) run_ato(w, o);
    else if (op == "lc" && w.size() == 4) run_lc(w, o);
    else if (op == "atol" && w.size() == 2) run_atol(w, o);
    else if (op == "dpr" && w.size() == 3) run_dpr(w, o);
    else if (op == "vt" && w.size() == 2) run_vt(w, o);
    else if (op == "h2h" && w.size() == 2)
    {
        uint8_t c = (uint8_t)h64(w[1]);
        uint8_t r = hex2half((char)c);
        o.result = hexn(r, 2);
        int want = hexval((char)c);
        if (want >= 0)
        {
            o.tag(c >= 'a' ? "hex-lower" : c >= 'A' ? "hex-upper" : "hex-decimal");
            if (r != want) o.fail("hex2half('" + show(std::string(1, (char)c)) + "') = " + std::to_string(r));
        }
    }
    else o.result = "bad-op";
}

// ------------------------------------------------------------------ gen
static std::vector<uint64_t> boundary_values(rng &r, int bits, bool sgn, unsigned base, int nrand)
{
    std::vector<uint64_t> v;
    uint64_t m = wmask(bits);
    auto add = [&](uint64_t x) { v.push_back(extend(x, bits, sgn)); };
    uint64_t top = sgn ? (m >> 1) : m; // largest magnitude on the positive side
    for (uint64_t x : {0ull, 1ull, 2ull, 9ull, 10ull, 11ull, 35ull, 36ull, 37ull}) { add(x); if (sgn) add(0 - x); }
    add(top); add(top - 1);
    if (sgn) { add(top + 1); add(top + 2); } // minimum, minimum + 1
    if (base >= 2)
    {
        add(base - 1); add(base); add(base + 1);
        if (sgn) { add(0 - (uint64_t)(base - 1)); add(0 - (uint64_t)base); }
        // powers of the base: every length boundary of the text
        std::vector<uint64_t> pw;
        u128 p = base;
        while (p <= (u128)top) { pw.push_back((uint64_t)p); p *= base; }
        size_t take = pw.size() <= 6 ? pw.size() : 6;
        for (size_t i = 0; i < take; i++)
        {
            uint64_t q = (i < 2 && pw.size() > 6) ? pw[pw.size() - 1 - i] : pw[r.below(pw.size())];
            add(q); add(q - 1); add(q + 1);
            if (sgn) { add(0 - q); add(0 - (q - 1)); }
        }
    }
    for (int i = 0; i < nrand; i++)
    {
        // uniform in the bit length, so that short and long texts are equally likely
        int len = (int)r.range(0, bits);
        uint64_t x = len == 0 ? 0 : (r.next() & wmask(len)) | (1ull << (len - 1));
        if (len == 64) x = r.next();
        add(x);
    }
    return v;
}

static std::string digit_string(rng &r, unsigned base, int len)
{
    std::string s;
    unsigned lim = base < 1 ? 1 : (base > 36 ? 36 : base);
    for (int i = 0; i < len; i++)
    {
        unsigned d = (unsigned)r.below(lim);
        if (r.chance(15)) d = lim - 1; // the largest digit of the base
        s.push_back(r.chance(50) ? AL_LO[d] : AL_UP[d]);
    }
    return s;
}
static void emit_ato(int k, unsigned base, const std::string &s)
{
    // s must end with a NUL byte
    printf("ato %s %u %s\n", KNAME[k], base, hex(s).c_str());
}

static uint64_t g_seed = 1;
static const unsigned NPART = 16; // = thorough_seeds in checks/C07.json

static void gen(rng &r, const std::string &tier)
{
    bool th = tier == "thorough";
    const unsigned odd_bases[] = {0, 1, 37, 64, 255};
    // (0) hex2half on every character
    for (unsigned c = 0; c < 256; c++) printf("h2h %02x\n", c);

    // (1) exhaustive 8-bit and 16-bit values x all bases (as ranges, model and code hashed)
    for (unsigned base = 2; base <= 36; base++)
        for (int k : {I8, U8})
            printf("rng %s %u %016llx 256 1\n", KNAME[k], base, k == I8 ? 0xffffffffffffff80ull : 0ull);
    // every 16-bit value x every base on the code (oracle: odometer reference + parse back) ...
    for (unsigned base = 2; base <= 36; base++)
        for (int k : {I16, U16})
            printf("sweep %s %u %016llx 65536\n", KNAME[k], base, k == I16 ? 0xffffffffffff8000ull : 0ull);
    // ... and model against code on every 16-bit value for a subset of the bases: 2, 10, 16, 36
    // and four seed-chosen ones in the quick tier; in the thorough tier the 35 bases are
    // dealt out over the NPART parallel seeds, so one thorough run covers all of them
    {
        std::vector<unsigned> sel = {2, 10, 16, 36};
        if (th) { for (unsigned b = 2; b <= 36; b++) if (b % NPART == g_seed % NPART) sel.push_back(b); }
        else for (int i = 0; i < 4; i++) sel.push_back((unsigned)r.range(3, 35));
        for (unsigned base : sel)
            for (int k : {I16, U16})
                for (unsigned c = 0; c < 8; c++)
                    printf("rng %s %u %016llx 8192 1\n", KNAME[k], base, (unsigned long long)extend(c * 8192ull + (k == I16 ? 0x8000 : 0), 16, k == I16));
    }

    // (2) boundary-biased single values, every kind x every base (+ bases outside 2..36)
    for (int k = 0; k < NKIND; k++)
    {
        for (unsigned base = 2; base <= 36; base++)
            for (uint64_t v : boundary_values(r, KBITS[k], ksigned(k), base, th ? 24 : 6))
                printf("toa %s %u %016llx\n", KNAME[k], base, (unsigned long long)v);
        for (unsigned base : odd_bases)
            for (uint64_t v : {(uint64_t)0, (uint64_t)1, wmask(KBITS[k]), (uint64_t)12345})
                printf("toa %s %u %016llx\n", KNAME[k], base, (unsigned long long)extend(v, KBITS[k], ksigned(k)));
    }
    // sampled 32- and 64-bit ranges with large odd strides (model hashed against code)
    for (unsigned base = 2; base <= 36; base++)
        for (int ki = 0; ki < 4; ki++)
        {
            static const int K4[4] = {I32, U32, I64, U64};
            const int k = K4[ki];
            printf("rng %s %u %016llx %d %llu\n", KNAME[k], base, (unsigned long long)r.next(), th ? 4096 : 256,
                   (unsigned long long)((r.next() >> (KBITS[k] == 32 ? 44 : 6)) | 1));
        }

    // (3) parse side: digit strings of each base followed by every terminator byte
    std::vector<unsigned> bases;
    for (unsigned b = 2; b <= 36; b++) bases.push_back(b);
    for (unsigned b : odd_bases) bases.push_back(b);
    for (unsigned base : bases)
        for (unsigned t = 0; t < 256; t++)
            for (int k = 0; k < NKIND; k++)
            {
                if (!th && (int)((base + t) % NKIND) != k) continue;
                int mode = (int)r.below(10);
                int len = mode == 0 ? 0 : mode <= 6 ? (int)r.range(1, 8) : mode <= 8 ? (int)r.range(9, 22) : (int)r.range(23, 70);
                std::string s;
                if (r.chance(ksigned(k) ? 35 : 8)) s += '-';
                s += digit_string(r, base, len);
                s.push_back((char)t);
                int extra = (int)r.below(4);
                for (int i = 0; i < extra; i++) s.push_back(r.chance(50) ? AL_LO[r.below(36)] : (char)r.next());
                s.push_back(0);
                // the string must stay NUL terminated: an embedded NUL is fine, the tail is then unread
                emit_ato(k, base, s);
            }
    // texts around the overflow boundary of every width, odd prefixes
    for (unsigned base : {2u, 3u, 7u, 8u, 10u, 16u, 17u, 35u, 36u})
        for (int k = 0; k < NKIND; k++)
        {
            char t[80];
            int bits = KBITS[k];
            for (uint64_t v : {wmask(bits), wmask(bits) >> 1, (wmask(bits) >> 1) + 1, (uint64_t)0})
            {
                ref_text(v, 64, false, base, r.chance(50), t);
                std::string s = t;
                emit_ato(k, base, s + std::string(1, '\0'));
                emit_ato(k, base, "-" + s + std::string(1, '\0'));
                emit_ato(k, base, s + "0" + std::string(1, '\0'));          // one digit too many
                emit_ato(k, base, "000" + s + " " + std::string(1, '\0'));  // leading zeros are digits
            }
            for (const char *odd : {"", "-", "--1", "+1", " 1", "-+1", "0x1f", "1-", "1.", "1.0", "-0", "z", "Z", "zZ9", "\x80", "\xff" "1", "@", "[", "`", "{", "/", ":"})
                emit_ato(k, base, std::string(odd) + std::string(1, '\0'));
        }

    // (4) libc shims
    for (const char *fn : {"itoa", "utoa", "ltoa", "ultoa"})
    {
        int bits = fn[0] == 'l' || fn[1] == 'l' ? 64 : 32;
        bool sgn = fn[0] == 'i' || fn[0] == 'l';
        for (unsigned base = 2; base <= 36; base++)
            for (uint64_t v : boundary_values(r, bits, sgn, base, th ? 16 : 4))
                printf("lc %s %u %016llx\n", fn, base, (unsigned long long)v);
        for (unsigned base : {0u, 1u, 37u, 266u, 65535u, 256u + 16u})
            for (uint64_t v : {(uint64_t)0, (uint64_t)255, wmask(bits)})
                printf("lc %s %u %016llx\n", fn, base, (unsigned long long)extend(v, bits, sgn));
    }
    // atol/atoi on the decimal text of longs (the value always fits; LONG_MIN is the probe below)
    {
        std::vector<uint64_t> vals = boundary_values(r, 64, true, 10, th ? 600 : 150);
        for (uint64_t v : boundary_values(r, 32, true, 10, th ? 200 : 50)) vals.push_back(v);
        for (uint64_t v : vals)
        {
            if (v == 0x8000000000000000ull) continue;
            char t[80];
            ref_text(v, 64, true, 10, false, t);
            std::string s;
            int sp = r.chance(30) ? (int)r.below(4) : 0;
            for (int i = 0; i < sp; i++) s.push_back(" \t\n\v\f\r"[r.below(6)]);
            if (t[0] != '-' && r.chance(20)) s.push_back('+');
            s += t;
            if (r.chance(40)) s += r.chance(50) ? std::string(1, (char)r.range(1, 255)) : std::string(".5e3");
            s.push_back(0);
            bool ok = true;
            {
                errno = 0;
                strtol(s.c_str(), 0, 10);
                if (errno) ok = false; // an appended digit overflowed: outside the stream by construction
            }
            if (ok) printf("atol %s\n", hex(s).c_str());
        }
        for (const char *odd : {"", " ", "-", "+", "+-1", "- 1", "abc", "\x80" "1", "00012", "-0"})
            printf("atol %s\n", hex(std::string(odd) + std::string(1, '\0')).c_str());
        // recorded finding (repaired in fix-C11): LONG_MIN overflows the accumulator
        printf("@F:C07-atol-longmin atol %s\n", hex(std::string("-9223372036854775808") + std::string(1, '\0')).c_str());
        printf("@F:C07-atol-longmin atol %s\n", hex(std::string("  -9223372036854775808x") + std::string(1, '\0')).c_str());
    }

    // (5) debug printers
    for (int i = 0; i < NDFN; i++)
    {
        const DFn &f = DFNS[i];
        if (f.bits <= 8)
            for (unsigned v = 0; v < (1u << f.bits); v++)
                printf("dpr %s %016llx\n", f.name, (unsigned long long)extend(v, f.bits, f.sgn));
        else
            for (uint64_t v : boundary_values(r, f.bits, f.sgn, f.fmt == 'd' ? 10 : f.fmt == 'x' ? 16 : 2, th ? 200 : 30))
                printf("dpr %s %016llx\n", f.name, (unsigned long long)v);
    }
    // (6) vt100_left
    for (uint64_t v : boundary_values(r, 32, true, 10, th ? 200 : 40))
        printf("vt %08x\n", (unsigned)(v & 0xffffffffu));

}

// (7) thorough: every 32-bit value in base 10 and 16, oracle only.  bin/check runs the seeds
// s*1000+0..NPART-1 in parallel; seed % NPART selects the share of the 32-bit space.
static void gen_wrapper(rng &r, const std::string &tier)
{
    gen(r, tier);
    if (tier != "thorough") return;
    uint64_t part = g_seed % NPART, span = (1ull << 32) / NPART;
    const uint64_t CH = 1ull << 18; // ~0.1 s per op: far below the 3 s per-op watchdog even on a loaded machine
    static const int K2[2] = {I32, U32};
    static const unsigned B2[2] = {10u, 16u};
    for (int ki = 0; ki < 2; ki++)
        for (int bi = 0; bi < 2; bi++)
            for (uint64_t lo = part * span; lo < (part + 1) * span; lo += CH)
                printf("sweep %s %u %016llx %llu\n", KNAME[K2[ki]], B2[bi], (unsigned long long)extend(lo, 32, K2[ki] == I32), (unsigned long long)CH);
}

int main(int argc, char **argv)
{
    if (argc >= 3) g_seed = strtoull(argv[2], 0, 10);
    return main_(argc, argv, gen_wrapper, run_op);
}
