// C07 harness: integer <-> text.
//   igris/util/numconvert.c (integer functions), igris/util/hexascii.h (hex2half),
//   compat/libc/stdlib/{itoa,atol}.c (through harness/C07_libc.c, renamed igv_*),
//   igris/dprint/dprint_func_impl.c (integer printers), igris/defs/vt100.h
// against the Lean model IgrisModel/C07.
//
// Operations (one per line, all stateless):
//   toa   K B V             render value V (16 hex digits, the 64-bit pattern of the value
//                           sign/zero-extended from its width) with igris_<K>toa in base B into
//                           an exactly sized buffer, then parse the text back with igris_ato<K>
//                           (as rendered, and with the case of every letter flipped)
//                           result: <buffer hex> <ret offset> <value> <end> <value flipped> <end flipped>
//   rng   K B LO N STRIDE   the same for the N values LO + k*STRIDE; result: FNV-1a hash of what
//                           `toa` would print (buffer, ret, value, end) + the last text
//   sweep K B LO N          oracle only (N consecutive values), result "swept N"
//   ato   K B HEX           igris_ato<K>(HEX bytes (NUL terminated), B, &end); result: <value> <end>
//   lc    FN B V            itoa/utoa/ltoa/ultoa; result: <buffer hex> <ret offset>
//   atol  HEX               libc atol and atoi of the text; result: <long> <int>
//   dpr   FN V              debug printers; result: hex of the characters given to debug_putchar
//   vt    V                 vt100_left(buf, (int)V); result: <buffer hex> <return value>
//   h2h   CC                hex2half((char)CC); result: 2 hex digits
// round 3:
//   wh    FN P SIZE REP HEX debug_writehex / _reversed / writebin / _reversed / debug_printhex_n (FN = hex hexr
//                           bin binr hexn) on mem + P, SIZE bytes; mem = HEX repeated REP times, exactly sized;
//                           result: <length> <FNV-1a> <first 48 bytes> of the characters given to debug_putchar
//   dump  LEN REP HEX       debug_print_dump(mem, LEN); the address column is reported relative to mem
//   hxa   W V               uint<W>_to_hex(V) into an exactly sized buffer, hex_to_uint<W> of it (as written and lower case)
//   tbl   h2x|dv|cty|alpha  tables read out of the compiled code: half2hex(0..255); digit_value of every character
//                           (through igris_atou8(c, 255)); igris/util/ctype.h on -128..255; the digit characters of
//                           every renderer (digits 0..35 in base 36)
//   consts                  sizeof / signedness of the parameter and return types of every entry point
//   pre                     results of calls made BEFORE main() (constructor with init_priority(101))
//   maxlen K B              length of the text of the largest (and smallest) value of the kind in base B
//   atorep K B LEN PAT TAIL igris_ato<K> on PAT repeated to LEN bytes followed by TAIL (long inputs)
//   seq   K V B1,B2,..      the same value rendered into ONE buffer in several bases, one after the other
//   twin <op> ...           the same operation (toa ato h2h rng sweep maxlen atorep seq) on the unanchored copy of the
//                           routines in igris/container/std_portable.h (repaired in round 3b; compared with the same model)
//   asml  W V1 [V2 V3 V4]   debug_asmlink_args<W>x<N>; asmr V: debug_asmlink_ret8..64, _test, dprptr(V), dprptrln(V), debug_print(NULL)
// round 3b:
//   dpr hex_u4x|bin_u4x V   debug_printhex_uint4 / debug_printbin_uint4 with the unmasked uint8_t argument (generated for 0..15)
//   consts                  compared: platform + the types an entry point's name fixes; tags: base / size / length parameter types
// The harness is four translation units (this one: oracle references, renderer ops, sweeps, dispatch; C07_parse.cpp,
// C07_dprint.cpp, C07_gen.cpp) + C07_libc.c + C07_twin.cpp, see C07_common.h.
#include "C07_common.h"
#include <igris/util/numconvert.h>
#include <igris/util/hexascii.h>
#include <igris/util/ctype.h>
#include <igris/dprint/dprint.h>
#include <igris/defs/vt100.h>

static_assert(sizeof(long) == 8 && sizeof(int) == 4 && sizeof(short) == 2, "LP64 assumed by the model");
static_assert(CHAR_MIN < 0, "char is signed (model: digit_value compares a signed char)");
static_assert((int8_t)(uint8_t)0x80 == -128 && (int32_t)0x80000000u == INT32_MIN, "modular narrowing");

// ------------------------------------------------------------------ kinds
const char *const KNAME[NKIND] = {"i8", "i16", "i32", "i64", "u8", "u16", "u32", "u64"};
const int KBITS[NKIND] = {8, 16, 32, 64, 8, 16, 32, 64};
int kind_of(const std::string &s)
{
    for (int k = 0; k < NKIND; k++)
        if (s == KNAME[k]) return k;
    return -1;
}
bool g_twin = false; // route call_toa / call_ato / hex2half to the std_portable.h copy
char *call_toa(int k, uint64_t v, char *buf, uint8_t base)
{
    if (g_twin) return c07_twin_toa(k, v, buf, base);
    switch (k)
    {
    case I8: return igris_i8toa((int8_t)v, buf, base);
    case I16: return igris_i16toa((int16_t)v, buf, base);
    case I32: return igris_i32toa((int32_t)v, buf, base);
    case I64: return igris_i64toa((int64_t)v, buf, base);
    case U8: return igris_u8toa((uint8_t)v, buf, base);
    case U16: return igris_u16toa((uint16_t)v, buf, base);
    case U32: return igris_u32toa((uint32_t)v, buf, base);
    default: return igris_u64toa((uint64_t)v, buf, base);
    }
}
// returns the w-bit pattern of the result
uint64_t call_ato(int k, const char *buf, uint8_t base, char **end)
{
    if (g_twin) return c07_twin_ato(k, buf, base, end);
    switch (k)
    {
    case I8: return (uint8_t)igris_atoi8(buf, base, end);
    case I16: return (uint16_t)igris_atoi16(buf, base, end);
    case I32: return (uint32_t)igris_atoi32(buf, base, end);
    case I64: return (uint64_t)igris_atoi64(buf, base, end);
    case U8: return igris_atou8(buf, base, end);
    case U16: return igris_atou16(buf, base, end);
    case U32: return igris_atou32(buf, base, end);
    default: return igris_atou64(buf, base, end);
    }
}

// ------------------------------------------------------------------ references (oracle)
extern const char AL_LO[]  = "0123456789abcdefghijklmnopqrstuvwxyz";
extern const char AL_UP[]  = "0123456789ABCDEFGHIJKLMNOPQRSTUVWXYZ";

// Canonical digits, most significant first, produced from the HIGHEST power
// downwards (the code under test divides from the least significant end).
int ref_digits(uint64_t mag, unsigned base, const char *al, char *out)
{
    u128 p = 1;
    while (p * base <= (u128)mag) p *= base;
    int n = 0;
    u128 m = mag;
    while (p)
    {
        unsigned d = (unsigned)(m / p);
        m -= (u128)d * p;
        out[n++] = al[d];
        p /= base;
    }
    return n;
}
// canonical text of the w-bit pattern v interpreted as signed/unsigned
int ref_text(uint64_t v, int bits, bool sgn, unsigned base, bool upper, char *out)
{
    int n = 0;
    uint64_t mag = v & wmask(bits);
    if (sgn && (mag >> (bits - 1)) & 1)
    {
        out[n++] = '-';
        mag = (0 - mag) & wmask(bits); // |minimum| = 2^(bits-1) fits the unsigned type
    }
    n += ref_digits(mag, base, upper ? AL_UP : AL_LO, out + n);
    out[n] = 0;
    return n;
}
int ref_dv(uint8_t c)
{
    for (int i = 0; i < 36; i++)
        if (c == (uint8_t)AL_LO[i] || c == (uint8_t)AL_UP[i]) return i;
    return 1000;
}
// value (mod 2^bits) and end offset of the longest digit prefix in `base`
uint64_t ref_parse(const uint8_t *s, int bits, bool sgn, unsigned base, size_t *end, bool *wrapped)
{
    size_t i = 0;
    bool neg = false;
    if (sgn && s[0] == '-') { neg = true; i = 1; }
    u128 acc = 0;
    bool wr = false;
    while (ref_dv(s[i]) < (int)base)
    {
        acc = acc * base + ref_dv(s[i]);
        if (acc >> bits) wr = true;
        acc &= (((u128)1) << 64) - 1;
        i++;
    }
    *end = i;
    if (wrapped) *wrapped = wr;
    uint64_t r = (uint64_t)acc;
    if (neg) r = 0 - r;
    return r & wmask(bits);
}
std::string flipcase(const std::string &s)
{
    std::string r = s;
    for (auto &c : r)
        if (c >= 'a' && c <= 'z') c = (char)(c - 32);
        else if (c >= 'A' && c <= 'Z') c = (char)(c + 32);
    return r;
}
std::string show(const std::string &s)
{
    std::string r;
    for (unsigned char c : s)
        if (c >= 32 && c < 127) r.push_back((char)c);
        else { char b[8]; snprintf(b, sizeof b, "\\x%02x", c); r += b; }
    return r;
}


// One value through toa + ato.  `buf` is placed so that it ENDS at the end of a
// heap block (ASan flags any write past the canonical length + 1).
struct RoundTrip
{
    std::string text;  // what the implementation wrote (bytes up to the NUL, or the whole buffer)
    bytes raw;         // whole buffer
    long ret;
    bool have_back;
    uint64_t back, backf;
    long end, endf;
};
static uint8_t *g_block = 0; // 96-byte heap block reused inside one op
static const size_t BLK = 96;

static void roundtrip(int k, uint64_t v, unsigned base, out &o, RoundTrip &r, bool flip)
{
    int bits = KBITS[k];
    bool sgn = ksigned(k);
    bool valid = base >= 2 && base <= 36;
    char ref[80];
    int len = valid ? ref_text(v, bits, sgn, base, !sgn, ref) : 0;
    if (!valid) ref[0] = 0;
    uint8_t *buf = g_block + BLK - (len + 1);
    memset(g_block, 0xA5, BLK);
    char *ret = call_toa(k, v, (char *)buf, (uint8_t)base);
    r.raw.assign(buf, buf + len + 1);
    r.ret = ret - (char *)buf;
    bool same = memcmp(buf, ref, len + 1) == 0;
    if (!same)
        o.fail(std::string("igris_") + KNAME[k] + "toa(" + hexn(v, 16) + ", base " + std::to_string(base) + ") wrote `" +
               show(std::string((char *)buf, len + 1)) + "`, canonical text is `" + ref + "`");
    if (r.ret != len)
        o.fail(std::string("igris_") + KNAME[k] + "toa returned buf+" + std::to_string(r.ret) + ", terminator is at " + std::to_string(len));
    for (uint8_t *q = g_block; q < buf; q++)
        if (*q != 0xA5) { o.fail("write before the buffer"); break; }
    r.have_back = false;
    if (!valid || buf[len] != 0) return;
    // parse back: the text sits at the very end of the block, so reading past the NUL is flagged too
    r.have_back = true;
    char *e = 0;
    r.back = call_ato(k, (const char *)buf, (uint8_t)base, &e);
    r.end = e - (char *)buf;
    uint64_t want = v & wmask(bits);
    if (r.back != want)
        o.fail(std::string("igris_ato") + KNAME[k] + "(`" + show((char *)buf) + "`, base " + std::to_string(base) + ") = " + hexn(r.back, bits / 4) +
               ", rendered value was " + hexn(want, bits / 4));
    if (r.end != len)
        o.fail(std::string("igris_ato") + KNAME[k] + "(`" + show((char *)buf) + "`, base " + std::to_string(base) + ") reports end offset " +
               std::to_string(r.end) + ", first unconsumed character is at " + std::to_string(len));
    if (flip)
    {
        std::string f = flipcase(std::string((char *)buf, len));
        memcpy(buf, f.c_str(), len + 1);
        e = 0;
        r.backf = call_ato(k, (const char *)buf, (uint8_t)base, &e);
        r.endf = e - (char *)buf;
        if (r.backf != want || r.endf != len)
            o.fail(std::string("igris_ato") + KNAME[k] + "(`" + show(f) + "`, base " + std::to_string(base) + ") = " + hexn(r.backf, bits / 4) + " end " +
                   std::to_string(r.endf) + " (case-flipped text of " + hexn(want, bits / 4) + ")");
    }
}
static void run_toa(const std::vector<std::string> &w, out &o)
{
    int k = kind_of(w[1]);
    unsigned base = (unsigned)strtoul(w[2].c_str(), 0, 10);
    uint64_t v = h64(w[3]);
    int bits = KBITS[k];
    RoundTrip r;
    roundtrip(k, v, base, o, r, true);
    o.result = hex(r.raw) + " " + std::to_string(r.ret);
    if (r.have_back)
        o.result += " " + hexn(r.back, bits / 4) + " " + std::to_string(r.end) + " " + hexn(r.backf, bits / 4) + " " + std::to_string(r.endf);
    bool valid = base >= 2 && base <= 36;
    if (!valid) { o.tag("base-out-of-range"); return; }
    o.tag(KNAME[k]);
    uint64_t p = v & wmask(bits);
    if (ksigned(k) && (p >> (bits - 1)) & 1) o.tag(p == (1ull << (bits - 1)) ? "minimum" : "negative");
    else if (p == (ksigned(k) ? wmask(bits) >> 1 : wmask(bits))) o.tag("maximum");
    if (base > 10) o.tag("letters-possible");
    if (base == 2 && bits == 64 && p >> 62) o.tag("longest-text");
}

// Odometer reference for sweeps: the canonical text of v+1 is obtained from the
// text of v by incrementing (or, for negative v, decrementing) the digit string
// -- no division anywhere, so it shares nothing with the code under test.
struct Odometer
{
    unsigned base;
    bool neg;
    int n;
    uint8_t d[72]; // most significant first, digit values
    void seed(uint64_t v, int bits, bool sgn, unsigned b)
    {
        base = b;
        char t[80];
        int len = ref_text(v, bits, sgn, b, false, t);
        neg = t[0] == '-';
        n = 0;
        for (int i = neg ? 1 : 0; i < len; i++) d[n++] = (uint8_t)ref_dv((uint8_t)t[i]);
    }
    void next()
    {
        if (neg)
        { // magnitude - 1
            int i = n - 1;
            while (d[i] == 0) d[i--] = (uint8_t)(base - 1);
            d[i]--;
            if (d[0] == 0 && n > 1) { memmove(d, d + 1, --n); }
            if (n == 1 && d[0] == 0) neg = false;
        }
        else
        { // magnitude + 1
            int i = n - 1;
            while (i >= 0 && d[i] == base - 1) d[i--] = 0;
            if (i < 0) { memmove(d + 1, d, n++); d[0] = 1; }
            else d[i]++;
        }
    }
    int text(bool upper, char *out) const
    {
        int k = 0;
        const char *al = upper ? AL_UP : AL_LO;
        if (neg) out[k++] = '-';
        for (int i = 0; i < n; i++) out[k++] = al[d[i]];
        out[k] = 0;
        return k;
    }
};

// render + parse back of one value against a given reference text; no allocation
static bool fast_ok(int k, uint64_t v, unsigned base, const char *ref, int len)
{
    uint8_t *buf = g_block + BLK - (len + 1);
    char *ret = call_toa(k, v, (char *)buf, (uint8_t)base);
    bool ok = ret == (char *)buf + len && memcmp(buf, ref, len + 1) == 0 && buf[-1] == 0xA5;
    if (ok)
    {
        char *e = 0;
        uint64_t back = call_ato(k, (const char *)buf, (uint8_t)base, &e);
        ok = back == (v & wmask(KBITS[k])) && e == (char *)buf + len;
    }
    memset(buf - 1, 0xA5, len + 2);
    return ok;
}

static void run_rng(const std::vector<std::string> &w, out &o, bool sweep)
{
    int k = kind_of(w[1]);
    unsigned base = (unsigned)strtoul(w[2].c_str(), 0, 10);
    uint64_t lo = h64(w[3]);
    uint64_t n = strtoull(w[4].c_str(), 0, 10);
    uint64_t stride = sweep ? 1 : strtoull(w[5].c_str(), 0, 10);
    int bits = KBITS[k];
    fnv h;
    RoundTrip r;
    uint64_t v = lo;
    o.tag(sweep ? "sweep" : "range");
    o.tag(KNAME[k]);
    if (sweep)
    {
        if (base < 2 || base > 36) { o.result = "bad-op"; return; }
        memset(g_block, 0xA5, BLK);
        Odometer od;
        od.seed(extend(v, bits, ksigned(k)), bits, ksigned(k), base);
        char ref[80];
        for (uint64_t i = 0; i < n; i++, v++)
        {
            uint64_t x = extend(v, bits, ksigned(k));
            int len = od.text(!ksigned(k), ref);
            if (!fast_ok(k, x, base, ref, len))
            {
                // the slow path recomputes the reference from scratch and words the failure
                roundtrip(k, x, base, o, r, true);
                if (o.oracle == "ok") o.fail("odometer reference `" + std::string(ref) + "` disagrees with the power-based reference at " + hexn(x, 16));
                break;
            }
            od.next();
        }
        o.result = "swept " + std::to_string(n);
        return;
    }
    for (uint64_t i = 0; i < n; i++, v += stride)
    {
        roundtrip(k, extend(v, bits, ksigned(k)), base, o, r, false);
        for (uint8_t b : r.raw) h.byte(b);
        h.byte((uint8_t)r.ret);
        h.le64(r.have_back ? r.back : 0);
        h.byte(r.have_back ? (uint8_t)r.end : 0xff);
        if (o.oracle != "ok") break;
    }
    o.result = hexn(h.h, 16) + " " + hex(r.raw);
}

static void run_op(const std::vector<std::string> &w, const std::string &, out &o)
{
    // hv::main_ arms a 3 s watchdog per op.  On this (virtualised, shared) machine a process
    // is occasionally not scheduled for seconds (steal time): 50 ms sweep ops were seen to hit
    // the 3 s limit under external load.  None of the routines under test has an unbounded
    // loop that a stall could be confused with for long, so give every op 20 s instead.
    hv::arm(20);
    if (!g_block) g_block = (uint8_t *)malloc(BLK);
    if (w.empty()) { o.result = "bad-op"; return; }
    if (w[0] == "twin" && w.size() >= 2 && !g_twin)
    {
        std::vector<std::string> w2(w.begin() + 1, w.end());
        // every operation that reaches the code through call_toa / call_ato / hex2half
        static const char *const TW[] = {"toa", "ato", "h2h", "rng", "sweep", "maxlen", "atorep", "seq"};
        bool okop = false;
        for (const char *t : TW) if (w2[0] == t) okop = true;
        if (!okop) { o.result = "bad-op"; return; }
        g_twin = true;
        run_op(w2, "", o);
        g_twin = false;
        // when the amalgamated header no longer carries its own copy the calls resolve to the anchored routines
        o.tag(c07_twin_present() ? "std_portable-twin" : "std_portable-twin-absent");
        return;
    }
    const std::string &op = w[0];
    if (op == "reset") o.result = "ok";
    else if (op == "toa" && w.size() == 4 && kind_of(w[1]) >= 0) run_toa(w, o);
    else if (op == "rng" && w.size() == 6 && kind_of(w[1]) >= 0) run_rng(w, o, false);
    else if (op == "sweep" && w.size() == 5 && kind_of(w[1]) >= 0) run_rng(w, o, true);
    else if (op == "ato" && w.size() == 4 && kind_of(w[1]) >= 0) run_ato(w, o);
    else if (op == "lc" && w.size() == 4) run_lc(w, o);
    else if (op == "atol" && w.size() == 2) run_atol(w, o);
    else if (op == "dpr" && w.size() == 3) run_dpr(w, o);
    else if (op == "vt" && w.size() == 2) run_vt(w, o);
    else if (op == "wh" && w.size() == 6) run_wh(w, o);
    else if (op == "dump" && w.size() == 4) run_dump(w, o);
    else if (op == "hxa" && w.size() == 3) run_hxa(w, o);
    else if (op == "tbl" && w.size() == 2) run_tbl(w, o);
    else if (op == "consts" && w.size() == 1) run_consts(o);
    else if (op == "pre" && w.size() == 1) run_pre(o);
    else if (op == "maxlen" && w.size() == 3 && kind_of(w[1]) >= 0) run_maxlen(w, o);
    else if (op == "atorep" && w.size() == 6 && kind_of(w[1]) >= 0) run_atorep(w, o);
    else if (op == "seq" && w.size() == 4 && kind_of(w[1]) >= 0) run_seq(w, o);
    else if (op == "asml" && w.size() >= 3 && w.size() <= 6) run_asml(w, o);
    else if (op == "asmr" && w.size() == 2) run_asmr(w, o);
    else if (op == "h2h" && w.size() == 2)
    {
        uint8_t c = (uint8_t)h64(w[1]);
        uint8_t r = g_twin ? c07_twin_hex2half((char)c) : hex2half((char)c);
        o.result = hexn(r, 2);
        int want = hexval((char)c);
        if (want >= 0)
        {
            o.tag(c >= 'a' ? "hex-lower" : c >= 'A' ? "hex-upper" : "hex-decimal");
            if (r != want) o.fail("hex2half('" + show(std::string(1, (char)c)) + "') = " + std::to_string(r));
        }
    }
    else o.result = "bad-op";
}

extern "C" unsigned char c07_real_hex2half(char c) { return hex2half(c); }
uint64_t g_seed = 1;

int main(int argc, char **argv)
{
    if (argc >= 3) g_seed = strtoull(argv[2], 0, 10);
    return main_(argc, argv, gen_wrapper, run_op);
}

