// C05 harness, generator part (gen <seed> <tier>); run part and main() in harness/C05.cpp
#include "gstuff/common.h"
#include "gstuff/sess.h"

// ------------------------------------------------------------------ gen
static const char *CODECS[3] = {"v1", "v0", "leg"};

static bytes rnd_payload(rng &r, const alphabet &a, size_t n)
{
    bytes p(n);
    int mode = (int)r.below(3);
    const uint8_t sp[] = {a.start, a.stop, a.stub, a.s_start, a.s_stop, a.s_stub, 0x00, 0xff, 0x41};
    for (auto &x : p)
        x = (mode == 0 || (mode == 1 && r.chance(40))) ? sp[r.below(sizeof sp)] : (uint8_t)r.next();
    return p;
}
static bytes rnd_noise(rng &r, const alphabet &a, size_t n)
{
    bytes p(n);
    const uint8_t sp[] = {a.start, a.stop, a.stub, a.s_start, a.s_stop, a.s_stub, 0x00, 0x41};
    int mode = (int)r.below(3);
    for (auto &x : p)
        x = (mode == 0 || (mode == 1 && r.chance(50))) ? sp[r.below(sizeof sp)] : (uint8_t)r.next();
    return p;
}
// frame produced by an independent reference encoder (the generator must not call igris code)
static bytes ref_frame(const alphabet &a, const bytes &p)
{
    bytes f{a.start};
    bytes q = p;
    q.push_back(ref_crc8(p));
    for (uint8_t c : q)
    {
        if (c == a.start) { f.push_back(a.stub); f.push_back(a.s_start); }
        else if (c == a.stub) { f.push_back(a.stub); f.push_back(a.s_stub); }
        else if (c == a.stop) { f.push_back(a.stub); f.push_back(a.s_stop); }
        else f.push_back(c);
    }
    f.push_back(a.stop);
    return f;
}

static alphabet rnd_alphabet(rng &r)
{
    while (true)
    {
        alphabet a;
        a.start = (uint8_t)r.next();
        a.stop = r.chance(40) ? a.start : (uint8_t)r.next();
        a.stub = (uint8_t)r.next();
        a.s_start = (uint8_t)r.next();
        a.s_stop = (a.start == a.stop && r.chance(50)) ? a.s_start : (uint8_t)r.next();
        a.s_stub = (uint8_t)r.next();
        bool ok = a.stub != a.start && a.stub != a.stop && a.s_start != a.start && a.s_start != a.stop &&
                  a.s_stop != a.start && a.s_stop != a.stop && a.s_stub != a.start && a.s_stub != a.stop &&
                  a.s_stub != a.s_start && a.s_stub != a.s_stop && (a.start == a.stop || a.s_stop != a.s_start);
        if (ok) return a;
    }
}

// RECEIVER SESSIONS: ONE gstuff_autorecv object (and ONE legacy struct) on which a sequence of calls is made:
// garbage, frames, init / setbuf with another capacity in the middle of a frame, reset() in the middle of a
// frame, the context replaced between packets (object re-constructed in place from the mutated context),
// the same receive block all the time
static void gen_sessions(rng &r, bool th)
{
    alphabet v1 = alpha_of(gstuff_context()), v0 = alpha_of(gstuff_context_v0()), lg = alpha_leg();
    for (int rep = 0; rep < (th ? 2500 : 300); rep++)
    {
        size_t blkcap = 24, maxn = 14, outcap = 2 * maxn + 4;
        std::string line = "seq " + std::to_string(outcap) + " " + std::to_string(blkcap);
        int nseg = (int)r.range(2, 5);
        alphabet a = v1;
        bool have_recv = false;
        for (int sg = 0; sg < nseg; sg++)
        {
            if (sg == 0 || r.chance(60))
            {
                alphabet b = r.chance(30) ? v1 : r.chance(45) ? v0 : rnd_alphabet(r);
                if (!(sg == 0 && same_alpha(b, v1))) line += " A" + alpha_hex(b);
                a = b;
                line += " N";
                have_recv = false;
            }
            if (!have_recv || r.chance(40))
            {
                line += (r.chance(50) ? " I" : " S") + std::to_string(r.chance(10) ? r.below(3) : r.range(4, (int)blkcap));
                have_recv = true;
            }
            int kind = (int)r.below(6);
            bytes p = rnd_payload(r, a, r.below(maxn + 1));
            bytes f = ref_frame(a, p);
            if (kind == 0)        // garbage, then the frame twice
                line += " F" + hex(rnd_noise(r, a, 1 + r.below(10))) + " E" + hex(p) + " F F";
            else if (kind == 1)   // part of a frame, init with another capacity, then whole frames
                line += " F" + hex(bytes(f.begin(), f.begin() + 1 + r.below(f.size() - 1))) + (r.chance(50) ? " I" : " S") +
                        std::to_string(r.range(2, (int)blkcap)) + " E" + hex(p) + " F F";
            else if (kind == 2)   // reset() in the middle of a frame
                { size_t c = 1 + r.below(f.size() - 1); line += " F" + hex(bytes(f.begin(), f.begin() + c)) + " R F" + hex(bytes(f.begin() + c, f.end())) + " E" + hex(p) + " F"; }
            else if (kind == 3)   // frames of another alphabet (the receiver keeps its copy of the context)
                { alphabet o = r.chance(50) ? v0 : rnd_alphabet(r); line += " F" + hex(ref_frame(o, p)) + " E" + hex(p) + " F F"; }
            else if (kind == 4)   // receiver used before any buffer was attached, then attached
                line += " N F" + hex(f) + " I" + std::to_string(p.size() + 2) + " E" + hex(p) + " F";
            else                  // over-long frame, then a fitting one
                { bytes big = rnd_payload(r, a, blkcap + r.below(4)); line += " F" + hex(ref_frame(a, big)) + " E" + hex(p) + " F"; }
            if (kind == 4) have_recv = true;
        }
        // legacy receiver: one struct, setbuf / reset in the middle of a frame
        if (r.chance(60))
        {
            bytes p = rnd_payload(r, lg, r.below(maxn + 1));
            bytes f = ref_frame(lg, p);
            size_t c = 1 + r.below(f.size() - 1);
            int kind = (int)r.below(4);
            if (kind == 0) line += " lf" + hex(f);                               // zero-initialised struct, no setbuf at all
            line += " ls" + std::to_string(r.chance(10) ? r.below(3) : r.range(4, (int)blkcap));
            if (kind == 1) line += " lf" + hex(bytes(f.begin(), f.begin() + c)) + " ls" + std::to_string(r.range(2, (int)blkcap)) + " G" + hex(p) + " lf lf";
            else if (kind == 2) line += " lf" + hex(bytes(f.begin(), f.begin() + c)) + " lr lf" + hex(bytes(f.begin() + c, f.end())) + " G" + hex(p) + " lf";
            else line += " lf" + hex(rnd_noise(r, lg, r.below(10))) + " G" + hex(p) + " lf lf";
        }
        puts(line.c_str());
    }
}

void gen(rng &r, const std::string &tier)
{
    bool th = tier == "thorough";
    puts("ctx");
    puts("sizes");
    puts("premain");
    gen_sessions(r, th);
    // capacities 255 / 256 / 257 with a payload that fits exactly (n = cap - 2) and one that is a byte too long,
    // twice in a row on the same receiver object; configurable (v1, v0) and legacy
    {
        alphabet v1 = alpha_of(gstuff_context()), v0 = alpha_of(gstuff_context_v0()), lg = alpha_leg();
        for (int cap : {255, 256, 257})
            for (int n : {cap - 2, cap - 1})
            {
                std::string head = "seq " + std::to_string(2 * n + 4) + " 260";
                printf("%s N I%d E%s F F\n", head.c_str(), cap, hex(rnd_payload(r, v1, (size_t)n)).c_str());
                printf("%s A%s N S%d E%s F F\n", head.c_str(), alpha_hex(v0).c_str(), cap, hex(rnd_payload(r, v0, (size_t)n)).c_str());
                printf("%s G%s ls%d lf lf\n", head.c_str(), hex(rnd_payload(r, lg, (size_t)n)).c_str(), cap);
            }
    }
    for (auto c : {"v1", "v0", "leg"})
    {
        printf("longnoise %s %d %d %d\n", c, (int)r.range(4, 40), 307200 + (int)r.below(64), (int)r.below(1000000));
        printf("longnoise %s %d %d %d\n", c, (int)r.below(2), 70000, (int)r.below(1000000));
    }
    for (int ci = 0; ci < 3; ci++)
    {
        const char *codec = CODECS[ci];
        alphabet a = alpha_by(codec);
        // (1) every stream up to a bound over the marker alphabet + {00, 41}
        bytes al = {a.start, a.stop, a.stub, a.s_start, a.s_stop, a.s_stub, 0x00, 0x41};
        std::sort(al.begin(), al.end());
        al.erase(std::unique(al.begin(), al.end()), al.end());
        int k = (int)al.size();
        int maxlen = k == 8 ? (th ? 6 : 4) : (th ? 7 : 5);
        for (int len = 0; len <= maxlen; len++)
        {
            long total = 1;
            for (int i = 0; i < len; i++) total *= k;
            for (long code = 0; code < total; code++)
            {
                bytes s;
                long c = code;
                for (int i = 0; i < len; i++, c /= k) s.push_back(al[c % k]);
                printf("feed %s %d %s\n", codec, 2 + (int)(code % 4), hex(s).c_str());
            }
        }
        // (2) valid traffic with one injected fault at every position
        for (int rep = 0; rep < (th ? 60 : 6); rep++)
        {
            bytes s;
            int nfr = (int)r.range(2, 4);
            for (int i = 0; i < nfr; i++)
            {
                bytes f = ref_frame(a, rnd_payload(r, a, r.below(7)));
                s.insert(s.end(), f.begin(), f.end());
            }
            for (size_t pos = 0; pos <= s.size(); pos++)
            {
                int kind = (int)((pos + rep) % 4);
                bytes m = s;
                if (kind == 0) m.resize(pos);                                            // truncate
                else if (kind == 1 && pos < m.size()) m[pos] ^= (uint8_t)(1u << r.below(8)); // flip
                else if (kind == 2) m.insert(m.begin() + pos, rnd_noise(r, a, 1)[0]);     // insert
                else if (pos < m.size()) m.erase(m.begin() + pos);                        // delete
                printf("feed %s %d %s\n", codec, (int)r.range(2, 12), hex(m).c_str());
            }
        }
        // (2b) a frame whose body starts with an invalid escape, the rest being a
        // well-formed body+CRC: must not be delivered (no start marker in between)
        for (int rep = 0; rep < (th ? 200 : 30); rep++)
        {
            bytes f = ref_frame(a, rnd_payload(r, a, 1 + r.below(6)));
            uint8_t x;
            do x = (uint8_t)r.next(); while (x == a.s_start || x == a.s_stop || x == a.s_stub || x == a.start || x == a.stop);
            bytes m = {a.start, a.stub, x};
            m.insert(m.end(), f.begin() + 1, f.end());
            if (rep % 3 == 0) { bytes f2 = ref_frame(a, rnd_payload(r, a, r.below(4))); m.insert(m.end(), f2.begin(), f2.end()); }
            printf("feed %s %d %s\n", codec, 16, hex(m).c_str());
        }
        // (3) noise
        for (int rep = 0; rep < (th ? 400 : 60); rep++)
        {
            size_t n = r.chance(80) ? r.below(60) : r.below(2001);
            printf("feed %s %d %s\n", codec, (int)r.range(2, 40), hex(rnd_noise(r, a, n)).c_str());
        }
        // (3b) capacities 0 and 1 (outside the property's quantifier, inside its "every receive buffer
        // size"): nothing may ever be stored; exhaustive short streams + noise
        for (int cap = 0; cap <= 1; cap++)
        {
            for (int len = 0; len <= 3; len++)
            {
                long total = 1;
                for (int i = 0; i < len; i++) total *= k;
                for (long code = 0; code < total; code++)
                {
                    bytes s;
                    long c = code;
                    for (int i = 0; i < len; i++, c /= k) s.push_back(al[c % k]);
                    printf("feed %s %d %s\n", codec, cap, hex(s).c_str());
                    if (cap == 0 && ci < 2) printf("feednb %s %s\n", codec, hex(s).c_str());
                }
            }
            for (int rep = 0; rep < (th ? 100 : 10); rep++)
            {
                bytes f = ref_frame(a, rnd_payload(r, a, r.below(5)));
                bytes n = rnd_noise(r, a, r.below(40));
                f.insert(f.end(), n.begin(), n.end());
                printf("feed %s %d %s\n", codec, cap, hex(f).c_str());
                if (cap == 0 && ci < 2) printf("feednb %s %s\n", codec, hex(f).c_str());
            }
        }
        // (4a) over-long well-formed frames whose TAIL behind the overflow point is itself CRC-consistent
        // (the first `cap` unescaped bytes have CRC-8 residue FF, so  tail ++ crc8(whole payload)  =
        // tail ++ crc8(tail)): a receiver that starts accumulating again right after the OVERFLOW
        // delivers the tail as a packet.  Followed by two ordinary frames.
        for (int rep = 0; rep < (th ? 600 : 80); rep++)
        {
            int cap = (int)r.range(3, 12);
            bytes head = rnd_payload(r, a, (size_t)cap);
            for (int x = 0; x < 256; x++)
            {
                head.back() = (uint8_t)x;
                if (ref_crc8(head) == 0xFF) break;
            }
            bytes tail = rnd_payload(r, a, 1 + r.below((size_t)cap - 2));
            bytes p = head;
            p.insert(p.end(), tail.begin(), tail.end());
            bytes g = rnd_noise(r, a, r.chance(50) ? 0 : r.below(6));
            printf("resync %s %d %s %s %s %s\n", codec, cap, hex(g).c_str(), hex(p).c_str(),
                   hex(rnd_payload(r, a, r.below((size_t)cap - 1))).c_str(), hex(rnd_payload(r, a, r.below((size_t)cap - 1))).c_str());
            bytes f = ref_frame(a, p);
            printf("feed %s %d %s\n", codec, cap, hex(f).c_str());
        }
        // (4c) garbage that is a marker-delimited, non-empty segment whose running CRC-8 comes back to
        // the seed FF (or to 0: a segment that "checks" although it is no frame of ours), then frames:
        // a receiver that tells "nothing received yet" from the CRC value instead of from the line
        // swallows the delimiter and glues the segment to the next frame
        for (int rep = 0; rep < (th ? 400 : 60); rep++)
        {
            int cap = (int)r.range(6, 24);
            bytes seg = rnd_payload(r, a, 1 + r.below(4));
            for (auto &x : seg) if (x == a.start || x == a.stop || x == a.stub) x = 0x33;
            uint8_t want = (rep % 3 == 2) ? 0x00 : 0xFF;
            for (int x = 0; x < 256; x++)
            {
                seg.back() = (uint8_t)x;
                if (x != a.start && x != a.stop && x != a.stub && ref_crc8(seg) == want) break;
            }
            bytes g = {a.start};
            g.insert(g.end(), seg.begin(), seg.end());
            if (rep % 2) g.push_back(a.stop);
            printf("resync %s %d %s %s %s %s\n", codec, cap, hex(g).c_str(), hex(rnd_payload(r, a, r.below(4))).c_str(),
                   hex(rnd_payload(r, a, r.below(4))).c_str(), hex(rnd_payload(r, a, r.below(4))).c_str());
        }
        // (4) garbage prefix followed by well-formed frames (and an over-long one now and then)
        for (int rep = 0; rep < (th ? 2000 : 250); rep++)
        {
            size_t gl = r.chance(15) ? 0 : r.below(r.chance(70) ? 8 : 80);
            bytes g = rnd_noise(r, a, gl);
            int cap = (int)r.range(4, 24);
            std::string line = std::string("resync ") + codec + " " + std::to_string(cap) + " " + hex(g);
            int np = (int)r.range(2, 5);
            for (int i = 0; i < np; i++)
            {
                size_t n = r.chance(12) ? (size_t)cap + r.below(4) - 1 : r.below((size_t)cap - 1);
                line += " " + hex(rnd_payload(r, a, n));
            }
            puts(line.c_str());
        }
    }
    // (5) repaired defect C05-legacy-no-hunt (was a recorded finding): a frame body that does not
    // begin at a start marker (stream start / after a DATA_ERROR) must not be delivered
    {
        alphabet a = alpha_leg();
        for (int rep = 0; rep < 20; rep++)
        {
            bytes p = rnd_payload(r, a, 1 + r.below(5));
            bytes f = ref_frame(a, p);
            f.erase(f.begin()); // no start marker at all
            if (rep % 2) { bytes pre = {a.start, a.stub, 0x00}; f.insert(f.begin(), pre.begin(), pre.end()); } // after a DATA_ERROR
            printf("feedstrict leg 16 %s\n", hex(f).c_str());
        }
    }
}

