// C20 harness, generator translation unit (split off harness/C20.cpp in round 3b so that bin/check compiles the two
// halves in parallel; pure op-line generation: no library code is used here).
#include "common/hv.h"

#include <algorithm>
#include <map>
#include <set>
#include <string>
#include <vector>
#include <cstdio>
#include <cstring>

// ---------------------------------------------------------------------------
// generator
// ---------------------------------------------------------------------------
static int steps_of(const std::string &tok, int waiters)
{
    switch (tok[0])
    {
    case 'L': case 'U': case 'S': case 'R': return 1;
    case 'W': return 7;
    case 'O': return 6;
    case 'A': return 2 + 4 * waiters;
    case 'P': case 'G': case 'Z': return 2;
    case 'E': case 'T': case 'N': return 3;
    case 'C': return 2;
    case 'I': case 'w': case 'p': case 'y': case 'v': return 1;
    }
    return 0;
}
static std::vector<std::string> split(const std::string &s, char d)
{
    std::vector<std::string> r;
    std::string cur;
    for (char ch : s + std::string(1, d))
        if (ch == d) { r.push_back(cur); cur.clear(); }
        else cur.push_back(ch);
    return r;
}
static std::vector<int> step_counts(const std::string &progs)
{
    auto ps = split(progs, '/');
    int waiters = 0;
    for (auto &p : ps) for (auto &t : split(p, ',')) if (!t.empty() && t[0] == 'W') waiters++;
    std::vector<int> r;
    for (auto &p : ps)
    {
        int k = 0;
        for (auto &t : split(p, ',')) if (!t.empty() && t != "-") k += steps_of(t, waiters);
        r.push_back(k);
    }
    return r;
}

static const char *g_kind = "c"; // "e": the programs run on the shared event / semaphore
bool c20_case_degraded(const char *kind, const std::string &progs); // harness/C20.cpp: a point the programs need is absent
static void emit_case(const std::string &progs, const std::string &init, const std::string &sched)
{
    printf("%s%s %s %s %s\n", c20_case_degraded(g_kind, progs) ? "x " : "", g_kind, progs.c_str(), init.empty() ? "-" : init.c_str(), sched.empty() ? "-" : sched.c_str());
}

// all interleavings (multiset permutations) of the threads' points
// round 3b (quick-tier wall time): with g_every = n only every n-th interleaving is emitted, starting at g_phase (taken
// from the seed, so that different seeds run different residues); the thorough tier always emits all of them
static long g_every = 1, g_phase = 0, g_perm_no = 0;
static void all_perms(const std::string &progs, const std::string &init, std::vector<int> left, std::string &cur, long &budget)
{
    bool any = false;
    for (size_t t = 0; t < left.size(); t++)
        if (left[t] > 0)
        {
            any = true;
            left[t]--;
            cur.push_back('0' + t);
            all_perms(progs, init, left, cur, budget);
            cur.pop_back();
            left[t]++;
            if (budget <= 0) return;
        }
    if (!any && budget > 0)
    {
        if (g_every <= 1 || g_perm_no++ % g_every == g_phase % g_every)
            emit_case(progs, init, cur);
        budget--;
    }
}
static void exhaustive(const std::string &progs, const std::string &init, long budget = 1000000)
{
    std::string cur;
    all_perms(progs, init, step_counts(progs), cur, budget);
}

// random schedule: bursts (few context switches) or uniform
static std::string rand_sched(hv::rng &r, const std::vector<int> &cnt, int mode)
{
    std::vector<int> left = cnt;
    int total = 0;
    for (int x : left) total += x;
    std::string s;
    int n = (int)cnt.size();
    int cur = (int)r.below(n);
    while (total > 0)
    {
        if (mode == 0) cur = (int)r.below(n);
        else if (r.chance(mode == 1 ? 25 : 8)) cur = (int)r.below(n);
        if (left[cur] == 0)
        {
            // sometimes name a finished/blocked thread on purpose
            if (r.chance(10)) s.push_back('0' + cur);
            cur = (int)r.below(n);
            continue;
        }
        left[cur]--; total--;
        s.push_back('0' + cur);
    }
    return s;
}

static std::string rand_prog_set(hv::rng &r, std::string &init)
{
    int n = (int)r.range(2, 4);
    int shape = (int)r.below(6);
    std::vector<std::string> p(n);
    long fut = 10, item = 100;
    init.clear();
    auto add = [&](int t, const std::string &s) { p[t] += (p[t].empty() ? "" : ",") + s; };
    if (shape == 0)
    { // lock nests
        for (int t = 0; t < n; t++)
        {
            int d = (int)r.range(1, 3);
            std::string s;
            for (int i = 0; i < d; i++) add(t, "L");
            if (r.chance(40)) { add(t, "S"); add(t, "R"); }
            for (int i = 0; i < d; i++) add(t, "U");
            if (r.chance(30)) { add(t, "L"); add(t, "U"); }
        }
    }
    else if (shape == 1 || shape == 2)
    { // waiters and wakers
        int nw = (int)r.range(1, n - 1);
        for (int t = 0; t < nw; t++) add(t, std::string("W") + (r.chance(30) ? "1" : "0"));
        int wakes = 0;
        for (int t = nw; t < n; t++)
        {
            if (r.chance(35)) { add(t, "A" + std::to_string(fut++)); wakes += nw; }
            else { int k = (int)r.range(1, 2); for (int i = 0; i < k; i++) { add(t, "O" + std::to_string(fut++)); wakes++; } }
        }
        // the last waker makes sure everybody can be woken
        add(n - 1, "A" + std::to_string(fut++));
        if (r.chance(30)) add(n - 1, "A" + std::to_string(fut++));
        (void)wakes;
    }
    else if (shape == 3 || shape == 4)
    { // queue producers / consumers
        int ninit = (int)r.range(0, 3), pops = 0;
        for (int i = 0; i < ninit; i++) init += (init.empty() ? "" : ",") + std::to_string(item++);
        for (int t = 0; t < n; t++)
        {
            int k = (int)r.range(1, 3);
            for (int i = 0; i < k; i++)
            {
                int c = (int)r.below(10);
                if (c < 5) add(t, "P" + std::to_string(item++));
                else if (c < 8 && pops < ninit) { add(t, "G"); pops++; }
                else add(t, "Z");
            }
        }
    }
    else
    { // mixed
        int ninit = 2, pops = 0;
        init = std::to_string(item) + "," + std::to_string(item + 1); item += 2;
        add(0, "W0");
        for (int t = 1; t < n; t++)
        {
            int k = (int)r.range(1, 3);
            for (int i = 0; i < k; i++)
            {
                int c = (int)r.below(10);
                if (c < 3) add(t, "P" + std::to_string(item++));
                else if (c < 5 && pops < ninit) { add(t, "G"); pops++; }
                else if (c < 7) { add(t, "L"); add(t, "U"); }
                else add(t, "O" + std::to_string(fut++));
            }
        }
        add(n - 1, "A" + std::to_string(fut++));
    }
    std::string s;
    for (int t = 0; t < n; t++) s += (t ? "/" : "") + (p[t].empty() ? std::string("-") : p[t]);
    return s;
}

// threads of a program set that contain a wait op
static std::vector<int> waiter_threads(const std::string &progs)
{
    std::vector<int> w;
    auto ps = split(progs, '/');
    for (size_t t = 0; t < ps.size(); t++)
        if (ps[t].find('W') != std::string::npos || ps[t].find('E') != std::string::npos || ps[t].find('T') != std::string::npos)
            w.push_back((int)t);
    return w;
}
// insert k spurious-return letters (for waiter threads) at random positions
static std::string with_spurs(hv::rng &r, std::string sched, const std::vector<int> &w, int k)
{
    if (w.empty())
        return sched;
    for (int i = 0; i < k; i++)
    {
        size_t pos = (size_t)r.below(sched.size() + 1);
        sched.insert(sched.begin() + pos, (char)('a' + w[r.below(w.size())]));
    }
    return sched;
}
// every interleaving of a program set, each with spurious returns inserted
static void all_perms_spur(hv::rng &r, const std::string &progs, std::vector<int> left, std::string &cur, long &count, int every, int variants)
{
    bool any = false;
    for (size_t t = 0; t < left.size(); t++)
        if (left[t] > 0)
        {
            any = true;
            left[t]--;
            cur.push_back('0' + t);
            all_perms_spur(r, progs, left, cur, count, every, variants);
            cur.pop_back();
            left[t]++;
        }
    if (!any && (count++ % every) == 0)
        for (int v = 0; v < variants; v++)
            emit_case(progs, "", with_spurs(r, cur, waiter_threads(progs), 1 + (int)r.below(2)));
}

// ---------------------------------------------------------------------------
// round 3 generators
// ---------------------------------------------------------------------------
static void gen3(hv::rng &r, bool thorough)
{
    // --- `u` cases: unwait_all with 2-3 waiters, the schedule is taken literally
    // also INSIDE the unwait_all call (the members run while the waker is between
    // two of its steps; a signalled waiter returns and destroys its stack frame -
    // waiter, list node, event - while the waker goes on to the next waiter).
    // Only order-independent output is compared; the oracles and TSan judge.
    printf("p premain\n");
    printf("k consts\n");
    // --- the "prioritised one" clause: EVERY combination of priorities and arrival
    // orders of 2..4 waiters; the waiters enqueue in the given order (3 points each:
    // lock, enqueue, unlock), then one thread calls unwait_one k times with distinct
    // futures: who got which future is the service order (judged by the reference deque)
    for (int k = 2; k <= 4; k++)
    {
        std::vector<int> perm;
        for (int t = 0; t < k; t++) perm.push_back(t);
        long idx = 0;
        do
        {
            for (int mask = 0; mask < (1 << k); mask++, idx++)
            {
                if (k == 4 && !thorough && idx % 6 != 0) continue;
                std::string progs, sc;
                for (int t = 0; t < k; t++) progs += std::string(t ? "/" : "") + "W" + ((mask >> t) & 1 ? "1" : "0");
                progs += "/";
                for (int i = 0; i < k; i++) progs += std::string(i ? "," : "") + "O" + std::to_string(i + 1);
                for (int t : perm) sc += std::string(3, '0' + t);
                emit_case(progs, "", sc);
            }
        } while (std::next_permutation(perm.begin(), perm.end()));
    }
    // repeated waits of ONE thread with changed priority between the calls
    for (const char *pg : {"W1,W0/W0,W1/O1,O2,O3,A4", "W0,W1,W0/W1/O1,O2,A3,A4"})
        for (int k = 0; k < (thorough ? 400 : 30); k++)
            emit_case(pg, "", rand_sched(r, step_counts(pg), (int)r.below(3)));
    // nesting depth 9 = the deepest the library admits (assert(count < 10)), a contender at depth 9, 5, 1
    {
        std::string nest;
        for (int i = 0; i < 9; i++) nest += "L,";
        for (int i = 0; i < 9; i++) nest += std::string("U") + (i < 8 ? "," : "");
        emit_case(nest + "/L,U", "", "0000000001000010000101");
        emit_case("L,L,L,L,L,L,L,L,L,S,R,U,U,U,U,U,U,U,U,U/L,U", "", "00000000010101");
        for (int k = 0; k < (thorough ? 100 : 6); k++)
            emit_case(nest + "/L,U", "", rand_sched(r, step_counts(nest + "/L,U"), (int)r.below(3)));
    }
    g_kind = "u";
    for (const char *pg : {"W0/W0/A9", "W0/W0/W0/A9", "W1/W0/W1/A9"})
    {
        int nw = (int)split(pg, '/').size() - 1;
        // every waiter asleep; after each step of the waker every waiter gets two grants
        // (event.wait.unlock, wait.return: it leaves and destroys its frame at once)
        std::string park, all;
        for (int t = 0; t < nw; t++) { park += std::string(5, '0' + t); all += std::string(2, '0' + t); }
        std::string sc = park, wk(1, '0' + nw);
        for (int k = 0; k < 2 + 4 * nw; k++) sc += wk + all;
        emit_case(pg, "", sc);
        // the same with the waiters only enqueued (not yet inside event.wait): the wake races with the park
        std::string enq;
        for (int t = 0; t < nw; t++) enq += std::string(3, '0' + t);
        sc = enq;
        for (int k = 0; k < 2 + 4 * nw; k++) sc += wk + all;
        emit_case(pg, "", sc);
        auto cnt = step_counts(pg);
        auto wt = waiter_threads(pg);
        for (int k = 0; k < (thorough ? 600 : 40); k++)
        {
            // all waiters enqueued first (3 or 5 steps each, random thread order), then anything
            std::vector<int> left = cnt;
            std::string pre;
            std::vector<int> order;
            for (int t = 0; t < nw; t++) order.push_back(t);
            for (int i = nw - 1; i > 0; i--) std::swap(order[i], order[r.below(i + 1)]);
            for (int t : order) { int d = r.chance(50) ? 3 : 5; pre += std::string(d, '0' + t); left[t] -= d; }
            std::string rest = rand_sched(r, left, (int)r.below(3));
            if (k % 2)
                rest = with_spurs(r, rest, wt, 1 + (int)r.below(3));
            emit_case(pg, "", pre + rest);
        }
    }
    g_kind = "c";
}

void c20_gen(hv::rng &r, const std::string &tier)
{
    bool thorough = tier == "thorough";
    // --- spurious returns of the condition-variable wait (schedule letters a..f)
    for (int k = 0; k <= 6; k++) // the waiter sleeps; one spurious return between any two steps of the waker
        emit_case("W0/O5", "", "00000" + std::string(k, '1') + "a" + std::string(6 - k, '1'));
    emit_case("W0/O5", "", "00000aa1a1a1a1a1a1a");       // a spurious return after every step
    emit_case("W0/O5", "", "0000a0a1111110");            // not yet / no longer asleep: no effect
    emit_case("W0/O5", "", "00000a");                    // only a spurious return, then the rest runs
    emit_case("W0/W0/A9", "", "0000011111ab2b2a2222b2a222");
    emit_case("W0/W1/O5,O6", "", "0000011111ba2a2b22222a22b2");
    emit_case("W0/W0/W0/A9", "", "000001111122222abc3c3b3a3333");
    emit_case("W0,W0/O5,O6", "", "00000a111111a00000a111111");
    {
        std::string cur;
        long count = 0;
        all_perms_spur(r, "W0/O5", step_counts("W0/O5"), cur, count, thorough ? 1 : 4, thorough ? 2 : 1);
    }
    // directed
    emit_case("L,U", "", "00");
    emit_case("L,L,U,U/L,U", "", "0010111");          // re-entry, blocked attempt, hand-off at depth 0 only
    emit_case("L,L,S,R,U,U/L,U", "", "00101011");
    emit_case("W0/O5", "", "0001111110000");          // wake races with the park: signal before event.wait
    emit_case("W0/O5", "", "0000011111100");          // waiter asleep in the condition variable
    emit_case("W0/O5", "", "00000111110101");         // waiter leaves while the waker is still in signal()
    emit_case("W0/O5", "", "1100000001");             // unwait before anybody waits: nobody is woken -> deadlock
    emit_case("W0/W0/O5,O6", "", "");
    emit_case("W0/W1/O5,O6", "", "000111");           // priority waiter goes first
    emit_case("W0/W0/W0/A9", "", "000111222");
    emit_case("P1,P2/G,G", "7,8", "");
    emit_case("P1/P2/G,Z", "7", "001122");
    // exhaustive interleavings of small programs
    exhaustive("L,U/L,U", "");
    exhaustive("L,L,U,U/L,U", "");
    exhaustive("L,S,R,U/L,U", "");
    exhaustive("L,U/L,U/L,U", "");
    exhaustive("P1/G", "7");
    exhaustive("P1,P2/G,G", "7,8");
    exhaustive("P1/P2/G", "7");
    exhaustive("P1/Z/G", "7");
    if (!thorough) { g_every = 2; g_phase = (long)r.below(2); g_perm_no = 0; }
    exhaustive("W0/O5", "");                          // 1716 schedules (quick: every 2nd, residue from the seed)
    g_every = 1;
    if (thorough)
    {
        exhaustive("W1/A5", "");
        exhaustive("W0/L,U,O5", "");
        exhaustive("L,L,S,R,U,U/L,L,U,U", "");
        exhaustive("P1,G/P2,G/Z", "7");
    }
    // --- the shared event (wait / wait(timeout) / signal / reset / isset) and semaphore
    g_kind = "e";
    emit_case("E/N", "", "0011101");
    emit_case("E/N/C", "", "0011a12");
    emit_case("T0/N,C", "", "000111111");
    emit_case("T1,C/N/T0", "", "0022200a111");
    emit_case("E,I/N,I", "", "00a11a1a");
    emit_case("w,v,p/y,v,p,v", "", "0001111");
    emit_case("w,p/w,p", "", "0101");                 // binary semaphore as a mutex: the second wait blocks until the post
    emit_case("I/N", "", "1110");                     // isset after a complete signal of another thread
    exhaustive("E/N", "");
    exhaustive("T0/N", "");
    exhaustive("T1/N", "");
    exhaustive("E/N,C", "");
    exhaustive("I/N,C", "");
    if (thorough)
    {
        exhaustive("E/N/C", "");
        exhaustive("w,p/w,p/y,v,p", "");
    }
    else
        for (const char *pg : {"E/N/C", "w,p/w,p/y,v,p"})
            for (int k = 0; k < 60; k++)
                emit_case(pg, "", rand_sched(r, step_counts(pg), (int)r.below(3)));
    {
        std::string cur;
        long count = 0;
        all_perms_spur(r, "E/N", step_counts("E/N"), cur, count, 1, 2);
        count = 0;
        all_perms_spur(r, "T1/N,C,N", step_counts("T1/N,C,N"), cur, count, thorough ? 1 : 3, 1);
    }
    for (int i = 0; i < (thorough ? 1500 : 110); i++)
    {
        int n = (int)r.range(2, 4);
        std::vector<std::string> p(n);
        auto add = [&](int t, const std::string &x) { p[t] += (p[t].empty() ? "" : ",") + x; };
        for (int t = 0; t < n; t++)
        {
            int k = (int)r.range(1, 3);
            for (int j = 0; j < k; j++)
            {
                int c = (int)r.below(12);
                if (c < 2) add(t, "E");
                else if (c < 3) add(t, "T0");
                else if (c < 4) add(t, "T1");
                else if (c < 6) add(t, "N");
                else if (c < 7) add(t, "C");
                else if (c < 8) add(t, "I");
                else if (c < 9) { add(t, "w"); add(t, "p"); }
                else if (c < 10) add(t, "y");
                else if (c < 11) add(t, "v");
                else add(t, "p");
            }
        }
        add(n - 1, "N"); // the last thread sets the event: waiters can finish
        std::string progs;
        for (int t = 0; t < n; t++) progs += (t ? "/" : "") + p[t];
        auto cnt = step_counts(progs);
        auto wt = waiter_threads(progs);
        for (int k = 0; k < 3; k++)
        {
            std::string sc = rand_sched(r, cnt, (int)r.below(3));
            if (!wt.empty() && r.chance(50))
                sc = with_spurs(r, sc, wt, 1 + (int)r.below(3));
            emit_case(progs, "", sc);
        }
    }
    g_kind = "c";
    // --- schedules where a mutation could hide
    exhaustive("L,L,L,S,R,U,U,U/L,U", "");               // depth 3, save/restore in the middle, a contender at every point
    if (thorough)
        exhaustive("L,L,L,S,R,U,U,U/L,L,U,U", "");
    for (const char *pg : {"L,L,L,S,R,U,U,U/L,U/L,L,S,R,U,U", "L,L,L,U,U,U/L,L,L,S,R,U,U,U/L,U"})
        for (int k = 0; k < (thorough ? 800 : 80); k++)
            emit_case(pg, "", rand_sched(r, step_counts(pg), (int)r.below(3)));
    for (const char *pg : {"W0/W0/W0/A9", "W0/W1/W0/A9", "W0/W0/W0/O5,A9"})  // unwait_all with 3 waiters
    {
        auto cnt = step_counts(pg);
        auto wt = waiter_threads(pg);
        for (int k = 0; k < (thorough ? 1000 : 70); k++)
        {
            std::string sc = rand_sched(r, cnt, (int)r.below(3));
            if (k % 3 == 0)
                sc = with_spurs(r, sc, wt, 1 + (int)r.below(3));
            emit_case(pg, "", sc);
        }
    }
    for (int k = 0; k < (thorough ? 1500 : 110); k++)      // two producers + two consumers
        emit_case("P1,P2/P3,P4/G,G/G,Z,G", "7,8,9,10", rand_sched(r, step_counts("P1,P2/P3,P4/G,G/G,Z,G"), (int)r.below(3)));
    // random programs, random schedules
    int nprog = thorough ? 2500 : 160;
    for (int i = 0; i < nprog; i++)
    {
        std::string init, progs = rand_prog_set(r, init);
        auto cnt = step_counts(progs);
        int ns = thorough ? 6 : 4;
        auto wt = waiter_threads(progs);
        for (int k = 0; k < ns; k++)
        {
            std::string sc = rand_sched(r, cnt, (int)r.below(3));
            if (!wt.empty() && r.chance(50))
                sc = with_spurs(r, sc, wt, 1 + (int)r.below(3));
            emit_case(progs, init, sc);
        }
    }
    // the two/three-waiter scenarios with many random schedules
    for (const char *pg : {"W0/W0/A9", "W0/W1/O5,O6", "W0/W0/O5/O6", "W0/O5/A6", "W0,W0/O5,A6"})
    {
        auto cnt = step_counts(pg);
        auto wt = waiter_threads(pg);
        for (int k = 0; k < (thorough ? 1500 : 90); k++)
        {
            std::string sc = rand_sched(r, cnt, (int)r.below(3));
            if (k % 2)
                sc = with_spurs(r, sc, wt, 1 + (int)r.below(3));
            emit_case(pg, "", sc);
        }
    }
    gen3(r, thorough);
}

