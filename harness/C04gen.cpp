// C04 harness, generator part (gen <seed> <tier>); run part and main() in harness/C04.cpp
#include "gstuff/common.h"
#include "gstuff/sess.h"

// ------------------------------------------------------------------ gen
static const char *CODECS[3] = {"v1", "v0", "leg"};

static bytes rnd_payload(rng &r, const alphabet &a, size_t n)
{
    bytes p(n);
    int mode = (int)r.below(3);
    const uint8_t sp[] = {a.start, a.stop, a.stub, a.s_start, a.s_stop, a.s_stub, 0x00, 0xff, 0x41};
    for (auto &x : p)
        x = (mode == 0 || (mode == 1 && r.chance(40))) ? sp[r.below(sizeof sp)] : (uint8_t)r.next();
    return p;
}

// a well-formed custom alphabet (Ctx.WF of the model): escape byte and escape codes differ from the markers,
// the code of the escape byte differs from the other two codes, the codes of start and stop differ when the
// markers do.  start == stop alphabets are generated too.
static alphabet rnd_alphabet(rng &r)
{
    while (true)
    {
        alphabet a;
        a.start = (uint8_t)r.next();
        a.stop = r.chance(35) ? a.start : (uint8_t)r.next();
        a.stub = (uint8_t)r.next();
        a.s_start = (uint8_t)r.next();
        a.s_stop = (a.start == a.stop && r.chance(50)) ? a.s_start : (uint8_t)r.next();
        a.s_stub = (uint8_t)r.next();
        bool ok = a.stub != a.start && a.stub != a.stop && a.s_start != a.start && a.s_start != a.stop &&
                  a.s_stop != a.start && a.s_stop != a.stop && a.s_stub != a.start && a.s_stub != a.stop &&
                  a.s_stub != a.s_start && a.s_stub != a.s_stop && (a.start == a.stop || a.s_stop != a.s_start);
        if (ok) return a;
    }
}

// payload over the markers of EVERY alphabet of the session (a byte that is a marker in one alphabet must go
// out as it is under another one), plus 00 41
static bytes sess_payload(rng &r, const std::vector<alphabet> &as, size_t n)
{
    bytes pool = {0x00, 0x41};
    for (auto &a : as) { const uint8_t *q = (const uint8_t *)&a; pool.insert(pool.end(), q, q + 6); }
    bytes p(n);
    for (auto &x : p) x = r.chance(85) ? pool[r.below(pool.size())] : (uint8_t)r.next();
    return p;
}
// a WORST-CASE payload of length n: every byte is a marker (needs escaping) and the CRC-8 is a marker too, so
// the frame has exactly 2n+4 bytes.  Random search (3 of 256 CRC values qualify); empty result = none found
// (e.g. n < 5 for the default alphabet, n < 4 for v0)
static bytes worst_payload(rng &r, const alphabet &a, size_t n)
{
    const uint8_t mk[3] = {a.start, a.stop, a.stub};
    bytes p(n);
    for (int tries = 0; tries < 4000 && n > 0; tries++)
    {
        for (auto &x : p) x = mk[r.below(3)];
        uint8_t crc = ref_crc8(p);
        if (crc == a.start || crc == a.stop || crc == a.stub) return p;
    }
    return bytes();
}
static std::string pieces_tok(rng &r, const bytes &p)
{
    int k = (int)r.range(1, 3);
    std::vector<size_t> cuts;
    for (int i = 0; i < k - 1; i++) cuts.push_back(r.below(p.size() + 1));
    std::sort(cuts.begin(), cuts.end());
    cuts.push_back(p.size());
    std::string s;
    size_t prev = 0;
    for (size_t i = 0; i < cuts.size(); i++)
    {
        s += (i ? "/" : "") + hex(bytes(p.begin() + prev, p.begin() + cuts[i]));
        prev = cuts[i];
    }
    return s;
}

// SESSIONS (seeded change C04-escape-table-cached-by-ctx-address): the encoder is called again and again with
// the SAME gstuff_context object whose contents changed in between (v1 -> v0 -> custom -> back ...), into the
// same output buffer; each frame is decoded by the one receiver object re-constructed from the context as it
// is at that moment
static void gen_sessions(rng &r, bool th)
{
    alphabet v1 = alpha_of(gstuff_context()), v0 = alpha_of(gstuff_context_v0());
    for (int rep = 0; rep < (th ? 1500 : 160); rep++)
    {
        std::vector<alphabet> as;
        int na = (int)r.range(2, 6);
        if (rep % 4 == 0) as = {v1, v0, rnd_alphabet(r), v1, v0};            // the order of the task
        else if (rep % 4 == 1) as = {v0, v1, v0, v1};
        else
            for (int i = 0; i < na; i++) as.push_back(r.chance(30) ? v1 : r.chance(40) ? v0 : rnd_alphabet(r));
        size_t maxn = rep % 7 == 0 ? 120 : 12;
        size_t outcap = 2 * maxn + 4, blkcap = maxn + 8;
        std::string line = "seq " + std::to_string(outcap) + " " + std::to_string(blkcap);
        bool first = true;
        for (auto &a : as)
        {
            // the first alphabet of a session may be the default-constructed one: no mutation at all
            if (!(first && same_alpha(a, v1) && r.chance(70))) line += " A" + alpha_hex(a);
            first = false;
            int ne = (int)r.range(1, 2);
            for (int e = 0; e < ne; e++)
            {
                bytes p = sess_payload(r, as, r.below(maxn + 1));
                int kind = (int)r.below(10);
                line += (kind < 7 ? " E" : " V") + pieces_tok(r, p);
                if (r.chance(75))
                {
                    size_t cap = p.size() + 2 + r.below(4);
                    if (r.chance(8) && p.size() > 0) cap = 1 + r.below(p.size() + 1);
                    line += r.chance(70) ? " N" : "";
                    line += (r.chance(50) ? " I" : " S") + std::to_string(std::min(cap, blkcap)) + " F";
                    if (r.chance(25)) line += " F";          // the same frame once more, no init in between
                    if (r.chance(10)) line += " R F";
                }
            }
            if (r.chance(15))
            {
                bytes p = sess_payload(r, as, r.below(maxn + 1));
                line += " G" + hex(p) + " ls" + std::to_string(std::min(p.size() + 2 + r.below(3), blkcap)) + " lf";
                if (r.chance(30)) line += " lf";
            }
        }
        puts(line.c_str());
    }
}

void gen(rng &r, const std::string &tier)
{
    bool th = tier == "thorough";
    puts("ctx");
    puts("sizes");
    puts("premain");
    gen_sessions(r, th);
    // >= 300 KiB payloads, once per codec: all markers, all escape bytes, mixed
    {
        const char *cs[3] = {"v1", "v0", "leg"}, *ks[3] = {"mark", "esc", "mix"};
        // quick tier (round 3b, wall time: the model driver needs ~4.5 us per byte): ONE >= 300 KiB payload per
        // codec (all-marker or all-escape, which one rotates with codec and seed), the other two kinds at
        // 24000+ bytes; thorough: all three kinds at >= 300 KiB per codec as before
        int rot = (int)r.below(2);
        for (int ci = 0; ci < 3; ci++)
            for (int ki = 0; ki < 3; ki++)
            {
                bool big = th || ki == (ci + rot) % 2;
                printf("long %s %s %d %d\n", cs[ci], ks[ki], (big ? 307200 : 24000) + (int)r.below(64), (int)r.below(1000000));
            }
        for (auto c : cs)
            for (int n : {0, 1, 2, 255, 256, 257, 65535, 65536, 65537})
                printf("long %s %s %d %d\n", c, ks[n % 3], n, (int)r.below(1000000));
    }
    for (int ci = 0; ci < 3; ci++)
    {
        const char *codec = CODECS[ci];
        // the alphabets are compile-time constants of the repo; the generator
        // reads them from the same headers as the harness
        alphabet a = alpha_by(codec);
        // (1) exhaustive payloads over {START, STOP, STUB, 00, 41}
        const uint8_t al[5] = {a.start, a.stop, a.stub, 0x00, 0x41};
        int maxlen = th ? 6 : 5;
        for (int len = 0; len <= maxlen; len++)
        {
            int total = 1;
            for (int i = 0; i < len; i++) total *= 5;
            for (int code = 0; code < total; code++)
            {
                bytes p;
                for (int i = 0, c = code; i < len; i++, c /= 5) p.push_back(al[c % 5]);
                printf("rt %s %d %s\n", codec, len + 2 + (int)(code % 3), hex(p).c_str());
                if (ci < 2 && (th || len <= 3))
                    printf("encvec %s %s\n", codec, hex(p).c_str());
            }
        }
        // (1b) worst-case frames: every payload byte needs escaping AND the CRC
        // needs escaping (frame length exactly 2n+4): all such payloads up to length 7 (thorough 9)
        {
            const uint8_t mk[3] = {a.start, a.stop, a.stub};
            for (int len = 1; len <= (th ? 9 : 7); len++)
            {
                int total = 1;
                for (int i = 0; i < len; i++) total *= 3;
                for (int code = 0; code < total; code++)
                {
                    bytes p;
                    for (int i = 0, c = code; i < len; i++, c /= 3) p.push_back(mk[c % 3]);
                    uint8_t crc = ref_crc8(p);
                    if (crc != a.start && crc != a.stop && crc != a.stub) continue;
                    printf("rt %s %d %s\n", codec, len + 2, hex(p).c_str());
                    if (ci < 2) printf("encvec %s %s\n", codec, hex(p).c_str());
                }
            }
        }
        // (2) payloads whose CRC is each marker / escape code
        const uint8_t targets[] = {a.start, a.stop, a.stub, a.s_start, a.s_stub, 0x00, 0xff};
        for (int rep = 0; rep < (th ? 40 : 6); rep++)
            for (uint8_t t : targets)
            {
                bytes p = rnd_payload(r, a, r.below(12));
                p.push_back(0);
                for (int x = 0; x < 256; x++)
                {
                    p.back() = (uint8_t)x;
                    if (ref_crc8(p) == t) break;
                }
                printf("rt %s %d %s\n", codec, (int)p.size() + 2 + (int)r.below(3), hex(p).c_str());
                if (ci < 2) printf("encvec %s %s\n", codec, hex(p).c_str());
            }
        // (3) random payloads 0..600, random iovec partitions
        for (int rep = 0; rep < (th ? 1500 : 150); rep++)
        {
            size_t n = r.chance(70) ? r.below(40) : r.below(601);
            bytes p = rnd_payload(r, a, n);
            printf("rt %s %d %s\n", codec, (int)n + 2 + (int)r.below(5), hex(p).c_str());
            if (ci < 2)
            {
                // split into 1..5 pieces, empty pieces allowed
                int k = (int)r.range(1, 5);
                std::vector<size_t> cuts;
                for (int i = 0; i < k - 1; i++) cuts.push_back(r.below(n + 1));
                std::sort(cuts.begin(), cuts.end());
                std::string line1 = std::string("enc ") + codec, line2 = std::string("encvec ") + codec;
                size_t prev = 0;
                cuts.push_back(n);
                for (size_t c : cuts)
                {
                    std::string h = hex(bytes(p.begin() + prev, p.begin() + c));
                    line1 += " " + h;
                    line2 += " " + h;
                    prev = c;
                }
                puts(line1.c_str());
                puts(line2.c_str());
            }
            else
                printf("enc leg %s\n", hex(p).c_str());
        }
        // (3b) size of the self-allocated buffer
        if (ci < 2)
            for (int rep = 0; rep < (th ? 200 : 30); rep++)
            {
                size_t n = rep < 8 ? (size_t)rep : r.below(300);
                bytes p = rnd_payload(r, a, n);
                size_t cut = r.below(n + 1);
                if (rep % 2) printf("vecbuf %s %s\n", codec, hex(p).c_str());
                else printf("vecbuf %s %s %s\n", codec, hex(bytes(p.begin(), p.begin() + cut)).c_str(), hex(bytes(p.begin() + cut, p.end())).c_str());
            }
        // (3c) round 3b: WORST-CASE payloads (frame = exactly 2n+4 bytes) through EVERY self-sizing overload at
        // many lengths: one piece (gstuffing_v(vec) and gstuffing(buffer)) and split into 2..3 pieces (gstuffing_v
        // only).  The oracle no longer demands a 2n+4 allocation; an allocation that is too SMALL shows here as
        // an ASan heap-buffer-overflow on the real vector.
        if (ci < 2)
        {
            std::vector<size_t> lens = {5, 6, 7, 8, 9, 15, 16, 17, 31, 32, 33, 63, 64, 65, 100, 127, 128, 255, 256, 257, 600, 1000};
            // (the store-level model the driver runs for `vecbuf` is quadratic in the length - List.set per byte -, so the
            // worst-case payloads stop at 4097; longer self-sized frames are the `long` ops)
            if (th) for (size_t n : {1023, 1024, 2047, 2048, 4095, 4096, 4097}) lens.push_back(n);
            for (int rep = 0; rep < (th ? 4 : 1); rep++)
                for (size_t n : lens)
                {
                    bytes p = worst_payload(r, a, n);
                    if (p.empty()) continue;
                    printf("vecbuf %s %s\n", codec, hex(p).c_str());
                    size_t c1 = r.below(n + 1), c2 = c1 + r.below(n - c1 + 1);
                    printf("vecbuf %s %s %s %s\n", codec, hex(bytes(p.begin(), p.begin() + c1)).c_str(),
                           hex(bytes(p.begin() + c1, p.begin() + c2)).c_str(), hex(bytes(p.begin() + c2, p.end())).c_str());
                }
        }
        // (4) receive buffers that are too small: must report overflow
        for (int rep = 0; rep < (th ? 300 : 40); rep++)
        {
            size_t n = 1 + r.below(30);
            bytes p = rnd_payload(r, a, n);
            printf("rt %s %d %s\n", codec, (int)r.range(2, (int)n + 1), hex(p).c_str());
        }
    }
    // (5) recorded finding C04-legacy-line-keeps-crc: the legacy receiver leaves the CRC byte in
    // the line it hands over
    {
        alphabet a = alpha_leg();
        for (int rep = 0; rep < 12; rep++)
        {
            bytes p = rnd_payload(r, a, rep < 3 ? (size_t)rep : r.below(20));
            printf("@F:C04-legacy-line-keeps-crc rtraw leg %d %s\n", (int)p.size() + 2 + (int)r.below(3), hex(p).c_str());
        }
    }
}

