// C03 harness: OPTIONAL access to what is not public API named by the property (round 3b, fragility sweep).
//
// The property names `ring_head {head, tail, size}`, `ring_counter {counter, size}` and the functions of the
// anchored headers.  Everything else the harness would like to look at - the data members `r` / `buffer` of
// igris::ring, `data` / `counter` / `_size` of igris::cyclic_buffer, `m_size` of igris::unbounded_array, the
// four pointers of bytering_head - is reached ONLY through the templates below: when the member exists it is
// read, when it has been renamed / removed / made private the call degrades to the public accessor
// (`head_index()`, `tail_index()`, `size()`, `get(i)`, `index_of`) or to the value the harness' own reference
// predicts.  (`if constexpr (requires ...)` discards a branch only for a DEPENDENT operand: hence templates.)
#ifndef IGRIS_VERIF_C03_ACC_H
#define IGRIS_VERIF_C03_ACC_H
#include <cstddef>
#include <cstdint>
#include <string>
#include <type_traits>
#include <utility>

namespace acc
{
    // ------------------------------------------------------------ igris::ring<T>
    template <class R> unsigned rhead(R &x)
    {
        if constexpr (requires { x.r.head; }) return x.r.head;
        else return (unsigned)x.head_index();
    }
    template <class R> unsigned rtail(R &x)
    {
        if constexpr (requires { x.r.tail; }) return x.r.tail;
        else return (unsigned)x.tail_index();
    }
    template <class R> unsigned rsize(R &x)
    {
        if constexpr (requires { x.r.size; }) return x.r.size;
        else return x.size();
    }
    template <class R> constexpr bool has_buffer = requires(R &x) { x.buffer.size(); x.buffer[(size_t)0]; x.buffer.data(); };
    // number of elements of the backing array (without the member: the ring's own slot count)
    template <class R> size_t bufsize(R &x, size_t fallback)
    {
        if constexpr (has_buffer<R>) return x.buffer.size();
        else return fallback;
    }
    template <class R> size_t bufsize(R &x) { return bufsize(x, (size_t)x.size()); }
    template <class R> auto &slot(R &x, size_t i)
    {
        if constexpr (has_buffer<R>) return x.buffer[i];
        else return x.get((int)i);
    }
    template <class R> const void *storage(R &x)
    {
        if constexpr (has_buffer<R>) return x.buffer.data();
        else return &x.get(0);
    }
    // "direct control" of the tail; without the member `r`: the public single-step move, as often as needed
    template <class R> void set_tail(R &x, unsigned t)
    {
        if constexpr (requires { x.r.tail = t; }) x.r.tail = t;
        else
            for (unsigned k = 0; k < x.size() && (unsigned)x.tail_index() != t; k++) x.move_tail_one();
    }

    // ---------------------------------------------------- igris::cyclic_buffer<T>
    // `fb` = the value the harness' reference predicts (pushes since construction / resize, capacity)
    template <class C> long cyc_counter(C &c, long fb)
    {
        if constexpr (requires { c.counter.counter; }) return c.counter.counter;
        else return fb;
    }
    template <class C> long cyc_counter_size(C &c, long fb)
    {
        if constexpr (requires { c.counter.size; }) return c.counter.size;
        else return fb;
    }
    template <class C> size_t cyc_data_size(C &c, size_t fb)
    {
        if constexpr (requires { c.data.size(); }) return c.data.size();
        else return fb;
    }

    // -------------------------------------------------------------- type widths
    template <class T> std::string ty() { return std::string(std::is_signed<T>::value ? "i" : "u") + std::to_string(sizeof(T)); }
    // width of cyclic_buffer's fill counter: the member if it can be named, else what size() returns
    template <class C> std::string cyc_size_width()
    {
        if constexpr (requires { &C::_size; }) return ty<decltype(C::_size)>();
        else return ty<decltype(std::declval<const C &>().size())>();
    }
    template <class A> std::string arr_size_width()
    {
        if constexpr (requires { &A::m_size; }) return ty<decltype(A::m_size)>();
        else return ty<decltype(std::declval<const A &>().size())>();
    }

    // ------------------------------------------------------------ bytering_head
    // offsets of head / tail from the start of the block; `in` = both inside [start,end) and start/end
    // still describe the block.  Without the four pointer members: the positions the reference predicts
    // (pop advances head, push advances tail; both start at 0).
    struct bview
    {
        long head, tail;
        bool in_range, block_ok;
    };
    template <class H> bview bring_view(H &h, const uint8_t *block, size_t size, size_t npop, size_t npush)
    {
        if constexpr (requires { h.head - h.start; h.tail - h.start; h.end - h.start; })
            return bview{(long)(h.head - h.start), (long)(h.tail - h.start),
                         h.head >= h.start && h.head < h.end && h.tail >= h.start && h.tail < h.end,
                         (const uint8_t *)h.start == block && (const uint8_t *)h.end == block + size};
        else
            return bview{(long)(npop % size), (long)(npush % size), true, true};
    }
}
#endif
