// C10: the same translation unit compiled as a RELEASE build (NDEBUG, no allocation-counter limit).
// Used for the histories with more than 90 live blocks (`reset heap <lim> rel`).
// Round 3b: the file is included INSIDE namespace c10rel, so every global with C++ linkage (the property's
// __brkval / __flp as well as any internal counter, whatever its name) is a different symbol from the debug
// build's without the harness naming it; only the three public entry points (extern "C") are renamed by macro.
// Every header the file includes is included here first, at global scope (include guards make the inner
// #include lines no-ops).
#define NDEBUG 1
#include <cstddef>
#include <cstdlib>
#include <cstring>
#include <cstdint>
#include <cstdio>
#include <climits>
#include <cassert>
#include <memory>
#include <mutex>
#include <new>
#include <utility>
#include <algorithm>
#include <stdlib.h>
#include <string.h>
#include <stdint.h>
#include <stdio.h>
#include <limits.h>
#include <unistd.h>
#include <igris/sync/critical_context.h>
#include <igris/sync/syslock.h>
#include <compat/mem/lin_malloc.h>
#define malloc igr_malloc
#define free igr_free
#define realloc igr_realloc
extern "C" void *igr_malloc(size_t);
extern "C" void igr_free(void *);
extern "C" void *igr_realloc(void *, size_t);
namespace c10rel
{
// the port's linker symbol for the first byte of the heap: the same arena as the debug build's
extern char _heap_start __asm__("_heap_start");
#include <compat/mem/lin_malloc.cpp>
}
