// C10: the same translation unit compiled as a RELEASE build (NDEBUG, no allocation-counter limit),
// all globals renamed with the suffix _rel so that both builds live in one harness.
// Used for the histories with more than 90 live blocks (`reset heap <lim> rel`).
#define NDEBUG 1
#include <cstddef>
#include <cstdlib>
#include <cstring>
#include <cassert>
#include <memory>
#include <mutex>
#include <stdlib.h>
#include <string.h>
#include <igris/sync/critical_context.h>
#include <igris/sync/syslock.h>
#define malloc igr_malloc
#define __brkval __brkval_rel
#define __flp __flp_rel
#define __allocation_counter __allocation_counter_rel
#define __malloc_heap_start __malloc_heap_start_rel
#define __malloc_heap_end __malloc_heap_end_rel
#define free igr_free
#define realloc igr_realloc
#include <compat/mem/lin_malloc.cpp>
