// C10 harness, heap half (round 3b: split off harness/C10.cpp so that the halves compile in parallel):
//   compat/mem/lin_malloc.cpp + lin_realloc.cpp, linked in through C10_malloc.cpp / C10_realloc.cpp as
//   igv_malloc / igv_free / igv_realloc (debug build) and C10_*_rel.cpp as igr_* (NDEBUG build).
// Result line: returned offset, break, the free list as the code links it, the `sz` header of every live block.
// Oracle (independent of the model): a shadow map of live blocks with fill patterns, heap walk, store watch.
#include "common/hv.h"
#include "C10_shared.h"
#include <map>
#include <fcntl.h>
#include <sys/wait.h>
#include <climits>
#include <csignal>
#include <set>
#include <memory>
#include <algorithm>
#include <functional>
#include <array>
#include <type_traits>
#include <cstddef>
#include <compat/mem/lin_malloc.h>
#include <bits/wordsize.h>

using namespace hv;

// ---------------------------------------------------------------- heap glue
extern "C" void *igv_malloc(size_t);
extern "C" void igv_free(void *);
extern "C" void *igv_realloc(void *, size_t);
// __brkval / __flp: the state the property names; __malloc_heap_start / __malloc_heap_end: the exported interface
// documented at the top of lin_malloc.cpp ("may be changed by the user before the first malloc() call").
extern char *__brkval;
extern char *__malloc_heap_start;
extern char *__malloc_heap_end;
extern struct __freelist *__flp;
// INTERNAL (round 3b: optional): the debug counter behind `assert(__allocation_counter < 100)`.  A weak reference:
// when the library renames or removes it the address is null and the clause "counter == live blocks" (which the
// property does not state) is skipped instead of breaking the link.
extern int __allocation_counter __attribute__((weak));
// the same two files compiled with NDEBUG (C10_*_rel.cpp): everything with C++ linkage lives in namespace c10rel,
// whatever the library calls it (round 3b: no per-name renaming, so a renamed / added global cannot collide)
extern "C" void *igr_malloc(size_t);
extern "C" void igr_free(void *);
extern "C" void *igr_realloc(void *, size_t);
namespace c10rel
{
extern char *__brkval;
extern char *__malloc_heap_start;
extern char *__malloc_heap_end;
extern struct __freelist *__flp;
extern int __allocation_counter __attribute__((weak));
}

struct HeapApi
{
    void *(*malloc_)(size_t);
    void (*free_)(void *);
    void *(*realloc_)(void *, size_t);
    char **brkval, **heap_start, **heap_end;
    struct __freelist **flp;
    int *counter;
};
static HeapApi API_DBG = {igv_malloc, igv_free, igv_realloc, &__brkval, &__malloc_heap_start, &__malloc_heap_end, &__flp, &__allocation_counter};
static HeapApi API_REL = {igr_malloc, igr_free, igr_realloc, &c10rel::__brkval, &c10rel::__malloc_heap_start, &c10rel::__malloc_heap_end, &c10rel::__flp, &c10rel::__allocation_counter};
static HeapApi *A = &API_DBG;
#define BRK (*A->brkval)
#define FLP (*A->flp)
// the internal counter, when the library still has one under that name
static bool cnt_known() { return A->counter != nullptr; }
static int cnt_get() { return A->counter ? *A->counter : 0; }
static void cnt_set(int v)
{
    if (A->counter) *A->counter = v;
}

alignas(64) char _heap_start[STATIC_ARENA]; // the symbol lin_malloc.cpp links against

// stubs for the critical-section / system-lock symbols of the bare-metal build
static int crit_level = 0;
extern "C" int critical_context_level(void) { return crit_level; }
static int lock_depth = 0, lock_max = 0;
extern "C" void system_lock(void)
{
    lock_depth++;
    if (lock_depth > lock_max) lock_max = lock_depth;
}
extern "C" void system_unlock(void) { lock_depth--; }

static std::string early_report __attribute__((init_priority(101)));
// Runs BEFORE main() and before every dynamic initialiser of default priority (the allocator's own statics,
// e.g. `static igris::syslock lock;` in lin_realloc.cpp, the harness' globals): a bare-metal start-up code calls
// malloc from constructors of static objects.  The allocator must work from its constant-initialised state
// (__brkval == NULL, __flp == NULL, __malloc_heap_start == &_heap_start).
struct EarlyHeapUser
{
    EarlyHeapUser()
    {
        char buf[200];
        char *a = (char *)igv_malloc(10);
        for (int i = 0; a && i < 10; i++) a[i] = (char)(i + 1);
        char *b = (char *)igv_realloc(a, 100);
        bool kept = b != nullptr;
        for (int i = 0; b && i < 10; i++) kept = kept && b[i] == (char)(i + 1);
        char *c = (char *)igv_malloc(0);
        long brk3 = __brkval ? (long)(__brkval - _heap_start) : -1;
        igv_free(b);
        igv_free(c);
        snprintf(buf, sizeof buf, "early a=%ld b=%ld c=%ld brk=%ld end=%ld fl=%d%s", a ? (long)(a - _heap_start) : -1, b ? (long)(b - _heap_start) : -1,
                 c ? (long)(c - _heap_start) : -1, brk3, __brkval ? (long)(__brkval - _heap_start) : -1, __flp ? 1 : 0, kept ? "" : " PREFIX-LOST");
        early_report = buf; // std::string with init_priority(101) too: constructed before this object (same TU, declared first)
    }
};
static EarlyHeapUser early_heap_user __attribute__((init_priority(101)));
// ================================================================ heap
struct Blk
{
    char *p;
    size_t n;      // requested size
    uint64_t seed; // fill pattern
    size_t hdr;    // header value seen when the block was handed out
};
struct HeapCase
{
    size_t lim = 0;
    char *start = nullptr;
    size_t cap = 0; // bytes really available behind start
    std::unique_ptr<exact_buf> own;
    std::map<int, Blk> live;
    uint64_t ctr = 1;
};
static std::unique_ptr<HeapCase> HC;

static size_t &hdr_of(char *p) { return ((size_t *)p)[-1]; }
// a request that cannot be rounded up to a multiple of __WORDSIZE in a size_t: no block can satisfy it
static bool unrepresentable(size_t n) { return n % __WORDSIZE && n > SIZE_MAX - (__WORDSIZE - n % __WORDSIZE); }
// the request as the allocator sizes it (rounded up to __WORDSIZE, at least 8); only for representable requests
static size_t rounded(size_t n)
{
    size_t len = n % __WORDSIZE ? n + (__WORDSIZE - n % __WORDSIZE) : n;
    return len < 8 ? 8 : len;
}
// ADDRESS wrap-around: a chunk of `len` payload bytes whose header would sit at address `at` does not fit below the
// top of the 64-bit address space (no block can satisfy such a request: NULL is the only admissible answer)
static bool addr_wraps(const char *at, size_t n)
{
    if (unrepresentable(n)) return true;
    size_t len = rounded(n);
    return len > SIZE_MAX - 8 || len + 8 > SIZE_MAX - (size_t)(uintptr_t)at;
}
// a block the allocator handed out must lie inside the arena (checked BEFORE the harness touches it)
static bool block_in_arena(const char *p, size_t n);

static bool block_in_arena(const char *p, size_t n)
{
    return p >= HC->start + 8 && p <= HC->start + HC->cap && n <= (size_t)(HC->start + HC->cap - p);
}
static void heap_fill(Blk &b)
{
    b.seed = HC->ctr++;
    for (size_t i = 0; i < b.n; i++) b.p[i] = (char)pat(b.seed, i);
}
static bool heap_intact(const Blk &b, size_t upto, const char *at, std::string &why)
{
    for (size_t i = 0; i < upto; i++)
        if ((uint8_t)at[i] != pat(b.seed, i))
        {
            why = "byte " + s(i);
            return false;
        }
    return true;
}

struct FreeList
{
    std::vector<std::pair<size_t, size_t>> v;
    bool ok = true;
};
static FreeList walk_freelist(out &o)
{
    FreeList fl;
    size_t steps = 0;
    for (struct __freelist *f = FLP; f; f = f->nx)
    {
        if ((char *)f < HC->start || (char *)f + sizeof(struct __freelist) > HC->start + HC->cap)
        {
            o.fail("free list leaves the arena");
            fl.ok = false;
            break;
        }
        fl.v.push_back({(size_t)((char *)f - HC->start), f->sz});
        if (++steps > 100000)
        {
            o.fail("free list is cyclic");
            fl.ok = false;
            break;
        }
    }
    return fl;
}

// the checks that hold after every heap operation
static void heap_oracle(out &o, int operated_slot, const FreeList &fl)
{
    size_t brk = BRK ? (size_t)(BRK - HC->start) : 0;
    if (BRK && (BRK < HC->start || brk > HC->cap)) o.fail("break outside the arena");
    if (HC->lim && brk > HC->lim) o.fail("break " + s(brk) + " beyond the heap end " + s(HC->lim));
    // every other live block: contents and header untouched
    for (auto &kv : HC->live)
    {
        if (kv.first == operated_slot) continue;
        std::string why;
        if (!heap_intact(kv.second, kv.second.n, kv.second.p, why))
            o.fail("contents of live block in slot " + s(kv.first) + " changed at " + why);
        if (hdr_of(kv.second.p) != kv.second.hdr) o.fail("header of live block in slot " + s(kv.first) + " changed");
    }
    // live blocks: inside [start, brk), aligned, pairwise disjoint (header + requested payload)
    std::vector<std::pair<size_t, size_t>> spans;
    for (auto &kv : HC->live)
    {
        const Blk &b = kv.second;
        if (b.p - 8 < HC->start || (size_t)(b.p - HC->start) + b.n > brk)
            o.fail("block in slot " + s(kv.first) + " not inside [start, brk)");
        if ((uintptr_t)b.p % 8) o.fail("payload not 8-aligned");
        if (hdr_of(b.p) < b.n) o.fail("usable size " + s(hdr_of(b.p)) + " < request " + s(b.n));
        spans.push_back({(size_t)(b.p - 8 - HC->start), (size_t)(b.p - HC->start) + std::max(b.n, hdr_of(b.p))});
    }
    std::sort(spans.begin(), spans.end());
    for (size_t i = 1; i < spans.size(); i++)
        if (spans[i].first < spans[i - 1].second) o.fail("two live blocks overlap at offset " + s(spans[i].first));
    // the chunks (live or free) tile [start, brk): nothing is lost
    if (fl.ok)
    {
        std::map<size_t, int> kind; // header offset -> 1 live, 2 free
        for (auto &kv : HC->live) kind[(size_t)(kv.second.p - 8 - HC->start)] |= 1;
        for (auto &f : fl.v) kind[f.first] |= 2;
        size_t a = 0, nchunks = 0;
        while (a < brk)
        {
            auto it = kind.find(a);
            if (it == kind.end() || it->second == 3)
            {
                o.fail("heap walk: offset " + s(a) + (it == kind.end() ? " is neither a live nor a free chunk (memory lost)" : " is both live and free"));
                break;
            }
            a += 8 + *(size_t *)(HC->start + a);
            nchunks++;
        }
        if (a > brk) o.fail("heap walk: last chunk ends behind the break");
        if (a == brk && nchunks != kind.size()) o.fail("heap walk: a chunk lies outside the tiling");
    }
    if (HC->live.empty() && (brk != 0 || FLP != nullptr))
        o.fail("no live block but brk=" + s(brk) + " / free list not empty: memory lost");
    if (cnt_known() && cnt_get() != (int)HC->live.size())
        o.fail("__allocation_counter=" + s(cnt_get()) + " with " + s(HC->live.size()) + " live blocks");
    if (lock_depth != 0) o.fail("system lock not released");
}

static std::string heap_line(const std::string &ret, const FreeList &fl)
{
    std::string r = "ret=" + ret + " brk=" + s(BRK ? (long long)(BRK - HC->start) : 0) + " fl=";
    for (auto &f : fl.v) r += "(" + s(f.first) + "," + s(f.second) + ")";
    r += " live=";
    bool first = true;
    for (auto &kv : HC->live)
    {
        if (!first) r += " ";
        first = false;
        r += s(kv.first) + ":" + s(kv.second.p - HC->start) + ":" + s(hdr_of(kv.second.p));
    }
    return r;
}

// Every store of an allocator call must go into the chunk it operates on, into
// a chunk that was free before the call, or behind the old break (evaluated on
// the real memory by a snapshot diff; stronger than the fill patterns, which
// cover only the requested bytes of the other live blocks).
struct StoreWatch
{
    std::vector<char> snap;
    std::vector<std::pair<size_t, size_t>> allowed;
    size_t brk0 = 0;
    void begin(char *operated)
    {
        brk0 = BRK ? (size_t)(BRK - HC->start) : 0;
        snap.assign(HC->start, HC->start + brk0);
        allowed.clear();
        size_t steps = 0;
        for (struct __freelist *f = FLP; f && steps++ < 100000; f = f->nx)
        {
            size_t a = (size_t)((char *)f - HC->start);
            allowed.push_back({a, a + 8 + f->sz});
        }
        if (operated) allowed.push_back({(size_t)(operated - 8 - HC->start), (size_t)(operated - HC->start) + hdr_of(operated)});
    }
    void end(out &o)
    {
        for (size_t x = 0; x + 8 <= brk0; x += 8)
        {
            if (!memcmp(snap.data() + x, HC->start + x, 8)) continue;
            bool ok = false;
            for (auto &a : allowed)
                if (a.first <= x && x + 8 <= a.second) ok = true;
            if (!ok)
            {
                o.fail("store at offset " + s(x) + " is outside the operated chunk, the free chunks and the space behind the break");
                return;
            }
        }
    }
};
static StoreWatch SW;

namespace c10
{
bool heap_active() { return (bool)HC; }
void heap_drop() { HC.reset(); }
void heap_early_op(out &o)
{
    o.result = early_report;
    if (early_report.find("PREFIX-LOST") != std::string::npos || early_report.find("-1") != std::string::npos)
        o.fail("allocator used before main(): " + early_report);
    o.tag("before-main");
    return;
}
void heap_reset_op(const std::vector<std::string> &w, out &o)
{
    const std::string &k = w[1];
    if (k == "crit")
    {
        // malloc / free / realloc called from a critical context (interrupt handler): the port aborts instead of
        // corrupting the heap under the interrupted call.  Run in a child process.
        fflush(stdout);
        pid_t pid = fork();
        if (pid == 0)
        {
            int nul = open("/dev/null", O_RDWR);
            dup2(nul, 0);
            dup2(nul, 1);
            dup2(nul, 2);
            __malloc_heap_start = _heap_start;
            __malloc_heap_end = nullptr;
            __brkval = nullptr;
            __flp = nullptr;
            if (&__allocation_counter) __allocation_counter = 0;
            void *q = igv_malloc(8);
            crit_level = 1;
            if (w[2] == "m") q = igv_malloc(8);
            else if (w[2] == "f") igv_free(q);
            else q = igv_realloc(q, 100);
            _exit(q ? 0 : 1);
        }
        int status = 0;
        waitpid(pid, &status, 0);
        o.result = WIFSIGNALED(status) && WTERMSIG(status) == SIGABRT ? "abort" : WIFSIGNALED(status) ? "signal " + s(WTERMSIG(status)) : "returned";
        o.tag("critical-context");
        return;
    }
    if (k == "heap")
    {
        HC.reset(new HeapCase());
        HC->lim = strtoul(w[2].c_str(), 0, 10);
        if (HC->lim)
        {
            // exactly sized arena: a store behind the heap end is an ASan report
            HC->own.reset(new exact_buf(HC->lim));
            HC->start = (char *)HC->own->p;
            HC->cap = HC->lim;
            o.tag("limited");
        }
        else
        {
            HC->start = _heap_start;
            HC->cap = STATIC_ARENA;
        }
        // the model assumes an arena address in [2^32, 2^47) (requests are generated so that their verdict is the
        // same for every base in that range)
        if ((uintptr_t)HC->start < (1ull << 32) || (uintptr_t)HC->start + HC->cap >= (1ull << 47)) o.fail("arena address outside [2^32, 2^47): the model's address assumption does not hold on this host");
        if ((uintptr_t)HC->start % 8) o.fail("arena start not 8-aligned");
        A = (w.size() > 3 && w[3] == "rel") ? &API_REL : &API_DBG;
        if (A == &API_REL) o.tag("release-build");
        *A->heap_start = HC->start;
        *A->heap_end = HC->lim ? HC->start + HC->lim : nullptr;
        BRK = nullptr;
        FLP = nullptr;
        cnt_set(0);
        lock_depth = 0;
        o.result = "ok";
        return;
    }
    o.result = "bad-op";
}
void heap_op(const std::vector<std::string> &w, out &o)
{
    const std::string &op = w[0];
        size_t fl_before = 0;
        for (struct __freelist *f = FLP; f && fl_before < 100000; f = f->nx) fl_before++;
        char *brk_before = BRK;
        std::string ret = "-", pre;
        int slot = -1;
        if (op == "m")
        {
            slot = atoi(w[1].c_str());
            size_t n = strtoul(w[2].c_str(), 0, 10);
            const char *brk_addr = BRK ? BRK : HC->start;
            bool was_empty = HC->live.empty();
            SW.begin(nullptr);
            char *p = (char *)A->malloc_(n);
            SW.end(o);
            if (p && !block_in_arena(p, n))
            {
                // judged before the harness touches the block: it cannot be filled, the case ends here
                o.fail("malloc(" + su(n) + ") returned a block that is not inside the arena [start, start + " + su(HC->cap) + ")");
                o.result = "ret=outside";
                return;
            }
            if (p)
            {
                Blk b{p, n, 0, hdr_of(p)};
                if (hdr_of(p) < n)
                {
                    o.fail("usable size " + su(hdr_of(p)) + " < request " + su(n));
                    b.n = hdr_of(p); // keep the shadow map usable
                }
                heap_fill(b);
                HC->live[slot] = b;
                ret = s(p - HC->start);
            }
            else
            {
                ret = "null";
                // without a heap end NULL is admissible only for a request no block can satisfy: its rounding wraps
                // around SIZE_MAX, or the new chunk would reach across the top of the address space
                if (!HC->lim && !addr_wraps(brk_addr, n)) o.fail("malloc returned NULL without a heap limit");
                // "memory is not lost": on a heap without live blocks the whole arena is available again
                if (HC->lim && was_empty && !unrepresentable(n) && rounded(n) <= HC->lim - 8 && HC->lim >= 8)
                    o.fail("malloc(" + su(n) + ") failed on a heap without live blocks although " + su(HC->lim) + " bytes are configured");
                o.tag("malloc-null");
                if (!HC->lim && !unrepresentable(n)) o.tag("address-wrap-refused");
            }
            if (p && was_empty && HC->lim && rounded(n) + 8 + 64 > HC->lim) o.tag("maximal-alloc-on-empty-heap");
            if (unrepresentable(n)) o.tag("request-rounding-wraps");
            if (p)
            {
                size_t fl_after = 0;
                for (struct __freelist *f = FLP; f && fl_after < 100000; f = f->nx) fl_after++;
                if (BRK != brk_before) o.tag("malloc-extend");
                else if (fl_after < fl_before) o.tag(hdr_of(p) == (n < 8 ? 8 : (n + 63) / 64 * 64) ? "malloc-exact" : "malloc-whole");
                else o.tag("malloc-split");
            }
            if (n == 0) o.tag("size0");
        }
        else if (op == "mx")
        {
            // probe of finding C10-heap-arena-unbounded-by-default: a request larger than what is left of the arena,
            // no heap end configured.  Judged without touching the block, which is released at once.
            size_t n = strtoul(w[2].c_str(), 0, 10);
            char *p = (char *)A->malloc_(n);
            if (p && !block_in_arena(p, n)) o.fail("malloc(" + su(n) + ") returned a block that reaches " + su((size_t)(p - HC->start) + n - HC->cap) + " bytes behind the arena (no heap end configured: the break is unbounded)");
            if (p) A->free_(p);
            o.tag("probe-unbounded");
        }
        else if (op == "al")
        {
            // probe of finding C10-heap-align-max-align-t: is the payload aligned for max_align_t?
            auto it = HC->live.find(atoi(w[1].c_str()));
            if (it != HC->live.end() && (uintptr_t)it->second.p % alignof(max_align_t))
                o.fail("payload at offset " + s(it->second.p - HC->start) + " is not aligned for max_align_t (" + s(alignof(max_align_t)) + ")");
            o.tag("probe-maxalign");
        }
        else if (op == "f")
        {
            slot = atoi(w[1].c_str());
            auto it = HC->live.find(slot);
            if (it == HC->live.end())
            {
                SW.begin(nullptr);
                A->free_(nullptr);
                SW.end(o);
                o.tag("free-null");
            }
            else
            {
                Blk b = it->second;
                std::string why;
                if (!heap_intact(b, b.n, b.p, why)) o.fail("contents changed before free at " + why);
                HC->live.erase(it);
                SW.begin(b.p);
                A->free_(b.p);
                SW.end(o);
                size_t fl_after = 0;
                for (struct __freelist *f = FLP; f && fl_after < 100000; f = f->nx) fl_after++;
                if (BRK != brk_before) o.tag("free-lower-brk");
                if (fl_after + 1 == fl_before && BRK == brk_before) o.tag("free-merge-both");
                else if (fl_after == fl_before && BRK == brk_before) o.tag("free-merge-one");
                else if (fl_after == fl_before + 1) o.tag("free-insert");
                if (BRK != brk_before && fl_after < fl_before) o.tag("free-merge-then-lower");
            }
        }
        else if (op == "r")
        {
            slot = atoi(w[1].c_str());
            size_t n = strtoul(w[2].c_str(), 0, 10);
            auto it = HC->live.find(slot);
            if (it == HC->live.end())
            {
                const char *brk_addr = BRK ? BRK : HC->start;
                SW.begin(nullptr);
                char *p = (char *)A->realloc_(nullptr, n);
                SW.end(o);
                o.tag("realloc-null-ptr");
                if (p && !block_in_arena(p, n))
                {
                    o.fail("realloc(NULL, " + su(n) + ") returned a block that is not inside the arena");
                    o.result = "ret=outside";
                    return;
                }
                if (p)
                {
                    Blk b{p, n, 0, hdr_of(p)};
                    if (hdr_of(p) < n)
                    {
                        o.fail("usable size " + su(hdr_of(p)) + " < request " + su(n));
                        b.n = hdr_of(p);
                    }
                    heap_fill(b);
                    HC->live[slot] = b;
                    ret = s(p - HC->start);
                }
                else
                {
                    ret = "null";
                    if (!HC->lim && !addr_wraps(brk_addr, n)) o.fail("realloc(NULL, n) returned NULL without a heap limit");
                    if (!HC->lim && !unrepresentable(n)) o.tag("address-wrap-refused");
                }
                if (unrepresentable(n)) o.tag("request-rounding-wraps");
            }
            else
            {
                Blk old = it->second;
                size_t old_hdr = hdr_of(old.p);
                // keep a copy of the old contents: the old block may be recycled
                std::vector<char> copy(old.p, old.p + old.n);
                HC->live.erase(it);
                // while realloc runs, the old block is still owned by the caller
                const char *brk_addr = BRK ? BRK : HC->start;
                SW.begin(old.p);
                char *p = (char *)A->realloc_(old.p, n);
                SW.end(o);
                if (p && !block_in_arena(p, n))
                {
                    o.fail("realloc(p, " + su(n) + ") returned a block that is not inside the arena");
                    o.result = "ret=outside";
                    return;
                }
                if (p)
                {
                    size_t keep = std::min(old.n, n);
                    std::string why;
                    if (!heap_intact(old, keep, p, why)) o.fail("realloc lost the common prefix at " + why);
                    // round 3b: the bytes themselves are compared with the model (the driver executes the model's
                    // stores - the memcpy of the move path - on the old block's bytes): d -> (31 d + byte) mod 2^32
                    uint32_t dg = 0;
                    for (size_t i = 0; i < keep; i++) dg = dg * 31u + (uint8_t)p[i];
                    pre = " pre=" + s((long long)dg);
                    Blk b{p, n, 0, hdr_of(p)};
                    if (hdr_of(p) < n)
                    {
                        o.fail("usable size " + su(hdr_of(p)) + " < request " + su(n));
                        b.n = hdr_of(p);
                    }
                    heap_fill(b);
                    HC->live[slot] = b;
                    ret = s(p - HC->start);
                    if (p != old.p) o.tag("realloc-move");
                    else if (BRK != brk_before && n > old.n) o.tag("realloc-extend-top");
                    else if (hdr_of(p) > old_hdr) o.tag("realloc-grow-into-neighbour");
                    else if (hdr_of(p) < old_hdr) o.tag("realloc-shrink-split");
                    else o.tag("realloc-same-chunk");
                }
                else
                {
                    ret = "null";
                    // NULL without a heap end: only when ptr + len or the moved chunk would cross the top of the address space
                    if (!HC->lim && !addr_wraps(old.p - 8, n) && !addr_wraps(brk_addr, n)) o.fail("realloc returned NULL without a heap limit");
                    if (unrepresentable(n)) o.tag("request-rounding-wraps");
                    else if (!HC->lim) o.tag("address-wrap-refused");
                    // the old block must still be there, untouched
                    std::string why;
                    if (!heap_intact(old, old.n, old.p, why)) o.fail("failed realloc damaged the old block at " + why);
                    HC->live[slot] = old;
                    o.tag("realloc-fail");
                }
                if (n == 0) o.tag("size0");
            }
        }
        else
        {
            o.result = "bad-op";
            return;
        }
        FreeList fl = walk_freelist(o);
        o.result = heap_line(ret, fl) + pre;
        heap_oracle(o, -1, fl);
        return;
}
} // namespace c10
