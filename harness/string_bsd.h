/* C08 only: compat/libc/include/string.h does `#include <string_bsd.h>`, which
 * needs compat/libc/include on the include path; bin/check passes only
 * -I$IGRIS_REPO and -I<verif>/harness, so this shim forwards to the repo's file. */
#include <compat/libc/include/string_bsd.h>
