// C06 harness: igris/util/printf_impl.c (__printf), compat/libc/stdio/sprintf.c
// (vsprintf/sprintf under renamed symbols) and compat/libc/stdio/fdprintf.c
// against the Lean model (IgrisModel/C06) and against host glibc vsnprintf.
//
// op lines (all stateless):
//   pf  <fmt-hex> <arg>*          __printf through a variadic shim
//   pfmin <fmt-hex> <arg>*        the same; only for the probes of the finding
//                                 C06-star-width-int-min (the driver does not evaluate them)
//   sp  <fmt-hex> <arg>*          igv_vsprintf into an exactly sized buffer
//   spv <fmt-hex> <arg>*          igv_sprintf (the variadic entry point)
//   fd  <limit> <fmt-hex> <arg>*  vfdprintf; write() under fdputc fails (-1)
//                                 once <limit> characters went out (limit<0: never)
//   iso <fmt-hex> <arg>*          host glibc vsnprintf (validates the Lean
//                                 spec `isoFormat`, which the driver prints)
//   fdv <limit> <fmt-hex> <arg>*  fdprintf (the variadic entry point), as `fd`
//   sn  <size> <fmt-hex> <arg>*   igv_snprintf (variadic) into an exactly sized
//                                 buffer of <size> bytes filled with a5
//   vsn <size> <fmt-hex> <arg>*   igv_vsnprintf through the shim, as `sn`
//                                 (sn/vsn result: "<ret> <hex of the whole buffer>")
// round 3:
//   pn  <fmt-hex> <arg>*          __printf, judged by the `int`-accurate model printfN: `%n` is allowed
//                                 (argument N:<slot>, an allocation of exactly sizeof(T) bytes), result
//                                 "<ret> <hex> n<slot>:<size>:<stored value>*"; a literal width/precision
//                                 beyond INT_MAX gives "intovf" (atoi overflows: undefined in C)
//   seq <sub-op> / <sub-op> ...   several calls one after the other in one op (entry-point twins on the
//                                 same format, interleaved entry points); results joined by " | "
//   premain <k> <sub-op>          the result of call k made from a constructor that ran BEFORE main()
//   consts                        PRINT_I_BUFF_SZ, PRINT_S_NULL_STR, type widths ... of the compiled code
// <arg>:  i:<dec int>  l:<dec int64>  p:<hex>  n: (NULL char*)
//         s:<hex bytes>  (NUL terminated)   u:<hex bytes> (NOT terminated,
//         exactly sized allocation: any read past the bytes is an ASan abort)
//         N:<slot> (pointer for %n)   w:<hex bytes> (wide string: each byte one wchar_t, terminated)
// result: "<ret> <hex of the characters handed to the callback>"
#include "common/hv.h"
#include <cstdarg>
#include <sys/wait.h>
#include <climits>
#include <memory>
#include <algorithm>
#include <igris/util/printf_impl.h>

static_assert(sizeof(long) == 8 && sizeof(void *) == 8 && sizeof(int) == 4, "LP64 assumed");
static_assert((char)0x80 < 0, "char signed assumed");

extern "C" int igv_vsprintf(char *s, const char *format, va_list ap);
extern "C" int igv_sprintf(char *buf, const char *format, ...);
extern "C" int vfdprintf(int fd, const char *format, va_list args);
extern "C" int fdprintf(int fd, const char *format, ...);
extern "C" int igv_snprintf(char *buf, size_t maxlen, const char *format, ...);
#ifndef C06_NO_VSNPRINTF
extern "C" int igv_vsnprintf(char *buf, size_t maxlen, const char *format, va_list ap);
#endif

extern "C" int c06c_print_i_buff_sz(void);
extern "C" const char *c06c_null_str(void);
extern "C" unsigned long c06c_null_str_size(void);
extern "C" unsigned c06c_ops(int i);
extern "C" unsigned long c06c_sizeof_ret(void);
extern "C" unsigned long c06c_n_size(int i);

using namespace hv;
typedef std::vector<uint8_t> bytes;

// ---------------------------------------------------------------- write() under fdputc
// compat/libc/stdio/fdputc.c is compiled with -Dwrite=igv_write: the real
// fdputc runs, its system call lands here.
static bytes g_fd_out;
static long g_fd_limit = -1;
extern "C" ssize_t igv_write(int fd, const void *buf, size_t n)
{
    (void)fd;
    if (g_fd_limit >= 0 && (long)g_fd_out.size() >= g_fd_limit)
        return -1;
    for (size_t i = 0; i < n; i++)
        g_fd_out.push_back(((const uint8_t *)buf)[i]);
    return (ssize_t)n;
}

// ---------------------------------------------------------------- arguments
struct Arg
{
    char kind; // i l p s u n
    long long v = 0;
    bytes s;
    exact_buf *buf = nullptr;
};

static bool parse_arg(const std::string &w, Arg &a)
{
    if (w.size() < 2 || w[1] != ':')
        return false;
    a.kind = w[0];
    std::string r = w.substr(2);
    switch (a.kind)
    {
    case 'i':
    case 'l':
        a.v = strtoll(r.c_str(), 0, 10);
        return true;
    case 'p':
        a.v = (long long)strtoull(r.c_str(), 0, 16);
        return true;
    case 'n':
        return true;
    case 's':
    case 'u':
    case 'w':
        a.s = unhex(r);
        return true;
    case 'N':
        a.v = strtoll(r.c_str(), 0, 10);
        return true;
    }
    return false;
}

// ---------------------------------------------------------------- the shim
struct Sink
{
    bytes out;
    long calls = 0;
};
static void sink_cb(void *d, int c)
{
    Sink *s = (Sink *)d;
    s->calls++;
    s->out.push_back((uint8_t)c);
}

enum Which
{
    W_PRINTF,
    W_VSPRINTF,
    W_FD,
    W_GLIBC,
    W_SPRINTF,
    W_SNPRINTF,
    W_FDPRINTF,
    W_VSNPRINTF
};
struct Call
{
    Which which;
    Sink *sink;
    char *buf;
    size_t bufsz;
};

static int shim(Call *c, const char *fmt, ...)
{
    va_list ap;
    va_start(ap, fmt);
    int r = 0;
    switch (c->which)
    {
    case W_PRINTF:
        r = __printf(sink_cb, c->sink, fmt, ap);
        break;
    case W_VSPRINTF:
        r = igv_vsprintf(c->buf, fmt, ap);
        break;
    case W_FD:
        r = vfdprintf(7, fmt, ap);
        break;
    case W_GLIBC:
        r = vsnprintf(c->buf, c->bufsz, fmt, ap);
        break;
    case W_VSNPRINTF:
#ifndef C06_NO_VSNPRINTF
        r = igv_vsnprintf(c->buf, c->bufsz, fmt, ap);
#endif
        break;
    default:
        break;
    }
    va_end(ap);
    return r;
}

// Build the variadic call with the right C types, argument by argument.
static const size_t MAXARGS = 6;
template <class... A> static int dispatch(Call *c, const char *fmt, const std::vector<Arg> &args, size_t i, A... a)
{
    if (i == args.size())
    {
        if (c->which == W_SPRINTF) // igv_sprintf: the variadic entry itself
            return igv_sprintf(c->buf, fmt, a...);
        if (c->which == W_SNPRINTF)
            return igv_snprintf(c->buf, c->bufsz, fmt, a...);
        if (c->which == W_FDPRINTF)
            return fdprintf(7, fmt, a...);
        return shim(c, fmt, a...);
    }
    if constexpr (sizeof...(A) < MAXARGS)
    {
        const Arg &x = args[i];
        switch (x.kind)
        {
        case 'i':
            return dispatch(c, fmt, args, i + 1, a..., (int)x.v);
        default:
            // every other argument (long, long long, intmax_t, size_t,
            // ptrdiff_t, char*, void*) is one 64-bit INTEGER-class slot on
            // LP64 SysV/AAPCS64; passing them all as `long long` keeps the
            // number of template instantiations (and the build time) small
            return dispatch(c, fmt, args, i + 1, a...,
                            x.kind == 'l' || x.kind == 'p' ? (long long)x.v : x.kind == 'n' ? 0LL : (long long)(uintptr_t)x.buf->p);
        }
    }
    return -777;
}

// ---------------------------------------------------------------- ISO classifier
// An independent, deliberately plain parser of the directive grammar: decides
// whether ISO C defines the behaviour (so that glibc is a valid oracle) and
// extracts what the %p oracle needs.
struct Dir
{
    bool minus = false, plus = false, space = false, hash = false, zero = false;
    int width_kind = 0; // 0 none 1 literal 2 star
    long width = 0;
    int prec_kind = 0;
    bool prec_written = false; // a '.' appears in the directive (even if `*` then gives a negative value)
    long prec = 0;
    std::string len;
    char conv = 0;
    int argi = -1; // index of the value argument
    size_t pos = 0; // index of the conversion character in the format
    size_t start = 0; // index of the directive's '%'
};
struct Parsed
{
    bool defined = true; // ISO defines the behaviour, arguments fit
    bool has_p = false, has_lit_wp = false;
    bool wide = false;        // %lc / %ls with a wide argument (ISO defines it, the Lean spec leaves it out)
    bool has_n = false;       // a %n directive
    bool lit_overflow = false; // a literal width/precision beyond INT_MAX: atoi overflows (undefined in C)
    bool lit_runnable = true;  // ... and what host atoi makes of it, (int)strtol, is small enough to run
    std::vector<Dir> dirs;
    std::string why;
    std::string need; // kinds of the arguments the format consumes, in order
};

static Parsed classify(const bytes &f, const std::vector<Arg> &args)
{
    Parsed P;
    size_t ai = 0;
    auto bad = [&](const char *w) { if (P.defined) { P.defined = false; P.why = w; } };
    auto next_int = [&](long &out) {
        P.need.push_back('i');
        if (ai >= args.size() || args[ai].kind != 'i') { bad("arg"); ai++; return; }
        out = (long)args[ai++].v;
    };
    for (size_t i = 0; i < f.size(); i++)
    {
        if (f[i] != '%')
            continue;
        Dir d;
        d.start = i;
        i++;
        for (; i < f.size(); i++)
        {
            if (f[i] == '-') d.minus = true;
            else if (f[i] == '+') d.plus = true;
            else if (f[i] == ' ') d.space = true;
            else if (f[i] == '#') d.hash = true;
            else if (f[i] == '0') d.zero = true;
            else break;
        }
        if (i < f.size() && f[i] == '*')
        {
            d.width_kind = 2;
            next_int(d.width);
            if (d.width == INT_MIN) bad("width INT_MIN");
            i++;
            // not ISO syntax, but igris skips digits here (it parses a precision
            // without '.'), so the conversion that follows still takes its argument
            while (i < f.size() && isdigit(f[i])) { bad("digits after *"); i++; }
        }
        else if (i < f.size() && isdigit(f[i]))
        {
            d.width_kind = 1;
            P.has_lit_wp = true;
            unsigned long long exact = 0; // saturating at LONG_MAX, like strtol
            while (i < f.size() && isdigit(f[i]))
            {
                if (d.width <= 100000) d.width = d.width * 10 + (f[i] - '0');
                if (d.width > 100000) bad("huge width");
                exact = exact > (unsigned long long)LONG_MAX / 10 - 1 ? (unsigned long long)LONG_MAX : exact * 10 + (unsigned)(f[i] - '0');
                i++;
            }
            if (exact > (unsigned long long)INT_MAX)
            {
                P.lit_overflow = true;
                int wrapped = (int)(long)exact;
                if (wrapped > 4096 || wrapped < -4096) P.lit_runnable = false;
            }
        }
        if (i < f.size() && f[i] == '.')
        {
            i++;
            d.prec_kind = 1;
            d.prec_written = true;
            if (i < f.size() && f[i] == '*')
            {
                d.prec_kind = 2;
                next_int(d.prec);
                i++;
            }
            else
            {
                if (i < f.size() && isdigit(f[i])) P.has_lit_wp = true;
                unsigned long long exact = 0;
                while (i < f.size() && isdigit(f[i]))
                {
                    if (d.prec <= 100000) d.prec = d.prec * 10 + (f[i] - '0');
                    if (d.prec > 100000) bad("huge precision");
                    exact = exact > (unsigned long long)LONG_MAX / 10 - 1 ? (unsigned long long)LONG_MAX : exact * 10 + (unsigned)(f[i] - '0');
                    i++;
                }
                if (exact > (unsigned long long)INT_MAX)
                {
                    P.lit_overflow = true;
                    int wrapped = (int)(long)exact;
                    if (wrapped > 4096 || wrapped < -4096) P.lit_runnable = false;
                }
            }
            if (d.prec < 0) d.prec_kind = 0; // negative precision: as if omitted
        }
        if (i < f.size() && f[i] == 'L')
        {
            d.len = "L";
            i++;
        }
        else if (i < f.size() && (f[i] == 'h' || f[i] == 'l'))
        {
            d.len = std::string(1, (char)f[i]);
            i++;
            if (i < f.size() && f[i] == (uint8_t)d.len[0]) { d.len += d.len; i++; }
        }
        else if (i < f.size() && (f[i] == 'j' || f[i] == 'z' || f[i] == 't'))
        {
            d.len = std::string(1, (char)f[i]);
            i++;
        }
        if (i >= f.size()) { bad("truncated directive"); P.dirs.push_back(d); break; }
        d.conv = (char)f[i];
        d.pos = i;
        bool plain = !d.minus && !d.plus && !d.space && !d.hash && !d.zero && !d.width_kind && !d.prec_written && d.len.empty();
        switch (d.conv)
        {
        case '%':
            if (!plain) bad("%% with options");
            break;
        case 'd': case 'i': case 'u':
            if (d.hash) bad("# with d/i/u");
            /* fallthrough */
        case 'o': case 'x': case 'X':
        {
            bool wide = d.len == "l" || d.len == "ll" || d.len == "j" || d.len == "z" || d.len == "t";
            if (d.len == "L") bad("L with integer conversion");
            d.argi = (int)ai;
            P.need.push_back(wide ? 'l' : 'i');
            if (ai >= args.size() || args[ai].kind != (wide ? 'l' : 'i')) bad("arg");
            ai++;
            break;
        }
        case 'c':
            if (d.len == "l" && ai < args.size() && args[ai].kind == 'i' && args[ai].v >= 1 && args[ai].v <= 127)
                P.wide = true; // %lc of an ASCII wint_t: defined (wcrtomb in the C locale gives the character)
            else if (!d.len.empty()) bad("option undefined for c");
            if (d.hash || d.zero || d.prec_kind) bad("option undefined for c");
            d.argi = (int)ai;
            P.need.push_back('i');
            if (ai >= args.size() || args[ai].kind != 'i') bad("arg");
            ai++;
            break;
        case 's':
            if (d.len == "l" && ai < args.size() && args[ai].kind == 'w')
            {
                // %ls of a wide string of ASCII characters: defined
                P.wide = true;
                if (d.hash || d.zero) bad("option undefined for s");
                d.argi = (int)ai;
                P.need.push_back('w');
                ai++;
                break;
            }
            if (d.hash || d.zero || !d.len.empty()) bad("option undefined for s");
            d.argi = (int)ai;
            P.need.push_back('s');
            if (ai >= args.size()) { bad("arg"); ai++; break; }
            if (args[ai].kind == 's') {}
            else if (args[ai].kind == 'u')
            {
                // an unterminated array needs a precision that stays inside it
                bool has_nul = false;
                for (auto b : args[ai].s) if (!b) has_nul = true;
                if (!has_nul && !(d.prec_kind && d.prec <= (long)args[ai].s.size())) bad("unterminated string");
            }
            else bad("arg");
            ai++;
            break;
        case 'p':
            P.has_p = true;
            if (d.hash || d.zero || d.plus || d.space || d.prec_kind || !d.len.empty()) bad("option undefined for p");
            d.argi = (int)ai;
            P.need.push_back('p');
            if (ai >= args.size() || args[ai].kind != 'p') bad("arg");
            ai++;
            break;
        case 'n':
            // ISO defines %n (without flags, width, precision); kept out of the glibc diff (glibc refuses %n in
            // a writable format under _FORTIFY_SOURCE), judged by its own oracle in `pn`
            P.has_n = true;
            d.argi = (int)ai;
            P.need.push_back('N');
            if (ai >= args.size() || args[ai].kind != 'N') bad("arg");
            ai++;
            bad("n conversion");
            break;
        default:
            bad("conversion outside the fragment");
        }
        P.dirs.push_back(d);
    }
    if (ai != args.size()) bad("surplus args");
    return P;
}

// ---------------------------------------------------------------- %p fields (round 3b)
// The property fixes for %p only "0x followed by hex digits that parse back to the pointer": the NUMBER of
// digits (leading zeros), hence the length of the field and the blanks a width adds, is left open.  The compared
// result therefore carries every %p field in ONE canonical form - `0x` + exactly 16 lower-case digits, the
// blanks recomputed for that length on the side where the real field has them - whatever digit count the code
// under test chose; all other conversions stay byte-exact.  The field is found behaviourally: the engine is run
// on the format cut off in front of the directive and behind its conversion character.
struct PField
{
    size_t a = 0, b = 0;     // the field is out[a, b)
    bool ok = false;         // [blanks]0x<k >= 1 hex digits whose value is the pointer>[blanks]
    bool left = false;       // blanks behind the text
    std::string core;        // "0x..." as the code printed it
    std::string why;
    int diri = -1;
};
static std::vector<PField> locate_p_fields(const bytes &f, const Parsed &P, const std::vector<Arg> &args, const bytes &out)
{
    std::vector<PField> v;
    for (size_t di = 0; di < P.dirs.size(); di++)
    {
        const Dir &d = P.dirs[di];
        if (d.conv != 'p' || d.argi < 0 || d.argi >= (int)args.size() || args[d.argi].kind != 'p')
            continue;
        PField pf;
        pf.diri = (int)di;
        bytes outs[2];
        size_t cuts[2] = {d.start, d.pos + 1};
        for (int q = 0; q < 2; q++)
        {
            bytes cut(f.begin(), f.begin() + (long)cuts[q]);
            cut.push_back(0);
            exact_buf cb(cut);
            Sink sk;
            Call c2{W_PRINTF, &sk, nullptr, 0};
            dispatch(&c2, (const char *)cb.p, args, 0);
            outs[q] = sk.out;
        }
        if (outs[0].size() > outs[1].size() || outs[1].size() > out.size() ||
            !std::equal(outs[1].begin(), outs[1].end(), out.begin()))
        {
            pf.why = "the output of the format cut behind the directive is not a prefix of the whole output";
            v.push_back(pf);
            continue;
        }
        pf.a = outs[0].size();
        pf.b = outs[1].size();
        std::string field(out.begin() + (long)pf.a, out.begin() + (long)pf.b);
        size_t x = 0, y = field.size();
        while (x < y && field[x] == ' ') x++;
        while (y > x && field[y - 1] == ' ') y--;
        pf.left = y < field.size();
        pf.core = field.substr(x, y - x);
        bool okp = pf.core.size() > 2 && pf.core[0] == '0' && pf.core[1] == 'x' && !(x > 0 && y < field.size());
        unsigned long long val = 0;
        for (size_t q = 2; okp && q < pf.core.size(); q++)
        {
            int hvv = hexval(pf.core[q]);
            if (hvv < 0 || (val >> 60)) okp = false; // not a hex digit / more than 64 significant bits
            else val = val * 16 + (unsigned)hvv;
        }
        okp = okp && val == (unsigned long long)args[d.argi].v;
        if (!okp) pf.why = "the %p field `" + field + "` is not [blanks]0x<hex digits that parse back to the pointer>[blanks]";
        pf.ok = okp;
        v.push_back(pf);
    }
    return v;
}
static std::string canon_p_field(const PField &pf, unsigned long long val)
{
    char tmp[40];
    snprintf(tmp, sizeof tmp, "0x%016llx", val);
    std::string core = tmp;
    size_t w = pf.b - pf.a;
    std::string blanks(w > core.size() ? w - core.size() : 0, ' ');
    return pf.left ? core + blanks : blanks + core;
}
// the output with every well-formed %p field in canonical form; `map` turns a count of characters of the real
// output (at a directive boundary) into the count of the canonical output
struct Canon
{
    bytes out;
    std::vector<PField> fields;
    std::vector<long> delta; // per field: canonical length - real length
    long map(long n) const
    {
        long m = n;
        for (size_t i = 0; i < fields.size(); i++)
            if (fields[i].ok && (long)fields[i].b <= n) m += delta[i];
        return m;
    }
};
static Canon canon_output(const bytes &f, const Parsed &P, const std::vector<Arg> &args, const bytes &out)
{
    Canon C;
    C.out = out;
    C.fields = locate_p_fields(f, P, args, out);
    C.delta.assign(C.fields.size(), 0);
    for (size_t i = C.fields.size(); i-- > 0;)
    {
        const PField &pf = C.fields[i];
        if (!pf.ok) continue;
        // overlapping fields cannot happen (cuts are increasing); keep the guard cheap
        if (i + 1 < C.fields.size() && C.fields[i + 1].ok && C.fields[i + 1].a < pf.b) { C.fields[i].ok = false; continue; }
        std::string cf = canon_p_field(pf, (unsigned long long)args[P.dirs[pf.diri].argi].v);
        C.delta[i] = (long)cf.size() - (long)(pf.b - pf.a);
        C.out.erase(C.out.begin() + (long)pf.a, C.out.begin() + (long)pf.b);
        C.out.insert(C.out.begin() + (long)pf.a, cf.begin(), cf.end());
    }
    return C;
}

// ---------------------------------------------------------------- run
static std::string former_finding_class(const Parsed &P, const std::vector<Arg> &args);
static std::string res(long ret, const bytes &out) { return std::to_string(ret) + " " + hex(out); }

// Every op is executed behind the same short history of calls through each entry point (state that leaked
// from an earlier call - a static buffer, a counter that is not re-initialised - then shows in a one-op replay too).
static void prime(out &o)
{
    exact_buf b(16);
    int r1 = igv_snprintf((char *)b.p, 16, "q%d", 7); // leaves 13 unused places
    bool ok = r1 == 2 && !memcmp(b.p, "q7", 3);
    int r2 = igv_sprintf((char *)b.p, "p%s", "rs");
    ok = ok && r2 == 3 && !memcmp(b.p, "prs", 4);
    g_fd_out.clear();
    g_fd_limit = -1;
    int r3 = fdprintf(7, "t%c", 'u');
    ok = ok && r3 == 2 && g_fd_out.size() == 2 && g_fd_out[0] == 't' && g_fd_out[1] == 'u';
    g_fd_out.clear();
    if (!ok) o.fail("the priming calls (snprintf q%d / sprintf p%s / fdprintf t%c) gave wrong results");
}

static void run_one(const std::vector<std::string> &w, out &o)
{
    if (w.empty())
    {
        o.result = "bad-op";
        return;
    }
    prime(o);
    const std::string &op = w[0];
    size_t k = 1;
    long limit = -1;
    bool is_sn = op == "sn" || op == "vsn";
    // sn/vsn with a declared size above 4096 ("the buffer is large enough": SIZE_MAX, INT_MAX + 1, ...):
    // the allocation is exactly output + terminator, the declared size is passed as it is
    unsigned long long declared = 0;
    bool sn_big = false;
    if ((op == "fd" || op == "fdv" || is_sn) && w.size() > 1)
    {
        if (is_sn && w[k].size() && w[k][0] != '-')
        {
            declared = strtoull(w[k].c_str(), 0, 10);
            sn_big = declared > 4096;
        }
        limit = sn_big ? 0 : strtol(w[k].c_str(), 0, 10); // fd: error limit; sn: buffer size
        k++;
    }
    if (!(op == "pf" || op == "pn" || op == "pfmin" || op == "sp" || op == "spv" || op == "fd" || op == "iso" || op == "fdv" || is_sn) || w.size() <= k || (is_sn && (limit < 0 || limit > 4096)))
    {
        o.result = "bad-op";
        return;
    }
    bytes f = unhex(w[k++]);
    std::vector<Arg> args;
    for (; k < w.size(); k++)
    {
        Arg a;
        if (!parse_arg(w[k], a) || args.size() >= MAXARGS)
        {
            o.result = "bad-op";
            return;
        }
        args.push_back(a);
    }
    // exactly sized allocations: format with its terminator, every string
    bytes fz = f;
    fz.push_back(0);
    exact_buf fb(fz);
    std::vector<std::unique_ptr<exact_buf>> keep;
    for (auto &a : args)
        if (a.kind == 's' || a.kind == 'u')
        {
            bytes m = a.s;
            if (a.kind == 's')
                m.push_back(0);
            keep.emplace_back(new exact_buf(m));
            a.buf = keep.back().get();
        }
        else if (a.kind == 'w')
        {
            // a wchar_t array: one element per byte given, and the terminator
            bytes m;
            for (auto b : a.s)
            {
                wchar_t wc = (wchar_t)b;
                m.insert(m.end(), (uint8_t *)&wc, (uint8_t *)&wc + sizeof wc);
            }
            wchar_t z = 0;
            m.insert(m.end(), (uint8_t *)&z, (uint8_t *)&z + sizeof z);
            keep.emplace_back(new exact_buf(m));
            a.buf = keep.back().get();
        }
    const char *fmt = (const char *)fb.p;
    Parsed P = classify(f, args);
    // %n: the pointer argument is an allocation of exactly sizeof(T) bytes (T by the length modifier):
    // a store of another width is an ASan abort or leaves a5 bytes behind
    auto n_size = [](const Dir &d) -> size_t {
        return d.len == "hh" ? 1 : d.len == "h" ? 2 : (d.len == "l" || d.len == "ll" || d.len == "j" || d.len == "z" || d.len == "t") ? 8 : 4;
    };
    for (auto &d : P.dirs)
        if (d.conv == 'n' && d.argi >= 0 && d.argi < (int)args.size() && args[d.argi].kind == 'N' && !args[d.argi].buf)
        {
            keep.emplace_back(new exact_buf(n_size(d)));
            args[d.argi].buf = keep.back().get();
        }
    for (auto &a : args)
        if (a.kind == 'N' && !a.buf) // not consumed by a %n: some valid pointer
        {
            keep.emplace_back(new exact_buf(8));
            a.buf = keep.back().get();
        }
    if (P.lit_overflow && op != "pfmin") // (pfmin: the literal probe of C06-star-width-int-min runs the call)
    {
        // atoi of the literal overflows `int`: undefined in C, the property fixes nothing.  Where host atoi's
        // answer ((int)strtol) is small the call is still made: it has to return and stay inside its buffers.
        o.tag("lit-overflow");
        if (op != "pn")
        {
            o.result = "bad-op";
            return;
        }
        if (P.lit_runnable)
        {
            Sink sk;
            Call c0{W_PRINTF, &sk, nullptr, 0};
            long r0 = dispatch(&c0, fmt, args, 0);
            if (r0 != sk.calls)
                o.fail("return value " + std::to_string(r0) + " != " + std::to_string(sk.calls) + " characters emitted");
            o.tag("lit-overflow-run");
        }
        o.result = "intovf";
        return;
    }
    // glibc gets terminated copies (ASan's vsnprintf interceptor insists on a
    // terminator even where the precision makes it unnecessary; where ISO
    // defines the result it does not depend on bytes behind the precision)
    std::vector<Arg> gargs = args;
    for (auto &a : gargs)
        if (a.kind == 'u')
        {
            bytes m = a.s;
            m.push_back(0);
            keep.emplace_back(new exact_buf(m));
            a.buf = keep.back().get();
        }

    // reference: host glibc
    bytes ref;
    long refret = 0;
    if (P.defined)
    {
        Call g{W_GLIBC, nullptr, nullptr, 0};
        refret = dispatch(&g, fmt, gargs, 0);
        if (refret >= 0)
        {
            exact_buf gb((size_t)refret + 1);
            g.buf = (char *)gb.p;
            g.bufsz = (size_t)refret + 1;
            dispatch(&g, fmt, gargs, 0);
            ref.assign(gb.p, gb.p + refret);
        }
    }
    if (op == "iso")
    {
        o.result = P.defined ? res(refret, ref) : "undef";
        if (!P.defined) o.tag("undef");
        return;
    }

    // tags (coverage)
    for (auto &d : P.dirs)
    {
        std::string t = std::string("conv:") + (isprint((unsigned char)d.conv) && d.conv != ',' ? std::string(1, d.conv) : "other");
        o.tag(t.c_str());
        if (d.minus) o.tag("flag-");
        if (d.plus) o.tag("flag+");
        if (d.space) o.tag("flagsp");
        if (d.hash) o.tag("flag#");
        if (d.zero) o.tag("flag0");
        if (d.width_kind == 1) o.tag("width-lit");
        if (d.width_kind == 2) o.tag(d.width < 0 ? "width*neg" : "width*");
        if (d.prec_kind == 1) o.tag("prec-lit");
        if (d.prec_kind == 2) o.tag("prec*");
        if (!d.len.empty()) o.tag(("len:" + d.len).c_str());
    }
    for (auto &a : args)
    {
        if (a.kind == 'u') o.tag("str-unterminated");
        if (a.kind == 'n') o.tag("str-null");
        if ((a.kind == 'i' && (a.v == INT_MIN || a.v == INT_MAX)) || (a.kind == 'l' && (a.v == LLONG_MIN || a.v == LLONG_MAX))) o.tag("type-extreme");
        if ((a.kind == 'i' || a.kind == 'l') && a.v < 0) o.tag("negative");
    }
    o.tag(P.defined ? "iso-defined" : "iso-undefined");
    if (P.wide) o.tag("wide");
    {
        std::string fc = former_finding_class(P, args);
        if (!fc.empty()) o.tag(fc == "C06-alt-zero" ? "alt-zero" : "c-nul");
    }

    // the engine itself (also used to size the buffers of the wrappers)
    Sink sink;
    Call c{W_PRINTF, &sink, nullptr, 0};
    long ret = dispatch(&c, fmt, args, 0);
    bytes out = sink.out;
    if (ret != sink.calls)
        o.fail("return value " + std::to_string(ret) + " != " + std::to_string(sink.calls) + " characters emitted");

    // round 3b: the compared result carries every %p field in canonical form (see locate_p_fields); `outc` is
    // `out` itself when the format has no %p or the code prints 0x + 16 lower-case digits.  For the wrapper ops the
    // real buffer is judged against the real engine output by the oracle; when that holds, the result shown is
    // what the same wrapper semantics give on the canonical output (identical to the real buffer when outc == out).
    Canon CN;
    CN.out = out;
    if (P.has_p && op != "pfmin") CN = canon_output(f, P, args, out);
    const bytes &outc = CN.out;
    long retc = ret + ((long)outc.size() - (long)out.size());
    for (auto &pf : CN.fields)
    {
        if (!pf.ok && P.defined) o.fail(pf.why);
        if (pf.ok && pf.core.size() != 18) o.tag("p-digits-not-16");
    }

    if (op == "pf" || op == "pfmin") // pfmin: pf, kept apart for the driver (probes of C06-star-width-int-min)
        o.result = res(retc, outc);
    else if (op == "pn")
    {
        o.result = res(retc, outc);
        for (auto &d : P.dirs)
            if (d.conv == 'n' && d.argi >= 0 && d.argi < (int)args.size() && args[d.argi].kind == 'N')
            {
                const Arg &a = args[d.argi];
                size_t sz = a.buf->n;
                unsigned long long val = 0;
                for (size_t q = 0; q < sz; q++) val |= (unsigned long long)a.buf->p[q] << (8 * q);
                size_t result_at = o.result.size();
                o.result += " n" + std::to_string(a.v) + ":" + std::to_string(sz) + ":" + std::to_string(val);
                // ISO: "the number of characters written to the output stream so far by this call" =
                // what the engine emits for the format cut off in front of this directive
                bytes cut(f.begin(), f.begin() + (long)d.start);
                cut.push_back(0);
                exact_buf cb(cut);
                // (the slots of earlier %n directives are written again with the same values)
                Sink sk;
                Call c2{W_PRINTF, &sk, nullptr, 0};
                dispatch(&c2, (const char *)cb.p, args, 0);
                unsigned long long expect = (unsigned long long)sk.calls;
                if (sz < 8) expect &= (1ull << (8 * sz)) - 1;
                if (val != expect)
                    o.fail("%n stored " + std::to_string(val) + ", " + std::to_string(sk.calls) + " characters were written so far");
                else if (CN.map(sk.calls) != sk.calls)
                {
                    // %p fields in front of this %n: the count in the canonical output
                    unsigned long long cv = (unsigned long long)CN.map(sk.calls);
                    if (sz < 8) cv &= (1ull << (8 * sz)) - 1;
                    o.result.resize(result_at);
                    o.result += " n" + std::to_string(a.v) + ":" + std::to_string(sz) + ":" + std::to_string(cv);
                }
                o.tag(("n:" + (d.len.empty() ? std::string("int") : d.len)).c_str());
                if (sk.calls > 255) o.tag("n-count>255");
            }
    }
    else if (op == "sp" || op == "spv")
    {
        exact_buf b(out.size() + 1);
        Call v{op == "sp" ? W_VSPRINTF : W_SPRINTF, nullptr, (char *)b.p, b.n};
        long r2 = dispatch(&v, fmt, args, 0);
        o.result = res(r2, b.vec());
        bytes expect = out;
        expect.push_back(0);
        if (r2 != ret || b.vec() != expect)
            o.fail("vsprintf/sprintf differs from __printf + terminator");
        else if (outc != out)
        {
            bytes ec = outc;
            ec.push_back(0);
            o.result = res(retc, ec);
        }
    }
    else if (is_sn && sn_big)
    {
        // the caller says "large enough" (size_t values up to SIZE_MAX): everything must be stored
        exact_buf b(out.size() + 1);
        memset(b.p, 0xA5, b.n);
        Call v{op == "sn" ? W_SNPRINTF : W_VSNPRINTF, nullptr, (char *)b.p, (size_t)declared};
        long r2 = dispatch(&v, fmt, args, 0);
        o.result = res(r2, b.vec());
        bytes expect = out;
        expect.push_back(0);
        if (r2 != ret)
            o.fail("snprintf returns " + std::to_string(r2) + ", the whole output has " + std::to_string(ret) + " characters");
        else if (b.vec() != expect)
            o.fail("snprintf with a size larger than the output did not store the whole output and a terminator");
        else if (outc != out)
        {
            bytes ec = outc;
            ec.push_back(0);
            o.result = res(retc, ec);
        }
        o.tag("sn-huge-size");
    }
    else if (is_sn)
    {
        // snprintf(buf, size, ...): the buffer is an allocation of exactly
        // `size` bytes (size 0: a pointer to the end of an allocation), so a
        // write behind it is an ASan abort.  ISO 7.21.6.5: at most size-1
        // characters and a terminator are written, the returned value is the
        // number of characters the whole output has.
        size_t size = (size_t)limit;
        exact_buf b(size ? size : 1);
        char *dst = size ? (char *)b.p : (char *)b.p + 1;
        Call v{op == "sn" ? W_SNPRINTF : W_VSNPRINTF, nullptr, dst, size};
        long r2 = dispatch(&v, fmt, args, 0);
        bytes got(size ? b.p : b.p + 1, b.p + (size ? size : 1));
        o.result = res(r2, got);
        bytes expect(size, 0xA5);
        if (size)
        {
            size_t n = std::min(size - 1, out.size());
            std::copy(out.begin(), out.begin() + (long)n, expect.begin());
            expect[n] = 0;
        }
        if (r2 != ret)
            o.fail("snprintf returns " + std::to_string(r2) + ", the whole output has " + std::to_string(ret) + " characters");
        else if (got != expect)
            o.fail("snprintf buffer is not the first size-1 characters of the output, a terminator, and untouched bytes behind");
        else if (outc != out)
        {
            bytes ec(size, 0xA5);
            if (size)
            {
                size_t n = std::min(size - 1, outc.size());
                std::copy(outc.begin(), outc.begin() + (long)n, ec.begin());
                ec[n] = 0;
            }
            o.result = res(retc, ec);
        }
        if (size && out.size() + 1 > size) o.tag("sn-truncated");
        if (size && out.size() + 1 == size) o.tag("sn-exact-fit");
        if (!size) o.tag("sn-size0");
        if (P.defined && !P.has_p && !o.result.empty())
        {
            // glibc with the same size
            exact_buf gb(size ? size : 1);
            Call g{W_GLIBC, nullptr, size ? (char *)gb.p : (char *)gb.p + 1, size};
            long gr = dispatch(&g, fmt, gargs, 0);
            bytes gg(size ? gb.p : gb.p + 1, gb.p + (size ? size : 1));
            // glibc leaves the bytes behind the terminator alone as well
            if (gr != r2 || gg != got)
                o.fail("ISO/glibc snprintf gives " + res(gr, gg));
        }
    }
    else // fd, fdv
    {
        g_fd_out.clear();
        g_fd_limit = limit;
        Call v{op == "fd" ? W_FD : W_FDPRINTF, nullptr, nullptr, 0};
        long r2 = dispatch(&v, fmt, args, 0);
        o.result = res(r2, g_fd_out);
        bool failed = limit >= 0 && (long)out.size() > limit;
        bytes expect(out.begin(), out.begin() + (failed ? limit : (long)out.size()));
        if (r2 != (failed ? -1 : ret) || g_fd_out != expect)
            o.fail("vfdprintf differs from __printf / first error code");
        else if (outc != out)
        {
            bool failedc = limit >= 0 && (long)outc.size() > limit;
            o.result = res(failedc ? -1 : retc, bytes(outc.begin(), outc.begin() + (failedc ? limit : (long)outc.size())));
        }
        if (failed) o.tag("fd-error");
    }

    // the property evaluated directly: ISO C output (glibc) where ISO defines it
    if (P.defined && !P.has_p)
    {
        if (out != ref || ret != refret)
            o.fail("ISO/glibc gives " + res(refret, ref));
    }
    else if (P.defined && P.has_p && P.dirs.size() == 1 && f.size() >= 2 && f.front() == '<' && f.back() == '>')
    {
        // %p: spaces + "0x" + hex digits that parse back to the pointer, padded to the width
        const Dir &d = P.dirs[0];
        bool left = d.minus || d.width < 0;
        size_t wd = (size_t)(d.width < 0 ? -d.width : d.width);
        bool okp = out.size() >= 2 && out.front() == '<' && out.back() == '>';
        std::string body(out.begin() + (okp ? 1 : 0), out.end() - (okp ? 1 : 0));
        size_t a = 0, b = body.size();
        if (left) while (b > a && body[b - 1] == ' ') b--;
        else while (a < b && body[a] == ' ') a++;
        std::string core = body.substr(a, b - a);
        okp = okp && core.size() > 2 && core[0] == '0' && core[1] == 'x';
        unsigned long long val = 0;
        for (size_t q = 2; okp && q < core.size(); q++)
        {
            int hvv = hexval(core[q]);
            if (hvv < 0 || core.size() - 2 > 16) okp = false;
            else val = val * 16 + (unsigned)hvv;
        }
        okp = okp && val == (unsigned long long)args.back().v;
        okp = okp && body.size() == std::max(wd, core.size());
        if (!okp)
            o.fail("%p output is not [pad]0x<hex digits parsing back to the pointer>[pad] of the given width");
        o.tag("p-oracle");
    }
    if (P.defined && P.has_p)
    {
        // any format with %p (several directives, literal text): ISO leaves the
        // rendering of a pointer to the implementation, the property demands "0x
        // followed by hex digits that parse back to the pointer" - ANY number
        // k >= 1 of digits (round 3b; the earlier rounds demanded igris' 16).
        // Expected text = glibc on the same format with every %p directive
        // turned into %s of the rendering the code chose (taken from its own
        // field after it was checked to be 0x + hex digits with the pointer's
        // value: locate_p_fields), flags and width kept: width and `-` padding
        // are computed by glibc on THAT length, and so is the return value.
        bytes f2 = fz;
        std::vector<Arg> a2 = gargs;
        bool all_ok = true;
        for (size_t di = 0; di < P.dirs.size(); di++)
        {
            const Dir &d = P.dirs[di];
            if (d.conv == 'p')
            {
                const PField *pf = nullptr;
                for (auto &x : CN.fields) if (x.diri == (int)di) pf = &x;
                if (!pf || !pf->ok) { all_ok = false; continue; } // (already reported above)
                f2[d.pos] = 's';
                const char *tmp = pf->core.c_str();
                Arg sa;
                sa.kind = 's';
                sa.s = bytes(tmp, tmp + strlen(tmp));
                bytes m = sa.s;
                m.push_back(0);
                keep.emplace_back(new exact_buf(m));
                sa.buf = keep.back().get();
                a2[d.argi] = sa;
            }
        }
        if (all_ok)
        {
        exact_buf fb2(f2);
        Call g{W_GLIBC, nullptr, nullptr, 0};
        long er = dispatch(&g, (const char *)fb2.p, a2, 0);
        bytes exp2;
        if (er >= 0)
        {
            exact_buf gb((size_t)er + 1);
            g.buf = (char *)gb.p;
            g.bufsz = (size_t)er + 1;
            dispatch(&g, (const char *)fb2.p, a2, 0);
            exp2.assign(gb.p, gb.p + er);
        }
        if (out != exp2 || ret != er)
            o.fail("with %p as the 0x + hex digits the code chose ISO/glibc gives " + res(er, exp2));
        o.tag("p-multi-oracle");
        }
    }
}

// ---------------------------------------------------------------- round 3: consts, seq, premain
static std::string consts_line(out &o)
{
    // Round 3b: PRINT_I_BUFF_SZ, PRINT_S_NULL_STR, the OPS_* masks and the number of digits of %p are INTERNAL
    // to printf_impl.c - the property fixes none of them.  They are read where they still exist under these
    // names (harness/C06_consts.c, every use #ifdef-guarded) and reported as TAGS; the compared result keeps what
    // the public signature and the platform fix: INT_MAX, sizeof of __printf's return type, sizeof of the types
    // ISO names for %n.
    int bsz = c06c_print_i_buff_sz();
    o.tag(bsz < 0 ? "PRINT_I_BUFF_SZ=unknown" : ("PRINT_I_BUFF_SZ=" + std::to_string(bsz)).c_str());
    if (bsz >= 0 && bsz != 23) o.tag("PRINT_I_BUFF_SZ-differs-from-model");
    if (bsz >= 0 && bsz < 23) o.fail("PRINT_I_BUFF_SZ below 23: 22 octal digits of 2^64-1 and the terminator do not fit");
    if (c06c_null_str())
    {
        std::string nul(c06c_null_str(), c06c_null_str() + c06c_null_str_size());
        o.tag(("PRINT_S_NULL_STR=" + hex(nul)).c_str());
        if (hex(nul) != "286e756c6c2900") o.tag("PRINT_S_NULL_STR-differs-from-model");
    }
    else
        o.tag("PRINT_S_NULL_STR=unknown");
    // the model treats `ops` as a record of independent booleans: sound only if every OPS_* is its own bit
    // (judged on the masks that are still macros of these names)
    bool single = true;
    unsigned seen = 0;
    int known = 0;
    for (int i = 0; i < 17; i++)
    {
        unsigned m = c06c_ops(i);
        if (m == 0) continue;
        known++;
        if ((m & (m - 1)) || (seen & m)) single = false;
        seen |= m;
    }
    if (!single) o.fail("the OPS_* masks are not distinct single bits");
    o.tag(("ops_masks_known=" + std::to_string(known)).c_str());
    o.tag(single ? "ops_single_bits=1" : "ops_single_bits=0");
    {
        // digits of a %p, behaviourally: <%p> of (void *)1
        Sink sk;
        Call c0{W_PRINTF, &sk, nullptr, 0};
        std::vector<Arg> pa(1);
        pa[0].kind = 'p';
        pa[0].v = 1;
        dispatch(&c0, "<%p>", pa, 0);
        long digs = (long)sk.out.size() - 4;
        o.tag(("ptr_digits=" + std::to_string(digs)).c_str());
    }
    std::string ns;
    for (int i = 0; i < 8; i++) ns += (i ? "," : "") + std::to_string(c06c_n_size(i));
    return "int_max=" + std::to_string(INT_MAX) + " sizeof_pc=" + std::to_string(c06c_sizeof_ret()) + " n_sizes=" + ns;
}

// calls made BEFORE main(): a constructor with the highest priority runs a few ops through the same code path
// as `run` and keeps the records (static-initialisation-order dependencies of the engine would show here)
static const char *const PREMAIN[] = {
    "sp 25647c2535737c252378 i:-42 s:6162 i:255",    // %d|%5s|%#x
    "sn 4 256c6c64 l:123456789",                       // %lld into 4 bytes
    "fd -1 25632563252520252d33647c i:65 i:0 i:7",     // %c%c%% %-3d|
    "spv 3c25703e p:1234",                             // <%p>
    "pn 61253034646225686e i:7 N:0",                   // a%04db%hn
};
static const int NPREMAIN = (int)(sizeof PREMAIN / sizeof PREMAIN[0]);
struct PremainRec
{
    char result[160], oracle[200];
};
static PremainRec g_premain[8];
struct PremainRunner
{
    PremainRunner()
    {
        // only in `run` mode (argv is not available to a constructor: /proc/self/cmdline)
        char cl[256] = {0};
        FILE *fp = fopen("/proc/self/cmdline", "r");
        size_t got = fp ? fread(cl, 1, sizeof cl - 1, fp) : 0;
        if (fp) fclose(fp);
        size_t a0 = strnlen(cl, got);
        if (a0 + 1 >= got || strcmp(cl + a0 + 1, "run") != 0)
            return;
        // the calls run in a forked child (still before main()): if one of them aborts, the parent lives on and
        // the `premain k` op reports it, instead of the whole harness dying in front of every op
        for (int k = 0; k < NPREMAIN; k++)
        {
            snprintf(g_premain[k].result, sizeof g_premain[k].result, "CRASH before main()");
            snprintf(g_premain[k].oracle, sizeof g_premain[k].oracle, "FAIL crash in a call made before main()");
        }
        int fd[2];
        if (pipe(fd) != 0) return;
        fflush(stdout);
        pid_t pid = fork();
        if (pid == 0)
        {
            close(fd[0]);
            for (int k = 0; k < NPREMAIN; k++)
            {
                out o;
                run_one(words(PREMAIN[k]), o);
                PremainRec rec;
                memset(&rec, 0, sizeof rec);
                snprintf(rec.result, sizeof rec.result, "%s", o.result.c_str());
                snprintf(rec.oracle, sizeof rec.oracle, "%s", o.oracle.c_str());
                if (write(fd[1], &rec, sizeof rec) != (ssize_t)sizeof rec) _exit(3);
            }
            _exit(0);
        }
        close(fd[1]);
        for (int k = 0; k < NPREMAIN && pid > 0; k++)
        {
            PremainRec rec;
            size_t have = 0;
            while (have < sizeof rec)
            {
                ssize_t n = read(fd[0], (char *)&rec + have, sizeof rec - have);
                if (n <= 0) break;
                have += (size_t)n;
            }
            if (have != sizeof rec) break;
            g_premain[k] = rec;
        }
        close(fd[0]);
        if (pid > 0) waitpid(pid, 0, 0);
    }
};
static PremainRunner g_premain_runner __attribute__((init_priority(101)));

static void run_op(const std::vector<std::string> &w, const std::string &, out &o)
{
    if (w.size() == 1 && w[0] == "consts")
    {
        o.result = consts_line(o);
        o.tag("consts");
        return;
    }
    if (!w.empty() && w[0] == "premain")
    {
        int k = w.size() > 1 ? atoi(w[1].c_str()) : -1;
        std::string rest;
        for (size_t i = 2; i < w.size(); i++) rest += (i > 2 ? " " : "") + w[i];
        if (k < 0 || k >= NPREMAIN || rest != PREMAIN[k])
        {
            o.result = "bad-op";
            return;
        }
        o.result = g_premain[k].result;
        o.oracle = g_premain[k].oracle;
        // and the same call now, after main() started, gives the same answer
        out again;
        run_one(words(PREMAIN[k]), again);
        if (again.result != o.result) o.fail("the call before main() gave " + o.result + ", now " + again.result);
        o.tag("premain");
        return;
    }
    if (!w.empty() && w[0] == "seq")
    {
        std::vector<std::vector<std::string>> subs(1);
        for (size_t i = 1; i < w.size(); i++)
            if (w[i] == "/") subs.emplace_back();
            else subs.back().push_back(w[i]);
        std::string prev_key;
        long prev_ret = 0;
        bool have_prev = false;
        for (size_t i = 0; i < subs.size(); i++)
        {
            out so;
            run_one(subs[i], so);
            o.result += (i ? " | " : "") + so.result;
            if (so.oracle != "ok") o.fail("call " + std::to_string(i + 1) + ": " + so.oracle.substr(5));
            if (!so.tags.empty()) o.tag(so.tags.c_str());
            // twins on the same format and arguments: the same value is returned by every entry point
            // (except vfdprintf/fdprintf after a write error: -1)
            const std::string &sop = subs[i].empty() ? so.result : subs[i][0];
            bool numbered = sop == "sn" || sop == "vsn" || sop == "fd" || sop == "fdv";
            std::string key;
            for (size_t q = numbered ? 2 : 1; q < subs[i].size(); q++) key += subs[i][q] + " ";
            long ret = strtol(so.result.c_str(), 0, 10);
            if (have_prev && key == prev_key && ret != prev_ret && ret != -1 && prev_ret != -1)
                o.fail("entry points disagree on the return value for the same format: " + std::to_string(prev_ret) + " / " + std::to_string(ret));
            if (ret != -1 || !have_prev || key != prev_key) { prev_key = key; prev_ret = ret; have_prev = true; }
        }
        o.tag("seq");
        return;
    }
    run_one(w, o);
}

// ---------------------------------------------------------------- gen
// ---- generator (included by C06.cpp) ------------------------------------
static std::string arg_str(const Arg &a)
{
    switch (a.kind)
    {
    case 'i':
    case 'l':
        return std::string(1, a.kind) + ":" + std::to_string(a.v);
    case 'p':
    {
        char b[40];
        snprintf(b, sizeof b, "p:%llx", (unsigned long long)a.v);
        return b;
    }
    case 'n':
        return "n:";
    case 'N':
        return "N:" + std::to_string(a.v);
    default:
        return std::string(1, a.kind) + ":" + hex(a.s);
    }
}
static bytes B(const std::string &s) { return bytes(s.begin(), s.end()); }
static Arg AI(long long v) { Arg a; a.kind = 'i'; a.v = (int)v; return a; }
static Arg AL(long long v) { Arg a; a.kind = 'l'; a.v = v; return a; }
static Arg AP(unsigned long long v) { Arg a; a.kind = 'p'; a.v = (long long)v; return a; }
static Arg AS(const bytes &s, bool term) { Arg a; a.kind = term ? 's' : 'u'; a.s = s; return a; }

static unsigned long long conv_u(const Dir &d, long long v)
{
    if (d.len == "hh") return (unsigned char)v;
    if (d.len == "h") return (unsigned short)v;
    if (d.len == "" || d.len == "L") return (unsigned int)v;
    return (unsigned long long)v;
}
// the input classes of the recorded findings (see known_findings.d/C06.jsonl).
// The two classes of the first round (`#` with a zero value, %c of NUL) were
// repaired (fix: 8be88bc, ff2efab): they are ordinary ops now and only tagged.
static std::string finding_key(const Parsed &P, const std::vector<Arg> &args)
{
    // C06-wide-ls (round 3): %ls reads its wchar_t array as a char string (the `l` is ignored, TODO in the
    // source): wrong as soon as ISO's output has two or more characters
    for (auto &d : P.dirs)
        if (d.conv == 's' && d.len == "l" && d.argi >= 0 && d.argi < (int)args.size() && args[d.argi].kind == 'w' &&
            args[d.argi].s.size() >= 2 && (!d.prec_kind || d.prec >= 2))
            return "C06-wide-ls";
    return "";
}
static std::string former_finding_class(const Parsed &P, const std::vector<Arg> &args)
{
    if (!P.defined)
        return "";
    std::string key;
    for (auto &d : P.dirs)
    {
        std::string k;
        if (d.hash && (d.conv == 'o' || d.conv == 'x' || d.conv == 'X'))
        {
            // `#` with a zero value: %#x prints 0x0 (any precision), %#o
            // prints 00 when the effective precision is 1
            unsigned long long u = conv_u(d, args[d.argi].v);
            long prec = d.prec_kind ? d.prec : 1;
            if (u == 0 && (d.conv != 'o' || prec == 1))
                k = "C06-alt-zero";
        }
        if (d.conv == 'c' && (char)args[d.argi].v == 0)
            k = "C06-c-nul";
        if (!k.empty())
            key = k;
    }
    return key;
}

static long g_emitted = 0;
static void emit(const char *op, const bytes &f, const std::vector<Arg> &args, bool with_iso = false)
{
    if (args.size() > MAXARGS)
        return;
    Parsed P = classify(f, args);
    std::string key = finding_key(P, args);
    if (key == "skip")
        return;
    std::string line = hex(f);
    for (auto &a : args)
        line += " " + arg_str(a);
    printf("%s%s %s\n", key.empty() ? "" : ("@F:" + key + " ").c_str(), op, line.c_str());
    g_emitted++;
    if (with_iso && P.defined && !P.wide)
        printf("iso %s\n", line.c_str());
}

static const std::vector<long long> IVALS = {0, 1, -1, 42, -42, INT_MAX, INT_MIN, 255, 256, -128, 127, 128, -129, 65535, 65536, -32768, 32767, 32768, 7, 8, 9, 10, 100, -100, 0x7f00, 0xff00, 1000000, -999999};
static const std::vector<long long> LVALS = {0, 1, -1, 42, -42, LLONG_MAX, LLONG_MIN, 2147483648LL, -2147483648LL, -2147483649LL, 4294967295LL, 4294967296LL, 9223372036854775807LL, -9223372036854775807LL, 255, 256, 65536, 1000000000000LL, -1000000000000LL, 8, 10, 16};
static const std::vector<unsigned long long> PVALS = {0, 1, 0x1234, 0x7ffe12345678ull, 0xffffffffffffffffull, 0x8000000000000000ull, 0x1000000000000000ull, 0x0fffffffffffffffull, 0xdeadbeef};

static long long rnd_int(rng &r)
{
    if (r.chance(60)) return r.pick(IVALS);
    int bits = (int)r.range(1, 32);
    long long v = (long long)(r.next() & ((1ull << bits) - 1));
    return (int)(r.chance(40) ? -v : v);
}
static long long rnd_long(rng &r)
{
    if (r.chance(60)) return r.pick(LVALS);
    int bits = (int)r.range(1, 64);
    unsigned long long v = r.next() & (bits == 64 ? ~0ull : ((1ull << bits) - 1));
    return (long long)(r.chance(40) ? (0 - v) : v);
}
static bytes rnd_text(rng &r, size_t n, bool allow_high)
{
    bytes s(n);
    for (auto &c : s)
    {
        c = (uint8_t)r.range(32, 126);
        if (allow_high && r.chance(15)) c = (uint8_t)r.range(128, 255);
        if (r.chance(5)) c = (uint8_t)r.range(1, 31);
        if (c == '%') c = '_';
    }
    return s;
}
// a string argument for a directive whose effective precision is `prec` (-1: none)
static Arg rnd_str(rng &r, long prec)
{
    int mode = (int)r.below(prec >= 0 ? 7 : 4);
    switch (mode)
    {
    case 0: return AS(B(""), true);
    case 1: return AS(rnd_text(r, (size_t)r.range(1, 4), true), true);
    case 2: return AS(rnd_text(r, (size_t)r.range(5, 24), true), true);
    case 3: // unterminated allocation with an inner NUL
    {
        bytes s = rnd_text(r, (size_t)r.range(1, 8), true);
        s[r.below(s.size())] = 0;
        return AS(s, false);
    }
    case 4: return AS(rnd_text(r, (size_t)prec, true), false);                     // exactly `prec` bytes, no terminator
    case 5: return AS(rnd_text(r, (size_t)prec + (size_t)r.range(1, 5), true), false); // longer, no terminator
    default: return AS(rnd_text(r, (size_t)prec + (size_t)r.range(0, 3), true), true);
    }
}

struct Spec
{
    std::string flags, width, prec, len;
    char conv;
    long wstar = 0, pstar = 0; // values for `*`
};
// append the directive text and its arguments
static void put_dir(rng &r, const Spec &s, bytes &f, std::vector<Arg> &args)
{
    f.push_back('%');
    for (char c : s.flags) f.push_back((uint8_t)c);
    for (char c : s.width) f.push_back((uint8_t)c);
    if (s.width == "*") args.push_back(AI(s.wstar));
    for (char c : s.prec) f.push_back((uint8_t)c);
    if (s.prec == ".*") args.push_back(AI(s.pstar));
    for (char c : s.len) f.push_back((uint8_t)c);
    f.push_back((uint8_t)s.conv);
    long prec = -1;
    if (s.prec == ".*") prec = s.pstar >= 0 ? s.pstar : -1;
    else if (!s.prec.empty()) prec = atol(s.prec.c_str() + 1);
    bool wide = s.len == "l" || s.len == "ll" || s.len == "j" || s.len == "z" || s.len == "t";
    switch (s.conv)
    {
    case 'd': case 'i': case 'u': case 'o': case 'x': case 'X':
        args.push_back(wide ? AL(rnd_long(r)) : AI(rnd_int(r)));
        break;
    case 'c':
    {
        static const std::vector<long long> cv = {65, 0, 255, 256 + 66, -1, 128, 32, 126, 256, -256, 48};
        args.push_back(AI(r.chance(50) ? r.pick(cv) : r.range(33, 126)));
        break;
    }
    case 's':
        if (r.chance(2)) { Arg a; a.kind = 'n'; args.push_back(a); }
        else args.push_back(rnd_str(r, prec));
        break;
    case 'p':
        args.push_back(AP(r.chance(70) ? r.pick(PVALS) : r.next() >> r.below(64)));
        break;
    default:
        break;
    }
}

static const char *CONVS = "diuoxXcsp%";
static const char *const LENS_[] = {"", "hh", "h", "l", "ll", "j", "z", "t"};
static const std::vector<std::string> LENS(LENS_, LENS_ + 8);
static const char *const WIDTHS_[] = {"", "1", "7", "12", "*"};
static const std::vector<std::string> WIDTHS(WIDTHS_, WIDTHS_ + 5);
static const char *const PRECS_[] = {"", ".", ".0", ".1", ".5", ".*"};
static const std::vector<std::string> PRECS(PRECS_, PRECS_ + 6);
struct Around { const char *first, *second; };
static const Around AROUND[] = {{"", ""}, {"<", ">"}, {"a=", "."}, {"%%", " z"}, {"\t", "\n"}};

static std::string flags_of(rng &r, unsigned mask)
{
    std::string fl;
    const char *FL = "-+ #0";
    for (int b = 0; b < 5; b++)
        if (mask & (1u << b)) fl.push_back(FL[b]);
    // random order, occasionally a repeated flag
    for (size_t i = fl.size(); i > 1; i--) std::swap(fl[i - 1], fl[r.below(i)]);
    if (!fl.empty() && r.chance(10)) fl.push_back(fl[r.below(fl.size())]);
    return fl;
}

// a format of 1-3 mostly ISO-defined directives with literal text (as part (4))
static void rnd_format(rng &r, bytes &f, std::vector<Arg> &args)
{
    int nd = (int)r.range(1, 3);
    for (int d = 0; d < nd; d++)
    {
        bytes lit = rnd_text(r, (size_t)r.below(4), true);
        f.insert(f.end(), lit.begin(), lit.end());
        Spec s;
        s.conv = CONVS[r.below(10)];
        bool strict = r.chance(85);
        unsigned mask = (unsigned)r.below(32);
        if (strict)
        {
            if (strchr("diucsp", s.conv)) mask &= ~8u;
            if (strchr("csp", s.conv)) mask &= ~16u;
            if (s.conv == 'p') mask &= 1u;
            if (s.conv == '%') mask = 0;
        }
        s.flags = flags_of(r, mask);
        if (!(strict && s.conv == '%'))
        {
            int wk = (int)r.below(4);
            s.width = wk == 0 ? "" : wk == 1 ? "*" : std::to_string(r.range(1, 14));
            s.wstar = r.range(-14, 14);
            if (!(strict && (s.conv == 'c' || s.conv == 'p')))
            {
                int pk = (int)r.below(5);
                s.prec = pk == 0 ? "" : pk == 1 ? ".*" : pk == 2 ? "." : "." + std::to_string(r.range(0, 12));
                s.pstar = r.range(-2, 12);
            }
            if (!(strict && strchr("csp", s.conv)) && r.chance(50))
                s.len = LENS[r.below(LENS.size())];
        }
        if (args.size() + 3 > MAXARGS) break;
        put_dir(r, s, f, args);
    }
    bytes lit = rnd_text(r, (size_t)r.below(4), true);
    f.insert(f.end(), lit.begin(), lit.end());
}
// `op <n> <fmt> <args>` for the ops that carry a number (fd, fdv, sn, vsn)
static void emit_n(const char *op, long n, const bytes &f, const std::vector<Arg> &args)
{
    if (args.size() > MAXARGS)
        return;
#ifdef C06_NO_VSNPRINTF
    if (!strcmp(op, "vsn"))
        return;
#endif
    Parsed P = classify(f, args);
    if (!finding_key(P, args).empty())
        return;
    std::string line = hex(f);
    for (auto &a : args) line += " " + arg_str(a);
    printf("%s %ld %s\n", op, n, line.c_str());
    g_emitted++;
}
// the same with the number given as text (declared sizes up to SIZE_MAX)
static void emit_s(const char *op, const char *n, const bytes &f, const std::vector<Arg> &args)
{
    if (args.size() > MAXARGS)
        return;
#ifdef C06_NO_VSNPRINTF
    if (!strcmp(op, "vsn"))
        return;
#endif
    Parsed P = classify(f, args);
    if (!finding_key(P, args).empty())
        return;
    std::string line = hex(f);
    for (auto &a : args) line += " " + arg_str(a);
    printf("%s %s %s\n", op, n, line.c_str());
    g_emitted++;
}
// length of the output, for choosing buffer sizes around it (glibc; only a
// hint for the generator, 12 when ISO does not define the format)
static long out_len_hint(const bytes &f, const std::vector<Arg> &args)
{
    Parsed P = classify(f, args);
    if (!P.defined) return 12;
    bytes fz = f;
    fz.push_back(0);
    std::vector<Arg> a = args;
    std::vector<std::unique_ptr<exact_buf>> keep;
    for (auto &x : a)
        if (x.kind == 's' || x.kind == 'u')
        {
            bytes m = x.s;
            m.push_back(0);
            keep.emplace_back(new exact_buf(m));
            x.buf = keep.back().get();
        }
    Call g{W_GLIBC, nullptr, nullptr, 0};
    long n = dispatch(&g, (const char *)fz.data(), a, 0);
    for (auto &d : P.dirs)
        if (d.conv == 'p') n += 18; // igris' %p is longer than glibc's
    return n < 0 ? 12 : n;
}

static void gen_wrappers(rng &r, bool th)
{
    // (6) the remaining entry points: snprintf / vsnprintf (size argument:
    //     0, 1, around the length of the output, larger), fdprintf (variadic)
    static const char *const fixed_[] = {"", "a", "abc", "%d", "%5d|", "%-5d|", "x=%x", "%s", "%.3s|%c", "%%", "%p", "%lld %s"};
    for (std::string d : fixed_)
    {
        bytes f = B(d);
        Parsed P = classify(f, {});
        std::vector<Arg> args;
        for (char kd : P.need)
            args.push_back(kd == 'i' ? AI(r.pick(IVALS)) : kd == 'l' ? AL(r.pick(LVALS)) : kd == 'p' ? AP(r.pick(PVALS)) : AS(B("hello"), true));
        long n = out_len_hint(f, args);
        for (long size = 0; size <= n + 3; size++)
        {
            emit_n("sn", size, f, args);
            emit_n("vsn", size, f, args);
        }
        for (long lim = -1; lim <= n + 1; lim++)
            emit_n("fdv", lim, f, args);
    }
    // declared sizes that mean "large enough": around INT_MAX, 2^32, SIZE_MAX / 2, SIZE_MAX
    static const char *const huge_[] = {"4097", "2147483647", "2147483648", "4294967295", "4294967296", "9223372036854775807",
                                        "9223372036854775808", "18446744073709551614", "18446744073709551615"};
    for (std::string d : fixed_)
    {
        bytes f = B(d);
        Parsed P = classify(f, {});
        std::vector<Arg> args;
        for (char kd : P.need)
            args.push_back(kd == 'i' ? AI(r.pick(IVALS)) : kd == 'l' ? AL(r.pick(LVALS)) : kd == 'p' ? AP(r.pick(PVALS)) : AS(B("hello"), true));
        for (const char *h : huge_)
        {
            emit_s("sn", h, f, args);
            emit_s("vsn", h, f, args);
        }
    }
    long n6 = th ? 12000 : 1500;
    for (long k = 0; k < n6; k++)
    {
        bytes f;
        std::vector<Arg> args;
        rnd_format(r, f, args);
        long n = out_len_hint(f, args);
        if (k % 16 == 5)
        {
            emit_s(k % 32 == 5 ? "sn" : "vsn", huge_[r.below(sizeof huge_ / sizeof *huge_)], f, args);
            continue;
        }
        long size;
        switch ((int)r.below(6))
        {
        case 0: size = r.range(0, 2); break;
        case 1: size = n + r.range(-2, 2); break;
        case 2: size = n + 1; break; // exact fit
        case 3: size = r.range(0, n + 1); break;
        case 4: size = n + r.range(2, 40); break;
        default: size = r.range(0, 48); break;
        }
        if (size < 0) size = 0;
        switch ((int)(k % 4))
        {
        case 0: case 1: emit_n("sn", size, f, args); break;
        case 2: emit_n("vsn", size, f, args); break;
        default: emit_n("fdv", r.range(-1, n + 1), f, args); break;
        }
    }
}

// ---- round 3 generators ---------------------------------------------------
static Arg AW(const bytes &s) { Arg a; a.kind = 'w'; a.s = s; return a; }
static Arg AN(int slot) { Arg a; a.kind = 'N'; a.v = slot; return a; }
static std::string sub_text(const char *op, const char *n, const bytes &f, const std::vector<Arg> &args)
{
    std::string line = op;
    if (n) line += std::string(" ") + n;
    line += " " + hex(f);
    for (auto &a : args) line += " " + arg_str(a);
    return line;
}
static void put_n(rng &r, bytes &f, std::vector<Arg> &args, int &slot, bool decorated)
{
    static const char *const nl[] = {"", "hh", "h", "l", "ll", "j", "z", "t", "", "hh"};
    f.push_back('%');
    if (decorated)
    {
        // flags, a width, a precision on %n: undefined in ISO, parsed and ignored by the code
        static const char *const deco[] = {"-", "0", "5", "#", ".3", "+ ", "12.4"};
        for (const char *c = deco[r.below(7)]; *c; c++) f.push_back((uint8_t)*c);
    }
    for (const char *c = nl[r.below(10)]; *c; c++) f.push_back((uint8_t)*c);
    f.push_back('n');
    args.push_back(AN(slot++));
}
// one strict (ISO-defined) directive as in rnd_format
static void put_rnd_dir(rng &r, bytes &f, std::vector<Arg> &args, long maxw)
{
    Spec s;
    s.conv = CONVS[r.below(10)];
    unsigned mask = (unsigned)r.below(32);
    if (strchr("diucsp", s.conv)) mask &= ~8u;
    if (strchr("csp", s.conv)) mask &= ~16u;
    if (s.conv == 'p') mask &= 1u;
    if (s.conv == '%') mask = 0;
    s.flags = flags_of(r, mask);
    if (s.conv != '%')
    {
        int wk = (int)r.below(4);
        s.width = wk == 0 ? "" : wk == 1 ? "*" : std::to_string(r.range(1, maxw));
        s.wstar = r.range(-maxw, maxw);
        if (!(s.conv == 'c' || s.conv == 'p'))
        {
            int pk = (int)r.below(5);
            s.prec = pk == 0 ? "" : pk == 1 ? ".*" : pk == 2 ? "." : "." + std::to_string(r.range(0, 12));
            s.pstar = r.range(-2, 12);
        }
        if (!strchr("csp", s.conv) && r.chance(50)) s.len = LENS[r.below(LENS.size())];
    }
    put_dir(r, s, f, args);
}

static void gen_round3(rng &r, bool th)
{
    printf("consts\n");
    for (int k = 0; k < NPREMAIN; k++) printf("premain %d %s\n", k, PREMAIN[k]);

    // (7) %n: every length modifier at the counts where the converted value changes
    {
        static const char *const nl[] = {"", "hh", "h", "l", "ll", "j", "z", "t"};
        static const long cnts[] = {0, 1, 2, 127, 128, 255, 256, 257, 300, 32767, 32768, 65535, 65536, 65537};
        for (const char *l : nl)
            for (long cnt : cnts)
            {
                std::string d = std::string("%*s%") + l + "n|";
                emit("pn", B(d), {AI(cnt), AS(B(""), true), AN(0)});
            }
        emit("pn", B("%n"), {AN(0)});
        emit("pn", B("%n%n%hhn"), {AN(0), AN(1), AN(2)});
        emit("pn", B("abc%ndef%lln%%%hn"), {AN(0), AN(1), AN(2)});
        emit("pn", B("%5n|%-n|%.3n|%*n|%0hhn"), {AN(0), AN(1), AN(2), AI(7), AN(3), AN(4)});
        emit("pn", B("%Ln"), {AN(0)});
        long n7 = th ? 20000 : 3000;
        for (long k = 0; k < n7; k++)
        {
            bytes f;
            std::vector<Arg> args;
            int slot = 0;
            int nseg = (int)r.range(1, 4);
            for (int q = 0; q < nseg; q++)
            {
                bytes lit = rnd_text(r, (size_t)r.below(5), true);
                f.insert(f.end(), lit.begin(), lit.end());
                if (args.size() + 3 <= MAXARGS && r.chance(70)) put_rnd_dir(r, f, args, r.chance(10) ? 300 : 14);
                if (args.size() + 1 <= MAXARGS && r.chance(60)) put_n(r, f, args, slot, r.chance(8));
            }
            emit("pn", f, args);
        }
        // the ordinary stream through the int-accurate model as well
        long n7b = th ? 8000 : 1500;
        for (long k = 0; k < n7b; k++)
        {
            bytes f;
            std::vector<Arg> args;
            rnd_format(r, f, args);
            emit("pn", f, args);
        }
    }
    // (8) literal widths / precisions of 10 and more digits: atoi overflows `int`
    {
        static const char *const big[] = {"%4294967301d", "%4294967296d|", "%99999999999999999999d", "%-4294967299s|",
                                          "%.4294967298d", "%.99999999999999999999d", "%.4294967297s", "%9999999999d",
                                          "%2147483653s", "%.2147483648d", "%.9223372036854775808x", "%18446744073709551616d",
                                          "%5.4294967300d|%d", "a%4294967297cb"};
        for (std::string d : big)
        {
            bytes f = B(d);
            Parsed P = classify(f, {});
            std::vector<Arg> args;
            for (char kd : P.need) args.push_back(kd == 'i' ? AI(r.pick(IVALS)) : AS(B("xyz"), true));
            emit("pn", f, args);
        }
        // the literal form of the recorded finding: atoi gives INT_MIN on this host, `width = -width` overflows
        printf("@F:C06-star-width-int-min pfmin %s i:7\n", hex(B("%2147483648d")).c_str());
    }
    // (9) `*` and literal widths / precisions at the 8- and 16-bit boundaries
    {
        static const long bw[] = {254, 255, 256, 257, 4095, 4096, 4097, 65534, 65535, 65536, 65537, -255, -256, -65536};
        for (long w : bw)
        {
            emit("pf", B("%*d|"), {AI(w), AI(r.pick(IVALS))}, true);
            emit("pf", B("%-*s|"), {AI(w), AS(B("ab"), true)}, true);
            emit("pf", B("<%*p>"), {AI(w), AP(r.pick(PVALS))}, false);
            if (w >= 0)
            {
                emit("pf", B("%.*d|"), {AI(w), AI(r.pick(IVALS))}, true);
                emit("pf", B("%#.*llo|"), {AI(w), AL(r.pick(LVALS))}, true);
                emit("pf", B("%" + std::to_string(w) + "u|"), {AI(r.pick(IVALS))}, true);
                emit("pf", B("%." + std::to_string(w) + "x|"), {AI(r.pick(IVALS))}, true);
                bytes longs((size_t)w + 3, 'q');
                emit("pf", B("%.*s|"), {AI(w), AS(longs, true)}, true);
                bytes exact((size_t)w, 'r');
                if (w) emit("pf", B("%.*s|"), {AI(w), AS(exact, false)}, true);
                if (w <= 4095)
                {
                    emit_n("sn", w, B("%*d"), {AI(w), AI(5)}); // the output is exactly one longer than the buffer holds
                    emit_n("vsn", w + 1, B("%*d"), {AI(w), AI(5)});
                }
            }
        }
    }
    // (10) long inputs (the routines are linear): 330 000 / 300 000 characters
    {
        bytes big(330000), unt(300000);
        for (size_t i = 0; i < big.size(); i++) big[i] = (uint8_t)('a' + i % 26);
        for (size_t i = 0; i < unt.size(); i++) unt[i] = (uint8_t)('A' + i % 26);
        emit("pf", B("%s"), {AS(big, true)}, true);
        emit("pf", B("[%.*s]"), {AI(300000), AS(unt, false)}, true);
        emit("pf", B("%-99999d|%099999d|%.99999x"), {AI(-5), AI(-5), AI(255)}, true);
        emit("sp", B("<%s>"), {AS(big, true)});
        emit_n("sn", 0, B("%s"), {AS(big, true)});
        emit_n("sn", 1, B("%s"), {AS(big, true)});
        emit_n("vsn", 4096, B("%s"), {AS(big, true)});
        // (exactly fitting with a long output: the model's snprintf writes through List.set, quadratic - 4 000 characters)
        emit_n("sn", 4001, B("%.4000s"), {AS(big, true)});
        emit_n("vsn", 4000, B("%.4000s"), {AS(big, true)});
        // round 3b: the driver runs the closed form `vsnprintfFast` (theorem vsnprintf_fast_eq): the long output
        // exactly fitting its buffer (declared size = allocation = 330 001 bytes)
        emit_s("sn", "330001", B("%s"), {AS(big, true)});
        emit_s("vsn", "330003", B("<%s>"), {AS(big, true)});
        emit_n("fd", 299999, B("%s"), {AS(big, true)});
        emit_n("fdv", -1, B("%s"), {AS(big, true)});
    }
    // (11) every entry point on the same format and arguments, in one process state, one after the other;
    //      sizes 0, 1, exactly fitting, one short, SIZE_MAX; and random interleavings of different calls
    {
        static const char *const fixed_[] = {"", "a", "%d", "%5d|", "x=%x", "%s", "%.3s|%c", "%%", "%p", "%lld %s", "%-8.3o|%+i"};
        std::vector<std::pair<bytes, std::vector<Arg>>> pool;
        for (std::string d : fixed_)
        {
            bytes f = B(d);
            Parsed P = classify(f, {});
            std::vector<Arg> args;
            for (char kd : P.need)
                args.push_back(kd == 'i' ? AI(r.pick(IVALS)) : kd == 'l' ? AL(r.pick(LVALS)) : kd == 'p' ? AP(r.pick(PVALS)) : AS(B("hello"), true));
            pool.push_back({f, args});
        }
        long n11 = th ? 3000 : 300;
        for (long k = 0; k < n11; k++)
        {
            bytes f;
            std::vector<Arg> args;
            rnd_format(r, f, args);
            pool.push_back({f, args});
        }
        for (auto &fa : pool)
        {
            const bytes &f = fa.first;
            const std::vector<Arg> &args = fa.second;
            long n = out_len_hint(f, args);
            std::vector<std::string> sizes = {"0", "1", std::to_string(n), std::to_string(n + 1), std::to_string(n + 2), "18446744073709551615"};
            for (auto &sz : sizes)
            {
                if (strtoull(sz.c_str(), 0, 10) > 4096 && sz.size() < 10) continue;
                std::string lim = std::to_string(r.range(-1, n + 1));
                printf("seq %s / %s / %s / %s / %s / %s / %s\n", sub_text("sp", nullptr, f, args).c_str(),
                       sub_text("spv", nullptr, f, args).c_str(), sub_text("sn", sz.c_str(), f, args).c_str(),
                       sub_text("vsn", sz.c_str(), f, args).c_str(), sub_text("fd", "-1", f, args).c_str(),
                       sub_text("fdv", lim.c_str(), f, args).c_str(), sub_text("pf", nullptr, f, args).c_str());
                g_emitted++;
                if (&fa - &pool[0] >= 11 && &sz - &sizes[0] >= 1) break; // random formats: two sizes each
            }
        }
        long n11b = th ? 3000 : 400;
        static const char *const ops_[] = {"sp", "spv", "sn", "vsn", "fd", "fdv", "pf", "pn"};
        for (long k = 0; k < n11b; k++)
        {
            int nc = (int)r.range(2, 6);
            std::string line = "seq";
            for (int q = 0; q < nc; q++)
            {
                const auto &fa = r.chance(30) ? pool[r.below(11)] : pool[r.below(pool.size())];
                const char *op = ops_[r.below(8)];
                long n = out_len_hint(fa.first, fa.second);
                std::string num;
                if (!strcmp(op, "sn") || !strcmp(op, "vsn")) num = std::to_string(r.chance(50) ? r.range(0, 3) : std::max(0L, n + r.range(-2, 2)));
                if (!strcmp(op, "fd") || !strcmp(op, "fdv")) num = std::to_string(r.range(-1, n + 1));
                line += (q ? " / " : " ") + sub_text(op, num.empty() ? nullptr : num.c_str(), fa.first, fa.second);
            }
            printf("%s\n", line.c_str());
            g_emitted++;
        }
    }
    // (12) %lc / %ls: the code ignores the `l`
    {
        for (int v : {1, 65, 97, 126, 127}) emit("pf", B("[%lc]"), {AI(v)}, true);
        emit("pf", B("[%-4lc|%4lc]"), {AI(66), AI(67)}, true);
        emit("pf", B("%ls"), {AW(B(""))}, true);
        emit("pf", B("%ls|"), {AW(B("a"))}, true);
        emit("pf", B("%.1ls|"), {AW(B("ab"))}, true);
        emit("pf", B("%5ls|%-5ls|"), {AW(B("a")), AW(B("b"))}, true);
        emit("pf", B("%.0ls|"), {AW(B("abc"))}, true);
        // finding C06-wide-ls (emit() marks them as probes)
        emit("pf", B("%ls"), {AW(B("ab"))}, true);
        emit("pf", B("<%.2ls>"), {AW(B("abc"))}, true);
        emit("pf", B("<%6ls>"), {AW(B("hello"))}, true);
    }
}

static void gen(rng &r, const std::string &tier)
{
    bool th = tier == "thorough";
    // (1) the directive grammar, enumerated
    int per = th ? 4 : 1;
    long combo = 0;
    for (unsigned mask = 0; mask < 32; mask++)
        for (auto &wd : WIDTHS)
            for (auto &pr : PRECS)
                for (auto &ln : LENS)
                    for (const char *cv = CONVS; *cv; cv++)
                        for (int rep = 0; rep < per; rep++)
                        {
                            combo++;
                            Spec s;
                            s.flags = flags_of(r, mask);
                            s.width = wd; s.prec = pr; s.len = ln; s.conv = *cv;
                            s.wstar = r.range(-3, 12);
                            s.pstar = r.chance(20) ? -1 : r.range(0, 9);
                            const Around &ar = (*cv == 'p') ? AROUND[1] : AROUND[r.below(5)];
                            bytes f = B(ar.first);
                            std::vector<Arg> args;
                            put_dir(r, s, f, args);
                            for (const char *c = ar.second; *c; c++) f.push_back((uint8_t)*c);
                            emit("pf", f, args, true);
                        }
    // (2) every integer boundary value through the plain and the most
    //     interacting directives
    {
        static const char *const ds_[] = {"%d", "%i", "%u", "%o", "%x", "%X", "%+d", "% d", "%05d", "%-5d|", "%.5d", "%+.5d", "%08.3d", "%#o", "%#x", "%#X", "%.0d", "%.0u", "%.0x", "%+.0d", "%#.0o", "%#.0x", "%*d", "%-*d|", "%.*d", "%5.3u", "%#7.4x", "%#-7o|", "%hhd", "%hhu", "%hd", "%hu", "%hhx", "%hx", "% 05d", "%+ d", "%-05d|", "%3d", "%10.7d", "%#10.7x", "%#.7o", "%#3o"};
        static const char *const dl_[] = {"%ld", "%lld", "%jd", "%zd", "%td", "%lu", "%llu", "%ju", "%zu", "%tu", "%lo", "%llx", "%jX", "%+ld", "%.20lld", "%025lld", "%-25lld|", "%#llo", "%#llx", "%#.25llo", "%*lld", "%.*llu", "%30.25lld", "%#30.25llx", "% lld", "%.0ld", "%#.0lo"};
        for (std::string d : ds_)
            for (long long v : IVALS)
            {
                std::vector<Arg> a;
                if (d.find('*') != std::string::npos) a.push_back(AI(r.range(-3, 12)));
                a.push_back(AI(v));
                emit("pf", B(d), a, true);
            }
        for (std::string d : dl_)
            for (long long v : LVALS)
            {
                std::vector<Arg> a;
                if (d.find('*') != std::string::npos) a.push_back(AI(r.range(-3, 30)));
                a.push_back(AL(v));
                emit("pf", B(d), a, true);
            }
        // all 8-bit values through %c, %hhd, %hhu; all `*` widths/precisions in a band
        for (int v = -130; v < 260; v++)
        {
            emit("pf", B("[%c]"), {AI(v)}, true);
            emit("pf", B("%hhd %hhu"), {AI(v), AI(v)}, true);
        }
        for (int w = -20; w <= 20; w++)
            for (int p = -2; p <= 12; p++)
            {
                emit("pf", B("%*.*d|"), {AI(w), AI(p), AI(r.pick(IVALS))}, true);
                emit("pf", B("%0*.*x|"), {AI(w), AI(p), AI(r.pick(IVALS))}, true);
                emit("pf", B("%*.*s|"), {AI(w), AI(p), rnd_str(r, p >= 0 ? p : -1)}, true);
                emit("pf", B("<%*p>"), {AI(w), AP(r.pick(PVALS))}, false);
            }
    }
    // (3) strings: empty / short / exactly sized unterminated with a precision
    {
        for (int n = 0; n <= 12; n++)
            for (int p = 0; p <= 13; p++)
            {
                bytes s = rnd_text(r, (size_t)n, true);
                std::string pd = "%." + std::to_string(p) + "s";
                emit("pf", B(pd), {AS(s, true)}, true);
                if (p <= n) emit("pf", B(pd), {AS(s, false)}, true);
                emit("pf", B("%-15.*s|"), {AI(p), AS(s, true)}, true);
                emit("pf", B("%15.*s|"), {AI(p), p <= n ? AS(s, false) : AS(s, true)}, true);
            }
        emit("pf", B("%s"), {AS(B(""), true)}, true);
        emit("pf", B("%s%s%s"), {AS(B("a"), true), AS(B(""), true), AS(B("bc"), true)}, true);
        { Arg a; a.kind = 'n'; emit("pf", B("%s|%.3s|%10s"), {a, a, a}, false); }
    }
    // (4) several directives in one format, with literal text
    long n4 = th ? 40000 : 6000;
    for (long k = 0; k < n4; k++)
    {
        bytes f;
        std::vector<Arg> args;
        int nd = (int)r.range(1, 3);
        for (int d = 0; d < nd; d++)
        {
            bytes lit = rnd_text(r, (size_t)r.below(4), true);
            f.insert(f.end(), lit.begin(), lit.end());
            Spec s;
            s.conv = CONVS[r.below(10)];
            bool strict = r.chance(75); // mostly ISO-defined combinations
            unsigned mask = (unsigned)r.below(32);
            if (strict)
            {
                if (strchr("diucsp", s.conv)) mask &= ~8u;       // '#'
                if (strchr("csp", s.conv)) mask &= ~16u;         // '0'
                if (s.conv == 'p') mask &= 1u;
                if (s.conv == '%') mask = 0;
            }
            s.flags = flags_of(r, mask);
            if (!(strict && s.conv == '%'))
            {
                int wk = (int)r.below(4);
                s.width = wk == 0 ? "" : wk == 1 ? "*" : std::to_string(r.range(1, 25));
                s.wstar = r.range(-25, 25);
                if (!(strict && (s.conv == 'c' || s.conv == 'p')))
                {
                    int pk = (int)r.below(5);
                    s.prec = pk == 0 ? "" : pk == 1 ? ".*" : pk == 2 ? "." : "." + std::to_string(r.range(0, 25));
                    s.pstar = r.range(-2, 25);
                }
                if (!(strict && strchr("csp", s.conv)) && r.chance(50))
                    s.len = LENS[r.below(LENS.size())];
            }
            if (args.size() + 3 > MAXARGS) break;
            put_dir(r, s, f, args);
        }
        bytes lit = rnd_text(r, (size_t)r.below(4), true);
        f.insert(f.end(), lit.begin(), lit.end());
        const char *op = k % 11 == 0 ? "sp" : k % 11 == 1 ? "spv" : "pf";
        if (k % 11 == 2)
        {
            // vfdprintf with an output error after `limit` characters
            Parsed P = classify(f, args);
            if (finding_key(P, args).empty())
            {
                std::string line = hex(f);
                for (auto &a : args) line += " " + arg_str(a);
                printf("fd %ld %s\n", (long)r.range(-1, 12), line.c_str());
            }
            continue;
        }
        emit(op, f, args, op[0] == 'p' && op[1] == 'f');
    }
    // (5) token soup: malformed and unusual directives (model vs code only;
    //     glibc is consulted only where ISO defines the behaviour)
    {
        static const char *const tok[] = {"%", "%", "%", "-", "+", " ", "#", "0", "1", "2", "9", "10", "*", ".", ".", "h", "hh", "l", "ll", "j", "z", "t", "L", "d", "i", "u", "o", "x", "X", "c", "s", "p", "%%", "q", "y", "\t", "k", "Z", "\x80", "\xff", "5"};
        long n5 = th ? 30000 : 5000;
        for (long k = 0; k < n5; k++)
        {
            bytes f;
            int nt = (int)r.range(1, 9);
            for (int t = 0; t < nt; t++)
                for (const char *c = tok[r.below(sizeof tok / sizeof tok[0])]; *c; c++) f.push_back((uint8_t)*c);
            Parsed P = classify(f, {});
            if (P.need.size() > MAXARGS) continue;
            // widths/precisions through `*` need their values before the string
            // arguments can be sized: two passes
            std::vector<Arg> args;
            for (char kd : P.need)
                args.push_back(kd == 'i' ? AI(r.chance(50) ? r.range(-4, 14) : rnd_int(r)) : kd == 'l' ? AL(rnd_long(r)) : kd == 'p' ? AP(r.pick(PVALS)) : AS(rnd_text(r, (size_t)r.below(6), true), true));
            // star arguments must stay small (they are widths)
            Parsed Q = classify(f, args);
            bool ok = true;
            for (auto &d : Q.dirs)
                if (labs(d.width) > 64 || labs(d.prec) > 64) ok = false;
            // a `*` value is any 'i' argument that is not a conversion's value:
            // simply clamp every int that a star consumed
            if (!ok)
            {
                for (auto &a : args)
                    if (a.kind == 'i' && (a.v > 64 || a.v < -64)) a.v = a.v % 13;
            }
            emit("pf", f, args, true);
        }
    }
    gen_wrappers(r, th);
    gen_round3(r, th);
    // probes of the recorded finding C06-star-width-int-min: `width = -width`
    // on INT_MIN is a signed overflow (UBSan aborts); excluded from the stream
    // everywhere else (classify: "width INT_MIN", generators keep `*` small)
    printf("@F:C06-star-width-int-min pfmin 252a64 i:-2147483648 i:1\n");
    printf("@F:C06-star-width-int-min pfmin 3c252d2a733e i:-2147483648 s:6162\n");
}

int main(int argc, char **argv) { return main_(argc, argv, gen, run_op); }
