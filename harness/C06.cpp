// C06 harness: igris/util/printf_impl.c (__printf), compat/libc/stdio/sprintf.c
// (vsprintf/sprintf under renamed symbols) and compat/libc/stdio/fdprintf.c
// against the Lean model (IgrisModel/C06) and against host glibc vsnprintf.
//
// op lines (all stateless):
//   pf  <fmt-hex> <arg>*          __printf through a variadic shim
//   sp  <fmt-hex> <arg>*          igv_vsprintf into an exactly sized buffer
//   spv <fmt-hex> <arg>*          igv_sprintf (the variadic entry point)
//   fd  <limit> <fmt-hex> <arg>*  vfdprintf; write() under fdputc fails (-1)
//                                 once <limit> characters went out (limit<0: never)
//   iso <fmt-hex> <arg>*          host glibc vsnprintf (validates the Lean
//                                 spec `isoFormat`, which the driver prints)
// <arg>:  i:<dec int>  l:<dec int64>  p:<hex>  n: (NULL char*)
//         s:<hex bytes>  (NUL terminated)   u:<hex bytes> (NOT terminated,
//         exactly sized allocation: any read past the bytes is an ASan abort)
// result: "<ret> <hex of the characters handed to the callback>"
#include "common/hv.h"
#include <cstdarg>
#include <climits>
#include <memory>
#include <algorithm>
#include <igris/util/printf_impl.h>

static_assert(sizeof(long) == 8 && sizeof(void *) == 8 && sizeof(int) == 4, "LP64 assumed");
static_assert((char)0x80 < 0, "char signed assumed");

extern "C" int igv_vsprintf(char *s, const char *format, va_list ap);
extern "C" int igv_sprintf(char *buf, const char *format, ...);
extern "C" int vfdprintf(int fd, const char *format, va_list args);

using namespace hv;
typedef std::vector<uint8_t> bytes;

// ---------------------------------------------------------------- write() under fdputc
// compat/libc/stdio/fdputc.c is compiled with -Dwrite=igv_write: the real
// fdputc runs, its system call lands here.
static bytes g_fd_out;
static long g_fd_limit = -1;
extern "C" ssize_t igv_write(int fd, const void *buf, size_t n)
{
    (void)fd;
    if (g_fd_limit >= 0 && (long)g_fd_out.size() >= g_fd_limit)
        return -1;
    for (size_t i = 0; i < n; i++)
        g_fd_out.push_back(((const uint8_t *)buf)[i]);
    return (ssize_t)n;
}

// ---------------------------------------------------------------- arguments
struct Arg
{
    char kind; // i l p s u n
    long long v = 0;
    bytes s;
    exact_buf *buf = nullptr;
};

static bool parse_arg(const std::string &w, Arg &a)
{
    if (w.size() < 2 || w[1] != ':')
        return false;
    a.kind = w[0];
    std::string r = w.substr(2);
    switch (a.kind)
    {
    case 'i':
    case 'l':
        a.v = strtoll(r.c_str(), 0, 10);
        return true;
    case 'p':
        a.v = (long long)strtoull(r.c_str(), 0, 16);
        return true;
    case 'n':
        return true;
    case 's':
    case 'u':
        a.s = unhex(r);
        return true;
    }
    return false;
}

// ---------------------------------------------------------------- the shim
struct Sink
{
    bytes out;
    long calls = 0;
};
static void sink_cb(void *d, int c)
{
    Sink *s = (Sink *)d;
    s->calls++;
    s->out.push_back((uint8_t)c);
}

enum Which
{
    W_PRINTF,
    W_VSPRINTF,
    W_FD,
    W_GLIBC,
    W_SPRINTF
};
struct Call
{
    Which which;
    Sink *sink;
    char *buf;
    size_t bufsz;
};

static int shim(Call *c, const char *fmt, ...)
{
    va_list ap;
    va_start(ap, fmt);
    int r = 0;
    switch (c->which)
    {
    case W_PRINTF:
        r = __printf(sink_cb, c->sink, fmt, ap);
        break;
    case W_VSPRINTF:
        r = igv_vsprintf(c->buf, fmt, ap);
        break;
    case W_FD:
        r = vfdprintf(7, fmt, ap);
        break;
    case W_GLIBC:
        r = vsnprintf(c->buf, c->bufsz, fmt, ap);
        break;
    }
    va_end(ap);
    return r;
}

// Build the variadic call with the right C types, argument by argument.
static const size_t MAXARGS = 6;
template <class... A> static int dispatch(Call *c, const char *fmt, const std::vector<Arg> &args, size_t i, A... a)
{
    if (i == args.size())
    {
        if (c->which == W_SPRINTF) // igv_sprintf: the variadic entry itself
            return igv_sprintf(c->buf, fmt, a...);
        return shim(c, fmt, a...);
    }
    if constexpr (sizeof...(A) < MAXARGS)
    {
        const Arg &x = args[i];
        switch (x.kind)
        {
        case 'i':
            return dispatch(c, fmt, args, i + 1, a..., (int)x.v);
        default:
            // every other argument (long, long long, intmax_t, size_t,
            // ptrdiff_t, char*, void*) is one 64-bit INTEGER-class slot on
            // LP64 SysV/AAPCS64; passing them all as `long long` keeps the
            // number of template instantiations (and the build time) small
            return dispatch(c, fmt, args, i + 1, a...,
                            x.kind == 'l' || x.kind == 'p' ? (long long)x.v : x.kind == 'n' ? 0LL : (long long)(uintptr_t)x.buf->p);
        }
    }
    return -777;
}

// ---------------------------------------------------------------- ISO classifier
// An independent, deliberately plain parser of the directive grammar: decides
// whether ISO C defines the behaviour (so that glibc is a valid oracle) and
// extracts what the %p oracle needs.
struct Dir
{
    bool minus = false, plus = false, space = false, hash = false, zero = false;
    int width_kind = 0; // 0 none 1 literal 2 star
    long width = 0;
    int prec_kind = 0;
    long prec = 0;
    std::string len;
    char conv = 0;
    int argi = -1; // index of the value argument
};
struct Parsed
{
    bool defined = true; // ISO defines the behaviour, arguments fit
    bool has_p = false, has_lit_wp = false;
    std::vector<Dir> dirs;
    std::string why;
    std::string need; // kinds of the arguments the format consumes, in order
};

static Parsed classify(const bytes &f, const std::vector<Arg> &args)
{
    Parsed P;
    size_t ai = 0;
    auto bad = [&](const char *w) { if (P.defined) { P.defined = false; P.why = w; } };
    auto next_int = [&](long &out) {
        P.need.push_back('i');
        if (ai >= args.size() || args[ai].kind != 'i') { bad("arg"); ai++; return; }
        out = (long)args[ai++].v;
    };
    for (size_t i = 0; i < f.size(); i++)
    {
        if (f[i] != '%')
            continue;
        Dir d;
        i++;
        for (; i < f.size(); i++)
        {
            if (f[i] == '-') d.minus = true;
            else if (f[i] == '+') d.plus = true;
            else if (f[i] == ' ') d.space = true;
            else if (f[i] == '#') d.hash = true;
            else if (f[i] == '0') d.zero = true;
            else break;
        }
        if (i < f.size() && f[i] == '*')
        {
            d.width_kind = 2;
            next_int(d.width);
            if (d.width == INT_MIN) bad("width INT_MIN");
            i++;
        }
        else if (i < f.size() && isdigit(f[i]))
        {
            d.width_kind = 1;
            P.has_lit_wp = true;
            while (i < f.size() && isdigit(f[i]))
            {
                d.width = d.width * 10 + (f[i] - '0');
                if (d.width > 100000) bad("huge width");
                i++;
            }
        }
        if (i < f.size() && f[i] == '.')
        {
            i++;
            d.prec_kind = 1;
            if (i < f.size() && f[i] == '*')
            {
                d.prec_kind = 2;
                next_int(d.prec);
                i++;
            }
            else
            {
                if (i < f.size() && isdigit(f[i])) P.has_lit_wp = true;
                while (i < f.size() && isdigit(f[i]))
                {
                    d.prec = d.prec * 10 + (f[i] - '0');
                    if (d.prec > 100000) bad("huge precision");
                    i++;
                }
            }
            if (d.prec < 0) d.prec_kind = 0; // negative precision: as if omitted
        }
        if (i < f.size() && f[i] == 'L')
        {
            d.len = "L";
            i++;
        }
        else if (i < f.size() && (f[i] == 'h' || f[i] == 'l'))
        {
            d.len = std::string(1, (char)f[i]);
            i++;
            if (i < f.size() && f[i] == (uint8_t)d.len[0]) { d.len += d.len; i++; }
        }
        else if (i < f.size() && (f[i] == 'j' || f[i] == 'z' || f[i] == 't'))
        {
            d.len = std::string(1, (char)f[i]);
            i++;
        }
        if (i >= f.size()) { bad("truncated directive"); break; }
        d.conv = (char)f[i];
        bool plain = !d.minus && !d.plus && !d.space && !d.hash && !d.zero && !d.width_kind && !d.prec_kind && d.len.empty();
        switch (d.conv)
        {
        case '%':
            if (!plain) bad("%% with options");
            break;
        case 'd': case 'i': case 'u':
            if (d.hash) bad("# with d/i/u");
            /* fallthrough */
        case 'o': case 'x': case 'X':
        {
            bool wide = d.len == "l" || d.len == "ll" || d.len == "j" || d.len == "z" || d.len == "t";
            if (d.len == "L") bad("L with integer conversion");
            d.argi = (int)ai;
            P.need.push_back(wide ? 'l' : 'i');
            if (ai >= args.size() || args[ai].kind != (wide ? 'l' : 'i')) bad("arg");
            ai++;
            break;
        }
        case 'c':
            if (d.hash || d.zero || d.prec_kind || !d.len.empty()) bad("option undefined for c");
            d.argi = (int)ai;
            P.need.push_back('i');
            if (ai >= args.size() || args[ai].kind != 'i') bad("arg");
            ai++;
            break;
        case 's':
            if (d.hash || d.zero || !d.len.empty()) bad("option undefined for s");
            d.argi = (int)ai;
            P.need.push_back('s');
            if (ai >= args.size()) { bad("arg"); ai++; break; }
            if (args[ai].kind == 's') {}
            else if (args[ai].kind == 'u')
            {
                // an unterminated array needs a precision that stays inside it
                bool has_nul = false;
                for (auto b : args[ai].s) if (!b) has_nul = true;
                if (!has_nul && !(d.prec_kind && d.prec <= (long)args[ai].s.size())) bad("unterminated string");
            }
            else bad("arg");
            ai++;
            break;
        case 'p':
            P.has_p = true;
            if (d.hash || d.zero || d.plus || d.space || d.prec_kind || !d.len.empty()) bad("option undefined for p");
            d.argi = (int)ai;
            P.need.push_back('p');
            if (ai >= args.size() || args[ai].kind != 'p') bad("arg");
            ai++;
            break;
        default:
            bad("conversion outside the fragment");
        }
        P.dirs.push_back(d);
    }
    if (ai != args.size()) bad("surplus args");
    return P;
}

// ---------------------------------------------------------------- run
static std::string res(long ret, const bytes &out) { return std::to_string(ret) + " " + hex(out); }

static void run_op(const std::vector<std::string> &w, const std::string &, out &o)
{
    const std::string &op = w[0];
    size_t k = 1;
    long limit = -1;
    if (op == "fd")
        limit = strtol(w[k++].c_str(), 0, 10);
    if (!(op == "pf" || op == "sp" || op == "spv" || op == "fd" || op == "iso") || w.size() <= k)
    {
        o.result = "bad-op";
        return;
    }
    bytes f = unhex(w[k++]);
    std::vector<Arg> args;
    for (; k < w.size(); k++)
    {
        Arg a;
        if (!parse_arg(w[k], a) || args.size() >= MAXARGS)
        {
            o.result = "bad-op";
            return;
        }
        args.push_back(a);
    }
    // exactly sized allocations: format with its terminator, every string
    bytes fz = f;
    fz.push_back(0);
    exact_buf fb(fz);
    std::vector<std::unique_ptr<exact_buf>> keep;
    for (auto &a : args)
        if (a.kind == 's' || a.kind == 'u')
        {
            bytes m = a.s;
            if (a.kind == 's')
                m.push_back(0);
            keep.emplace_back(new exact_buf(m));
            a.buf = keep.back().get();
        }
    const char *fmt = (const char *)fb.p;
    Parsed P = classify(f, args);
    // glibc gets terminated copies (ASan's vsnprintf interceptor insists on a
    // terminator even where the precision makes it unnecessary; where ISO
    // defines the result it does not depend on bytes behind the precision)
    std::vector<Arg> gargs = args;
    for (auto &a : gargs)
        if (a.kind == 'u')
        {
            bytes m = a.s;
            m.push_back(0);
            keep.emplace_back(new exact_buf(m));
            a.buf = keep.back().get();
        }

    // reference: host glibc
    bytes ref;
    long refret = 0;
    if (P.defined)
    {
        Call g{W_GLIBC, nullptr, nullptr, 0};
        refret = dispatch(&g, fmt, gargs, 0);
        if (refret >= 0)
        {
            exact_buf gb((size_t)refret + 1);
            g.buf = (char *)gb.p;
            g.bufsz = (size_t)refret + 1;
            dispatch(&g, fmt, gargs, 0);
            ref.assign(gb.p, gb.p + refret);
        }
    }
    if (op == "iso")
    {
        o.result = P.defined ? res(refret, ref) : "undef";
        if (!P.defined) o.tag("undef");
        return;
    }

    // tags (coverage)
    for (auto &d : P.dirs)
    {
        std::string t = std::string("conv:") + (isprint((unsigned char)d.conv) && d.conv != ',' ? std::string(1, d.conv) : "other");
        o.tag(t.c_str());
        if (d.minus) o.tag("flag-");
        if (d.plus) o.tag("flag+");
        if (d.space) o.tag("flagsp");
        if (d.hash) o.tag("flag#");
        if (d.zero) o.tag("flag0");
        if (d.width_kind == 1) o.tag("width-lit");
        if (d.width_kind == 2) o.tag(d.width < 0 ? "width*neg" : "width*");
        if (d.prec_kind == 1) o.tag("prec-lit");
        if (d.prec_kind == 2) o.tag("prec*");
        if (!d.len.empty()) o.tag(("len:" + d.len).c_str());
    }
    for (auto &a : args)
    {
        if (a.kind == 'u') o.tag("str-unterminated");
        if (a.kind == 'n') o.tag("str-null");
        if ((a.kind == 'i' && (a.v == INT_MIN || a.v == INT_MAX)) || (a.kind == 'l' && (a.v == LLONG_MIN || a.v == LLONG_MAX))) o.tag("type-extreme");
        if ((a.kind == 'i' || a.kind == 'l') && a.v < 0) o.tag("negative");
    }
    o.tag(P.defined ? "iso-defined" : "iso-undefined");

    // the engine itself (also used to size the buffers of the wrappers)
    Sink sink;
    Call c{W_PRINTF, &sink, nullptr, 0};
    long ret = dispatch(&c, fmt, args, 0);
    bytes out = sink.out;
    if (ret != sink.calls)
        o.fail("return value " + std::to_string(ret) + " != " + std::to_string(sink.calls) + " characters emitted");

    if (op == "pf")
        o.result = res(ret, out);
    else if (op == "sp" || op == "spv")
    {
        exact_buf b(out.size() + 1);
        Call v{op == "sp" ? W_VSPRINTF : W_SPRINTF, nullptr, (char *)b.p, b.n};
        long r2 = dispatch(&v, fmt, args, 0);
        o.result = res(r2, b.vec());
        bytes expect = out;
        expect.push_back(0);
        if (r2 != ret || b.vec() != expect)
            o.fail("vsprintf/sprintf differs from __printf + terminator");
    }
    else // fd
    {
        g_fd_out.clear();
        g_fd_limit = limit;
        Call v{W_FD, nullptr, nullptr, 0};
        long r2 = dispatch(&v, fmt, args, 0);
        o.result = res(r2, g_fd_out);
        bool failed = limit >= 0 && (long)out.size() > limit;
        bytes expect(out.begin(), out.begin() + (failed ? limit : (long)out.size()));
        if (r2 != (failed ? -1 : ret) || g_fd_out != expect)
            o.fail("vfdprintf differs from __printf / first error code");
        if (failed) o.tag("fd-error");
    }

    // the property evaluated directly: ISO C output (glibc) where ISO defines it
    if (P.defined && !P.has_p)
    {
        if (out != ref || ret != refret)
            o.fail("ISO/glibc gives " + res(refret, ref));
    }
    else if (P.defined && P.has_p && P.dirs.size() == 1 && f.size() >= 2 && f.front() == '<' && f.back() == '>')
    {
        // %p: spaces + "0x" + hex digits that parse back to the pointer, padded to the width
        const Dir &d = P.dirs[0];
        bool left = d.minus || d.width < 0;
        size_t wd = (size_t)(d.width < 0 ? -d.width : d.width);
        bool okp = out.size() >= 2 && out.front() == '<' && out.back() == '>';
        std::string body(out.begin() + (okp ? 1 : 0), out.end() - (okp ? 1 : 0));
        size_t a = 0, b = body.size();
        if (left) while (b > a && body[b - 1] == ' ') b--;
        else while (a < b && body[a] == ' ') a++;
        std::string core = body.substr(a, b - a);
        okp = okp && core.size() > 2 && core[0] == '0' && core[1] == 'x';
        unsigned long long val = 0;
        for (size_t q = 2; okp && q < core.size(); q++)
        {
            int hvv = hexval(core[q]);
            if (hvv < 0 || core.size() - 2 > 16) okp = false;
            else val = val * 16 + (unsigned)hvv;
        }
        okp = okp && val == (unsigned long long)args.back().v;
        okp = okp && body.size() == std::max(wd, core.size());
        if (!okp)
            o.fail("%p output is not [pad]0x<hex digits parsing back to the pointer>[pad] of the given width");
        o.tag("p-oracle");
    }
}

// ---------------------------------------------------------------- gen
#include "C06_gen.inc"

int main(int argc, char **argv) { return main_(argc, argv, gen, run_op); }
