// C06 harness: igris/util/printf_impl.c (__printf), compat/libc/stdio/sprintf.c
// (vsprintf/sprintf under renamed symbols) and compat/libc/stdio/fdprintf.c
// against the Lean model (IgrisModel/C06) and against host glibc vsnprintf.
//
// op lines (all stateless):
//   pf  <fmt-hex> <arg>*          __printf through a variadic shim
//   pfmin <fmt-hex> <arg>*        the same; only for the probes of the finding
//                                 C06-star-width-int-min (the driver does not evaluate them)
//   sp  <fmt-hex> <arg>*          igv_vsprintf into an exactly sized buffer
//   spv <fmt-hex> <arg>*          igv_sprintf (the variadic entry point)
//   fd  <limit> <fmt-hex> <arg>*  vfdprintf; write() under fdputc fails (-1)
//                                 once <limit> characters went out (limit<0: never)
//   iso <fmt-hex> <arg>*          host glibc vsnprintf (validates the Lean
//                                 spec `isoFormat`, which the driver prints)
//   fdv <limit> <fmt-hex> <arg>*  fdprintf (the variadic entry point), as `fd`
//   sn  <size> <fmt-hex> <arg>*   igv_snprintf (variadic) into an exactly sized
//                                 buffer of <size> bytes filled with a5
//   vsn <size> <fmt-hex> <arg>*   igv_vsnprintf through the shim, as `sn`
//                                 (sn/vsn result: "<ret> <hex of the whole buffer>")
// round 3:
//   pn  <fmt-hex> <arg>*          __printf, judged by the `int`-accurate model printfN: `%n` is allowed
//                                 (argument N:<slot>, an allocation of exactly sizeof(T) bytes), result
//                                 "<ret> <hex> n<slot>:<size>:<stored value>*"; a literal width/precision
//                                 beyond INT_MAX gives "intovf" (atoi overflows: undefined in C)
//   seq <sub-op> / <sub-op> ...   several calls one after the other in one op (entry-point twins on the
//                                 same format, interleaved entry points); results joined by " | "
//   premain <k> <sub-op>          the result of call k made from a constructor that ran BEFORE main()
//   consts                        PRINT_I_BUFF_SZ, PRINT_S_NULL_STR, type widths ... of the compiled code
// <arg>:  i:<dec int>  l:<dec int64>  p:<hex>  n: (NULL char*)
//         s:<hex bytes>  (NUL terminated)   u:<hex bytes> (NOT terminated,
//         exactly sized allocation: any read past the bytes is an ASan abort)
//         N:<slot> (pointer for %n)   w:<hex bytes> (wide string: each byte one wchar_t, terminated)
// result: "<ret> <hex of the characters handed to the callback>"
#include "C06_common.h"

// ---------------------------------------------------------------- %p fields (round 3b)
// The property fixes for %p only "0x followed by hex digits that parse back to the pointer": the NUMBER of
// digits (leading zeros), hence the length of the field and the blanks a width adds, is left open.  The compared
// result therefore carries every %p field in ONE canonical form - `0x` + exactly 16 lower-case digits, the
// blanks recomputed for that length on the side where the real field has them - whatever digit count the code
// under test chose; all other conversions stay byte-exact.  The field is found behaviourally: the engine is run
// on the format cut off in front of the directive and behind its conversion character.
struct PField
{
    size_t a = 0, b = 0;     // the field is out[a, b)
    bool ok = false;         // [blanks]0x<k >= 1 hex digits whose value is the pointer>[blanks]
    bool left = false;       // blanks behind the text
    std::string core;        // "0x..." as the code printed it
    std::string why;
    int diri = -1;
};
static std::vector<PField> locate_p_fields(const bytes &f, const Parsed &P, const std::vector<Arg> &args, const bytes &out)
{
    std::vector<PField> v;
    for (size_t di = 0; di < P.dirs.size(); di++)
    {
        const Dir &d = P.dirs[di];
        if (d.conv != 'p' || d.argi < 0 || d.argi >= (int)args.size() || args[d.argi].kind != 'p')
            continue;
        PField pf;
        pf.diri = (int)di;
        bytes outs[2];
        size_t cuts[2] = {d.start, d.pos + 1};
        for (int q = 0; q < 2; q++)
        {
            bytes cut(f.begin(), f.begin() + (long)cuts[q]);
            cut.push_back(0);
            exact_buf cb(cut);
            Sink sk;
            Call c2{W_PRINTF, &sk, nullptr, 0};
            dispatch(&c2, (const char *)cb.p, args, 0);
            outs[q] = sk.out;
        }
        if (outs[0].size() > outs[1].size() || outs[1].size() > out.size() ||
            !std::equal(outs[1].begin(), outs[1].end(), out.begin()))
        {
            pf.why = "the output of the format cut behind the directive is not a prefix of the whole output";
            v.push_back(pf);
            continue;
        }
        pf.a = outs[0].size();
        pf.b = outs[1].size();
        std::string field(out.begin() + (long)pf.a, out.begin() + (long)pf.b);
        size_t x = 0, y = field.size();
        while (x < y && field[x] == ' ') x++;
        while (y > x && field[y - 1] == ' ') y--;
        pf.left = y < field.size();
        pf.core = field.substr(x, y - x);
        bool okp = pf.core.size() > 2 && pf.core[0] == '0' && pf.core[1] == 'x' && !(x > 0 && y < field.size());
        unsigned long long val = 0;
        for (size_t q = 2; okp && q < pf.core.size(); q++)
        {
            int hvv = hexval(pf.core[q]);
            if (hvv < 0 || (val >> 60)) okp = false; // not a hex digit / more than 64 significant bits
            else val = val * 16 + (unsigned)hvv;
        }
        okp = okp && val == (unsigned long long)args[d.argi].v;
        if (!okp) pf.why = "the %p field `" + field + "` is not [blanks]0x<hex digits that parse back to the pointer>[blanks]";
        pf.ok = okp;
        v.push_back(pf);
    }
    return v;
}
static std::string canon_p_field(const PField &pf, unsigned long long val)
{
    char tmp[40];
    snprintf(tmp, sizeof tmp, "0x%016llx", val);
    std::string core = tmp;
    size_t w = pf.b - pf.a;
    std::string blanks(w > core.size() ? w - core.size() : 0, ' ');
    return pf.left ? core + blanks : blanks + core;
}
// the output with every well-formed %p field in canonical form; `map` turns a count of characters of the real
// output (at a directive boundary) into the count of the canonical output
struct Canon
{
    bytes out;
    std::vector<PField> fields;
    std::vector<long> delta; // per field: canonical length - real length
    long map(long n) const
    {
        long m = n;
        for (size_t i = 0; i < fields.size(); i++)
            if (fields[i].ok && (long)fields[i].b <= n) m += delta[i];
        return m;
    }
};
static Canon canon_output(const bytes &f, const Parsed &P, const std::vector<Arg> &args, const bytes &out)
{
    Canon C;
    C.out = out;
    C.fields = locate_p_fields(f, P, args, out);
    C.delta.assign(C.fields.size(), 0);
    for (size_t i = C.fields.size(); i-- > 0;)
    {
        const PField &pf = C.fields[i];
        if (!pf.ok) continue;
        // overlapping fields cannot happen (cuts are increasing); keep the guard cheap
        if (i + 1 < C.fields.size() && C.fields[i + 1].ok && C.fields[i + 1].a < pf.b) { C.fields[i].ok = false; continue; }
        std::string cf = canon_p_field(pf, (unsigned long long)args[P.dirs[pf.diri].argi].v);
        C.delta[i] = (long)cf.size() - (long)(pf.b - pf.a);
        C.out.erase(C.out.begin() + (long)pf.a, C.out.begin() + (long)pf.b);
        C.out.insert(C.out.begin() + (long)pf.a, cf.begin(), cf.end());
    }
    return C;
}

// ---------------------------------------------------------------- run
static std::string res(long ret, const bytes &out) { return std::to_string(ret) + " " + hex(out); }

// Every op is executed behind the same short history of calls through each entry point (state that leaked
// from an earlier call - a static buffer, a counter that is not re-initialised - then shows in a one-op replay too).
static void prime(out &o)
{
    exact_buf b(16);
    int r1 = igv_snprintf((char *)b.p, 16, "q%d", 7); // leaves 13 unused places
    bool ok = r1 == 2 && !memcmp(b.p, "q7", 3);
    int r2 = igv_sprintf((char *)b.p, "p%s", "rs");
    ok = ok && r2 == 3 && !memcmp(b.p, "prs", 4);
    g_fd_out.clear();
    g_fd_limit = -1;
    int r3 = fdprintf(7, "t%c", 'u');
    ok = ok && r3 == 2 && g_fd_out.size() == 2 && g_fd_out[0] == 't' && g_fd_out[1] == 'u';
    g_fd_out.clear();
    if (!ok) o.fail("the priming calls (snprintf q%d / sprintf p%s / fdprintf t%c) gave wrong results");
}

static void run_one(const std::vector<std::string> &w, out &o)
{
    if (w.empty())
    {
        o.result = "bad-op";
        return;
    }
    prime(o);
    const std::string &op = w[0];
    size_t k = 1;
    long limit = -1;
    bool is_sn = op == "sn" || op == "vsn";
    // sn/vsn with a declared size above 4096 ("the buffer is large enough": SIZE_MAX, INT_MAX + 1, ...):
    // the allocation is exactly output + terminator, the declared size is passed as it is
    unsigned long long declared = 0;
    bool sn_big = false;
    if ((op == "fd" || op == "fdv" || is_sn) && w.size() > 1)
    {
        if (is_sn && w[k].size() && w[k][0] != '-')
        {
            declared = strtoull(w[k].c_str(), 0, 10);
            sn_big = declared > 4096;
        }
        limit = sn_big ? 0 : strtol(w[k].c_str(), 0, 10); // fd: error limit; sn: buffer size
        k++;
    }
    if (!(op == "pf" || op == "pn" || op == "pfmin" || op == "sp" || op == "spv" || op == "fd" || op == "iso" || op == "fdv" || is_sn) || w.size() <= k || (is_sn && (limit < 0 || limit > 4096)))
    {
        o.result = "bad-op";
        return;
    }
    bytes f = unhex(w[k++]);
    std::vector<Arg> args;
    for (; k < w.size(); k++)
    {
        Arg a;
        if (!parse_arg(w[k], a) || args.size() >= MAXARGS)
        {
            o.result = "bad-op";
            return;
        }
        args.push_back(a);
    }
    // exactly sized allocations: format with its terminator, every string
    bytes fz = f;
    fz.push_back(0);
    exact_buf fb(fz);
    std::vector<std::unique_ptr<exact_buf>> keep;
    for (auto &a : args)
        if (a.kind == 's' || a.kind == 'u')
        {
            bytes m = a.s;
            if (a.kind == 's')
                m.push_back(0);
            keep.emplace_back(new exact_buf(m));
            a.buf = keep.back().get();
        }
        else if (a.kind == 'w')
        {
            // a wchar_t array: one element per byte given, and the terminator
            bytes m;
            for (auto b : a.s)
            {
                wchar_t wc = (wchar_t)b;
                m.insert(m.end(), (uint8_t *)&wc, (uint8_t *)&wc + sizeof wc);
            }
            wchar_t z = 0;
            m.insert(m.end(), (uint8_t *)&z, (uint8_t *)&z + sizeof z);
            keep.emplace_back(new exact_buf(m));
            a.buf = keep.back().get();
        }
    const char *fmt = (const char *)fb.p;
    Parsed P = classify(f, args);
    // %n: the pointer argument is an allocation of exactly sizeof(T) bytes (T by the length modifier):
    // a store of another width is an ASan abort or leaves a5 bytes behind
    auto n_size = [](const Dir &d) -> size_t {
        return d.len == "hh" ? 1 : d.len == "h" ? 2 : (d.len == "l" || d.len == "ll" || d.len == "j" || d.len == "z" || d.len == "t") ? 8 : 4;
    };
    for (auto &d : P.dirs)
        if (d.conv == 'n' && d.argi >= 0 && d.argi < (int)args.size() && args[d.argi].kind == 'N' && !args[d.argi].buf)
        {
            keep.emplace_back(new exact_buf(n_size(d)));
            args[d.argi].buf = keep.back().get();
        }
    for (auto &a : args)
        if (a.kind == 'N' && !a.buf) // not consumed by a %n: some valid pointer
        {
            keep.emplace_back(new exact_buf(8));
            a.buf = keep.back().get();
        }
    if (P.lit_overflow && op != "pfmin") // (pfmin: the literal probe of C06-star-width-int-min runs the call)
    {
        // atoi of the literal overflows `int`: undefined in C, the property fixes nothing.  Where host atoi's
        // answer ((int)strtol) is small the call is still made: it has to return and stay inside its buffers.
        o.tag("lit-overflow");
        if (op != "pn")
        {
            o.result = "bad-op";
            return;
        }
        if (P.lit_runnable)
        {
            Sink sk;
            Call c0{W_PRINTF, &sk, nullptr, 0};
            long r0 = dispatch(&c0, fmt, args, 0);
            if (r0 != sk.calls)
                o.fail("return value " + std::to_string(r0) + " != " + std::to_string(sk.calls) + " characters emitted");
            o.tag("lit-overflow-run");
        }
        o.result = "intovf";
        return;
    }
    // glibc gets terminated copies (ASan's vsnprintf interceptor insists on a
    // terminator even where the precision makes it unnecessary; where ISO
    // defines the result it does not depend on bytes behind the precision)
    std::vector<Arg> gargs = args;
    for (auto &a : gargs)
        if (a.kind == 'u')
        {
            bytes m = a.s;
            m.push_back(0);
            keep.emplace_back(new exact_buf(m));
            a.buf = keep.back().get();
        }

    // reference: host glibc
    bytes ref;
    long refret = 0;
    if (P.defined)
    {
        Call g{W_GLIBC, nullptr, nullptr, 0};
        refret = dispatch(&g, fmt, gargs, 0);
        if (refret >= 0)
        {
            exact_buf gb((size_t)refret + 1);
            g.buf = (char *)gb.p;
            g.bufsz = (size_t)refret + 1;
            dispatch(&g, fmt, gargs, 0);
            ref.assign(gb.p, gb.p + refret);
        }
    }
    if (op == "iso")
    {
        o.result = P.defined ? res(refret, ref) : "undef";
        if (!P.defined) o.tag("undef");
        return;
    }

    // tags (coverage)
    for (auto &d : P.dirs)
    {
        std::string t = std::string("conv:") + (isprint((unsigned char)d.conv) && d.conv != ',' ? std::string(1, d.conv) : "other");
        o.tag(t.c_str());
        if (d.minus) o.tag("flag-");
        if (d.plus) o.tag("flag+");
        if (d.space) o.tag("flagsp");
        if (d.hash) o.tag("flag#");
        if (d.zero) o.tag("flag0");
        if (d.width_kind == 1) o.tag("width-lit");
        if (d.width_kind == 2) o.tag(d.width < 0 ? "width*neg" : "width*");
        if (d.prec_kind == 1) o.tag("prec-lit");
        if (d.prec_kind == 2) o.tag("prec*");
        if (!d.len.empty()) o.tag(("len:" + d.len).c_str());
    }
    for (auto &a : args)
    {
        if (a.kind == 'u') o.tag("str-unterminated");
        if (a.kind == 'n') o.tag("str-null");
        if ((a.kind == 'i' && (a.v == INT_MIN || a.v == INT_MAX)) || (a.kind == 'l' && (a.v == LLONG_MIN || a.v == LLONG_MAX))) o.tag("type-extreme");
        if ((a.kind == 'i' || a.kind == 'l') && a.v < 0) o.tag("negative");
    }
    o.tag(P.defined ? "iso-defined" : "iso-undefined");
    if (P.wide) o.tag("wide");
    {
        std::string fc = former_finding_class(P, args);
        if (!fc.empty()) o.tag(fc == "C06-alt-zero" ? "alt-zero" : "c-nul");
    }

    // the engine itself (also used to size the buffers of the wrappers)
    Sink sink;
    Call c{W_PRINTF, &sink, nullptr, 0};
    long ret = dispatch(&c, fmt, args, 0);
    bytes out = sink.out;
    if (ret != sink.calls)
        o.fail("return value " + std::to_string(ret) + " != " + std::to_string(sink.calls) + " characters emitted");

    // round 3b: the compared result carries every %p field in canonical form (see locate_p_fields); `outc` is
    // `out` itself when the format has no %p or the code prints 0x + 16 lower-case digits.  For the wrapper ops the
    // real buffer is judged against the real engine output by the oracle; when that holds, the result shown is
    // what the same wrapper semantics give on the canonical output (identical to the real buffer when outc == out).
    Canon CN;
    CN.out = out;
    if (P.has_p && op != "pfmin") CN = canon_output(f, P, args, out);
    const bytes &outc = CN.out;
    long retc = ret + ((long)outc.size() - (long)out.size());
    for (auto &pf : CN.fields)
    {
        if (!pf.ok && P.defined) o.fail(pf.why);
        if (pf.ok && pf.core.size() != 18) o.tag("p-digits-not-16");
    }

    if (op == "pf" || op == "pfmin") // pfmin: pf, kept apart for the driver (probes of C06-star-width-int-min)
        o.result = res(retc, outc);
    else if (op == "pn")
    {
        o.result = res(retc, outc);
        for (auto &d : P.dirs)
            if (d.conv == 'n' && d.argi >= 0 && d.argi < (int)args.size() && args[d.argi].kind == 'N')
            {
                const Arg &a = args[d.argi];
                size_t sz = a.buf->n;
                unsigned long long val = 0;
                for (size_t q = 0; q < sz; q++) val |= (unsigned long long)a.buf->p[q] << (8 * q);
                size_t result_at = o.result.size();
                o.result += " n" + std::to_string(a.v) + ":" + std::to_string(sz) + ":" + std::to_string(val);
                // ISO: "the number of characters written to the output stream so far by this call" =
                // what the engine emits for the format cut off in front of this directive
                bytes cut(f.begin(), f.begin() + (long)d.start);
                cut.push_back(0);
                exact_buf cb(cut);
                // (the slots of earlier %n directives are written again with the same values)
                Sink sk;
                Call c2{W_PRINTF, &sk, nullptr, 0};
                dispatch(&c2, (const char *)cb.p, args, 0);
                unsigned long long expect = (unsigned long long)sk.calls;
                if (sz < 8) expect &= (1ull << (8 * sz)) - 1;
                if (val != expect)
                    o.fail("%n stored " + std::to_string(val) + ", " + std::to_string(sk.calls) + " characters were written so far");
                else if (CN.map(sk.calls) != sk.calls)
                {
                    // %p fields in front of this %n: the count in the canonical output
                    unsigned long long cv = (unsigned long long)CN.map(sk.calls);
                    if (sz < 8) cv &= (1ull << (8 * sz)) - 1;
                    o.result.resize(result_at);
                    o.result += " n" + std::to_string(a.v) + ":" + std::to_string(sz) + ":" + std::to_string(cv);
                }
                o.tag(("n:" + (d.len.empty() ? std::string("int") : d.len)).c_str());
                if (sk.calls > 255) o.tag("n-count>255");
            }
    }
    else if (op == "sp" || op == "spv")
    {
        exact_buf b(out.size() + 1);
        Call v{op == "sp" ? W_VSPRINTF : W_SPRINTF, nullptr, (char *)b.p, b.n};
        long r2 = dispatch(&v, fmt, args, 0);
        o.result = res(r2, b.vec());
        bytes expect = out;
        expect.push_back(0);
        if (r2 != ret || b.vec() != expect)
            o.fail("vsprintf/sprintf differs from __printf + terminator");
        else if (outc != out)
        {
            bytes ec = outc;
            ec.push_back(0);
            o.result = res(retc, ec);
        }
    }
    else if (is_sn && sn_big)
    {
        // the caller says "large enough" (size_t values up to SIZE_MAX): everything must be stored
        exact_buf b(out.size() + 1);
        memset(b.p, 0xA5, b.n);
        Call v{op == "sn" ? W_SNPRINTF : W_VSNPRINTF, nullptr, (char *)b.p, (size_t)declared};
        long r2 = dispatch(&v, fmt, args, 0);
        o.result = res(r2, b.vec());
        bytes expect = out;
        expect.push_back(0);
        if (r2 != ret)
            o.fail("snprintf returns " + std::to_string(r2) + ", the whole output has " + std::to_string(ret) + " characters");
        else if (b.vec() != expect)
            o.fail("snprintf with a size larger than the output did not store the whole output and a terminator");
        else if (outc != out)
        {
            bytes ec = outc;
            ec.push_back(0);
            o.result = res(retc, ec);
        }
        o.tag("sn-huge-size");
    }
    else if (is_sn)
    {
        // snprintf(buf, size, ...): the buffer is an allocation of exactly
        // `size` bytes (size 0: a pointer to the end of an allocation), so a
        // write behind it is an ASan abort.  ISO 7.21.6.5: at most size-1
        // characters and a terminator are written, the returned value is the
        // number of characters the whole output has.
        size_t size = (size_t)limit;
        exact_buf b(size ? size : 1);
        char *dst = size ? (char *)b.p : (char *)b.p + 1;
        Call v{op == "sn" ? W_SNPRINTF : W_VSNPRINTF, nullptr, dst, size};
        long r2 = dispatch(&v, fmt, args, 0);
        bytes got(size ? b.p : b.p + 1, b.p + (size ? size : 1));
        o.result = res(r2, got);
        bytes expect(size, 0xA5);
        if (size)
        {
            size_t n = std::min(size - 1, out.size());
            std::copy(out.begin(), out.begin() + (long)n, expect.begin());
            expect[n] = 0;
        }
        if (r2 != ret)
            o.fail("snprintf returns " + std::to_string(r2) + ", the whole output has " + std::to_string(ret) + " characters");
        else if (got != expect)
            o.fail("snprintf buffer is not the first size-1 characters of the output, a terminator, and untouched bytes behind");
        else if (outc != out)
        {
            bytes ec(size, 0xA5);
            if (size)
            {
                size_t n = std::min(size - 1, outc.size());
                std::copy(outc.begin(), outc.begin() + (long)n, ec.begin());
                ec[n] = 0;
            }
            o.result = res(retc, ec);
        }
        if (size && out.size() + 1 > size) o.tag("sn-truncated");
        if (size && out.size() + 1 == size) o.tag("sn-exact-fit");
        if (!size) o.tag("sn-size0");
        if (P.defined && !P.has_p && !o.result.empty())
        {
            // glibc with the same size
            exact_buf gb(size ? size : 1);
            Call g{W_GLIBC, nullptr, size ? (char *)gb.p : (char *)gb.p + 1, size};
            long gr = dispatch(&g, fmt, gargs, 0);
            bytes gg(size ? gb.p : gb.p + 1, gb.p + (size ? size : 1));
            // glibc leaves the bytes behind the terminator alone as well
            if (gr != r2 || gg != got)
                o.fail("ISO/glibc snprintf gives " + res(gr, gg));
        }
    }
    else // fd, fdv
    {
        g_fd_out.clear();
        g_fd_limit = limit;
        Call v{op == "fd" ? W_FD : W_FDPRINTF, nullptr, nullptr, 0};
        long r2 = dispatch(&v, fmt, args, 0);
        o.result = res(r2, g_fd_out);
        bool failed = limit >= 0 && (long)out.size() > limit;
        bytes expect(out.begin(), out.begin() + (failed ? limit : (long)out.size()));
        if (r2 != (failed ? -1 : ret) || g_fd_out != expect)
            o.fail("vfdprintf differs from __printf / first error code");
        else if (outc != out)
        {
            bool failedc = limit >= 0 && (long)outc.size() > limit;
            o.result = res(failedc ? -1 : retc, bytes(outc.begin(), outc.begin() + (failedc ? limit : (long)outc.size())));
        }
        if (failed) o.tag("fd-error");
    }

    // the property evaluated directly: ISO C output (glibc) where ISO defines it
    if (P.defined && !P.has_p)
    {
        if (out != ref || ret != refret)
            o.fail("ISO/glibc gives " + res(refret, ref));
    }
    else if (P.defined && P.has_p && P.dirs.size() == 1 && f.size() >= 2 && f.front() == '<' && f.back() == '>')
    {
        // %p: spaces + "0x" + hex digits that parse back to the pointer, padded to the width
        const Dir &d = P.dirs[0];
        bool left = d.minus || d.width < 0;
        size_t wd = (size_t)(d.width < 0 ? -d.width : d.width);
        bool okp = out.size() >= 2 && out.front() == '<' && out.back() == '>';
        std::string body(out.begin() + (okp ? 1 : 0), out.end() - (okp ? 1 : 0));
        size_t a = 0, b = body.size();
        if (left) while (b > a && body[b - 1] == ' ') b--;
        else while (a < b && body[a] == ' ') a++;
        std::string core = body.substr(a, b - a);
        okp = okp && core.size() > 2 && core[0] == '0' && core[1] == 'x';
        unsigned long long val = 0;
        for (size_t q = 2; okp && q < core.size(); q++)
        {
            int hvv = hexval(core[q]);
            if (hvv < 0 || core.size() - 2 > 16) okp = false;
            else val = val * 16 + (unsigned)hvv;
        }
        okp = okp && val == (unsigned long long)args.back().v;
        okp = okp && body.size() == std::max(wd, core.size());
        if (!okp)
            o.fail("%p output is not [pad]0x<hex digits parsing back to the pointer>[pad] of the given width");
        o.tag("p-oracle");
    }
    if (P.defined && P.has_p)
    {
        // any format with %p (several directives, literal text): ISO leaves the
        // rendering of a pointer to the implementation, the property demands "0x
        // followed by hex digits that parse back to the pointer" - ANY number
        // k >= 1 of digits (round 3b; the earlier rounds demanded igris' 16).
        // Expected text = glibc on the same format with every %p directive
        // turned into %s of the rendering the code chose (taken from its own
        // field after it was checked to be 0x + hex digits with the pointer's
        // value: locate_p_fields), flags and width kept: width and `-` padding
        // are computed by glibc on THAT length, and so is the return value.
        bytes f2 = fz;
        std::vector<Arg> a2 = gargs;
        bool all_ok = true;
        for (size_t di = 0; di < P.dirs.size(); di++)
        {
            const Dir &d = P.dirs[di];
            if (d.conv == 'p')
            {
                const PField *pf = nullptr;
                for (auto &x : CN.fields) if (x.diri == (int)di) pf = &x;
                if (!pf || !pf->ok) { all_ok = false; continue; } // (already reported above)
                f2[d.pos] = 's';
                const char *tmp = pf->core.c_str();
                Arg sa;
                sa.kind = 's';
                sa.s = bytes(tmp, tmp + strlen(tmp));
                bytes m = sa.s;
                m.push_back(0);
                keep.emplace_back(new exact_buf(m));
                sa.buf = keep.back().get();
                a2[d.argi] = sa;
            }
        }
        if (all_ok)
        {
        exact_buf fb2(f2);
        Call g{W_GLIBC, nullptr, nullptr, 0};
        long er = dispatch(&g, (const char *)fb2.p, a2, 0);
        bytes exp2;
        if (er >= 0)
        {
            exact_buf gb((size_t)er + 1);
            g.buf = (char *)gb.p;
            g.bufsz = (size_t)er + 1;
            dispatch(&g, (const char *)fb2.p, a2, 0);
            exp2.assign(gb.p, gb.p + er);
        }
        if (out != exp2 || ret != er)
            o.fail("with %p as the 0x + hex digits the code chose ISO/glibc gives " + res(er, exp2));
        o.tag("p-multi-oracle");
        }
    }
}

// ---------------------------------------------------------------- round 3: consts, seq, premain
static std::string consts_line(out &o)
{
    // Round 3b: PRINT_I_BUFF_SZ, PRINT_S_NULL_STR, the OPS_* masks and the number of digits of %p are INTERNAL
    // to printf_impl.c - the property fixes none of them.  They are read where they still exist under these
    // names (harness/C06_consts.c, every use #ifdef-guarded) and reported as TAGS; the compared result keeps what
    // the public signature and the platform fix: INT_MAX, sizeof of __printf's return type, sizeof of the types
    // ISO names for %n.
    int bsz = c06c_print_i_buff_sz();
    o.tag(bsz < 0 ? "PRINT_I_BUFF_SZ=unknown" : ("PRINT_I_BUFF_SZ=" + std::to_string(bsz)).c_str());
    if (bsz >= 0 && bsz != 23) o.tag("PRINT_I_BUFF_SZ-differs-from-model");
    if (bsz >= 0 && bsz < 23) o.fail("PRINT_I_BUFF_SZ below 23: 22 octal digits of 2^64-1 and the terminator do not fit");
    if (c06c_null_str())
    {
        std::string nul(c06c_null_str(), c06c_null_str() + c06c_null_str_size());
        o.tag(("PRINT_S_NULL_STR=" + hex(nul)).c_str());
        if (hex(nul) != "286e756c6c2900") o.tag("PRINT_S_NULL_STR-differs-from-model");
    }
    else
        o.tag("PRINT_S_NULL_STR=unknown");
    // the model treats `ops` as a record of independent booleans: sound only if every OPS_* is its own bit
    // (judged on the masks that are still macros of these names)
    bool single = true;
    unsigned seen = 0;
    int known = 0;
    for (int i = 0; i < 17; i++)
    {
        unsigned m = c06c_ops(i);
        if (m == 0) continue;
        known++;
        if ((m & (m - 1)) || (seen & m)) single = false;
        seen |= m;
    }
    if (!single) o.fail("the OPS_* masks are not distinct single bits");
    o.tag(("ops_masks_known=" + std::to_string(known)).c_str());
    o.tag(single ? "ops_single_bits=1" : "ops_single_bits=0");
    {
        // digits of a %p, behaviourally: <%p> of (void *)1
        Sink sk;
        Call c0{W_PRINTF, &sk, nullptr, 0};
        std::vector<Arg> pa(1);
        pa[0].kind = 'p';
        pa[0].v = 1;
        dispatch(&c0, "<%p>", pa, 0);
        long digs = (long)sk.out.size() - 4;
        o.tag(("ptr_digits=" + std::to_string(digs)).c_str());
    }
    std::string ns;
    for (int i = 0; i < 8; i++) ns += (i ? "," : "") + std::to_string(c06c_n_size(i));
    return "int_max=" + std::to_string(INT_MAX) + " sizeof_pc=" + std::to_string(c06c_sizeof_ret()) + " n_sizes=" + ns;
}

// calls made BEFORE main(): a constructor with the highest priority runs a few ops through the same code path
// as `run` and keeps the records (static-initialisation-order dependencies of the engine would show here)
struct PremainRec
{
    char result[160], oracle[200];
};
static PremainRec g_premain[8];
struct PremainRunner
{
    PremainRunner()
    {
        // only in `run` mode (argv is not available to a constructor: /proc/self/cmdline)
        char cl[256] = {0};
        FILE *fp = fopen("/proc/self/cmdline", "r");
        size_t got = fp ? fread(cl, 1, sizeof cl - 1, fp) : 0;
        if (fp) fclose(fp);
        size_t a0 = strnlen(cl, got);
        if (a0 + 1 >= got || strcmp(cl + a0 + 1, "run") != 0)
            return;
        // the calls run in a forked child (still before main()): if one of them aborts, the parent lives on and
        // the `premain k` op reports it, instead of the whole harness dying in front of every op
        for (int k = 0; k < NPREMAIN; k++)
        {
            snprintf(g_premain[k].result, sizeof g_premain[k].result, "CRASH before main()");
            snprintf(g_premain[k].oracle, sizeof g_premain[k].oracle, "FAIL crash in a call made before main()");
        }
        int fd[2];
        if (pipe(fd) != 0) return;
        fflush(stdout);
        pid_t pid = fork();
        if (pid == 0)
        {
            close(fd[0]);
            for (int k = 0; k < NPREMAIN; k++)
            {
                out o;
                run_one(words(PREMAIN[k]), o);
                PremainRec rec;
                memset(&rec, 0, sizeof rec);
                snprintf(rec.result, sizeof rec.result, "%s", o.result.c_str());
                snprintf(rec.oracle, sizeof rec.oracle, "%s", o.oracle.c_str());
                if (write(fd[1], &rec, sizeof rec) != (ssize_t)sizeof rec) _exit(3);
            }
            _exit(0);
        }
        close(fd[1]);
        for (int k = 0; k < NPREMAIN && pid > 0; k++)
        {
            PremainRec rec;
            size_t have = 0;
            while (have < sizeof rec)
            {
                ssize_t n = read(fd[0], (char *)&rec + have, sizeof rec - have);
                if (n <= 0) break;
                have += (size_t)n;
            }
            if (have != sizeof rec) break;
            g_premain[k] = rec;
        }
        close(fd[0]);
        if (pid > 0) waitpid(pid, 0, 0);
    }
};
static PremainRunner g_premain_runner __attribute__((init_priority(101)));

static void run_op(const std::vector<std::string> &w, const std::string &, out &o)
{
    if (w.size() == 1 && w[0] == "consts")
    {
        o.result = consts_line(o);
        o.tag("consts");
        return;
    }
    if (!w.empty() && w[0] == "premain")
    {
        int k = w.size() > 1 ? atoi(w[1].c_str()) : -1;
        std::string rest;
        for (size_t i = 2; i < w.size(); i++) rest += (i > 2 ? " " : "") + w[i];
        if (k < 0 || k >= NPREMAIN || rest != PREMAIN[k])
        {
            o.result = "bad-op";
            return;
        }
        o.result = g_premain[k].result;
        o.oracle = g_premain[k].oracle;
        // and the same call now, after main() started, gives the same answer
        out again;
        run_one(words(PREMAIN[k]), again);
        if (again.result != o.result) o.fail("the call before main() gave " + o.result + ", now " + again.result);
        o.tag("premain");
        return;
    }
    if (!w.empty() && w[0] == "seq")
    {
        std::vector<std::vector<std::string>> subs(1);
        for (size_t i = 1; i < w.size(); i++)
            if (w[i] == "/") subs.emplace_back();
            else subs.back().push_back(w[i]);
        std::string prev_key;
        long prev_ret = 0;
        bool have_prev = false;
        for (size_t i = 0; i < subs.size(); i++)
        {
            out so;
            run_one(subs[i], so);
            o.result += (i ? " | " : "") + so.result;
            if (so.oracle != "ok") o.fail("call " + std::to_string(i + 1) + ": " + so.oracle.substr(5));
            if (!so.tags.empty()) o.tag(so.tags.c_str());
            // twins on the same format and arguments: the same value is returned by every entry point
            // (except vfdprintf/fdprintf after a write error: -1)
            const std::string &sop = subs[i].empty() ? so.result : subs[i][0];
            bool numbered = sop == "sn" || sop == "vsn" || sop == "fd" || sop == "fdv";
            std::string key;
            for (size_t q = numbered ? 2 : 1; q < subs[i].size(); q++) key += subs[i][q] + " ";
            long ret = strtol(so.result.c_str(), 0, 10);
            if (have_prev && key == prev_key && ret != prev_ret && ret != -1 && prev_ret != -1)
                o.fail("entry points disagree on the return value for the same format: " + std::to_string(prev_ret) + " / " + std::to_string(ret));
            if (ret != -1 || !have_prev || key != prev_key) { prev_key = key; prev_ret = ret; have_prev = true; }
        }
        o.tag("seq");
        return;
    }
    run_one(w, o);
}

int main(int argc, char **argv) { return main_(argc, argv, gen, run_op); }
