// C10: compat/mem/lin_realloc.cpp with malloc/free/realloc renamed (see C10_malloc.cpp)
#define NDEBUG 1
#include <cstddef>
#include <cstdlib>
#include <cstring>
#include <cassert>
#include <memory>
#include <mutex>
#include <stdlib.h>
#include <string.h>
#include <igris/sync/critical_context.h>
#include <igris/sync/syslock.h>
#define malloc igr_malloc
#define __brkval __brkval_rel
#define __flp __flp_rel
#define __allocation_counter __allocation_counter_rel
#define __malloc_heap_start __malloc_heap_start_rel
#define __malloc_heap_end __malloc_heap_end_rel
#define free igr_free
#define realloc igr_realloc
extern "C" void *igr_malloc(size_t);
extern "C" void igr_free(void *);
#include <compat/mem/lin_realloc.cpp>
