// C10: compat/mem/lin_realloc.cpp as a RELEASE build inside namespace c10rel (see C10_malloc_rel.cpp)
#define NDEBUG 1
#include <cstddef>
#include <cstdlib>
#include <cstring>
#include <cstdint>
#include <cstdio>
#include <climits>
#include <cassert>
#include <memory>
#include <mutex>
#include <new>
#include <utility>
#include <algorithm>
#include <stdlib.h>
#include <string.h>
#include <stdint.h>
#include <stdio.h>
#include <limits.h>
#include <unistd.h>
#include <igris/sync/critical_context.h>
#include <igris/sync/syslock.h>
#include <compat/mem/lin_malloc.h>
#define malloc igr_malloc
#define free igr_free
#define realloc igr_realloc
extern "C" void *igr_malloc(size_t);
extern "C" void igr_free(void *);
extern "C" void *igr_realloc(void *, size_t);
namespace c10rel
{
#include <compat/mem/lin_realloc.cpp>
}
