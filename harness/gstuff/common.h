// Shared by harness/C04.cpp and harness/C05.cpp
#pragma once
#include "../common/hv.h"
#include <igris/protocols/gstuff.h>
#include <algorithm>

using namespace hv;
typedef std::vector<uint8_t> bytes;

extern "C" void leg_constants(uint8_t out[4]);
bytes leg_encode(const bytes &p, size_t outcap);
void leg_feed(const bytes &stream, unsigned cap, std::string &sts, std::vector<bytes> &packets, std::vector<bytes> &rawlines,
              size_t *maxsize = nullptr);

struct alphabet
{
    uint8_t start, stop, stub, s_start, s_stop, s_stub;
};

static inline alphabet alpha_of(const gstuff_context &c)
{
    return alphabet{(uint8_t)c.GSTUFF_START, (uint8_t)c.GSTUFF_STOP, (uint8_t)c.GSTUFF_STUB,
                    (uint8_t)c.GSTUFF_STUB_START, (uint8_t)c.GSTUFF_STUB_STOP, (uint8_t)c.GSTUFF_STUB_STUB};
}
static inline alphabet alpha_leg()
{
    uint8_t k[4];
    leg_constants(k);
    return alphabet{k[0], k[0], k[1], k[2], k[2], k[3]};
}
static inline bool codec_ctx(const std::string &codec, gstuff_context &ctx)
{
    if (codec == "v1") { ctx = gstuff_context(); return true; }
    if (codec == "v0") { ctx = gstuff_context_v0(); return true; }
    return false;
}
static inline alphabet alpha_by(const std::string &codec)
{
    gstuff_context c;
    if (codec_ctx(codec, c)) return alpha_of(c);
    return alpha_leg();
}

// independent bit-serial CRC-8 poly 0x31 init 0xFF (not igris_strmcrc8)
static inline uint8_t ref_crc8(const bytes &m)
{
    uint8_t reg = 0xFF;
    for (uint8_t b : m)
        for (int i = 7; i >= 0; i--)
        {
            bool bit = (b >> i) & 1, msb = reg & 0x80;
            reg <<= 1;
            if (msb != bit) reg ^= 0x31;
        }
    return reg;
}

// encode with the user-buffer API into an exactly sized heap buffer
static inline bytes enc_pieces(const std::string &codec, const std::vector<bytes> &pieces, size_t outcap)
{
    gstuff_context ctx;
    if (!codec_ctx(codec, ctx))
    {
        bytes all;
        for (auto &p : pieces) all.insert(all.end(), p.begin(), p.end());
        return leg_encode(all, outcap);
    }
    std::vector<exact_buf *> bufs;
    std::vector<iovec> vec;
    for (auto &p : pieces)
    {
        bufs.push_back(new exact_buf(p));
        vec.push_back(iovec{bufs.back()->p, p.size()});
    }
    exact_buf out(outcap);
    int n = gstuffing_v(vec.data(), vec.size(), (char *)out.p, ctx);
    bytes r(out.p, out.p + n);
    for (auto b : bufs) delete b;
    return r;
}

static inline size_t total_len(const std::vector<bytes> &pieces)
{
    size_t n = 0;
    for (auto &p : pieces) n += p.size();
    return n;
}

struct trace
{
    std::string sts;
    std::vector<bytes> packets;
    std::string show() const
    {
        std::string s = sts.empty() ? "-" : sts;
        s += " ";
        if (packets.empty()) s += "none";
        for (size_t i = 0; i < packets.size(); i++)
            s += (i ? "," : "") + hex(packets[i]);
        return s;
    }
};

static inline char sts_char(int s)
{
    switch (s)
    {
    case GSTUFF_CONTINUE: return 'C';
    case GSTUFF_NEWPACKAGE: return 'N';
    case GSTUFF_FORCE_RESTART: return 'R';
    case GSTUFF_GARBAGE: return 'G';
    case GSTUFF_CRC_ERROR: return 'c';
    case GSTUFF_OVERFLOW: return 'O';
    case GSTUFF_STUFFING_ERROR: return 'S';
    }
    return '?';
}

// feed a stream to the real receiver; the receive buffer is an exactly sized
// heap block, so any access outside [0,cap) is an ASan report
static inline trace feed_stream(const std::string &codec, unsigned cap, const bytes &stream, size_t *maxsize = nullptr)
{
    trace t;
    gstuff_context ctx;
    if (!codec_ctx(codec, ctx))
    {
        std::vector<bytes> raw;
        leg_feed(stream, cap, t.sts, t.packets, raw, maxsize);
        return t;
    }
    // capacity 0: a zero-length region at the very end of a heap block (hv::exact_buf(0) would own 1 byte)
    exact_buf buf(cap, cap ? 0 : 16);
    gstuff_autorecv r(ctx);
    r.init(buf.p, (int)cap);
    for (uint8_t b : stream)
    {
        int s = r.newchar((char)b);
        t.sts.push_back(sts_char(s));
        if (maxsize && r.size() > *maxsize) *maxsize = r.size();
        if (s == GSTUFF_NEWPACKAGE)
        {
            const char *l = r.cstr(); // writes buf[len] = 0
            t.packets.push_back(bytes((const uint8_t *)l, (const uint8_t *)l + r.size()));
        }
    }
    // round 3b: cstr() at capacity 0, at the end of the stream (theorem cstr_any_time): the guard of
    // sline_getline must keep the terminator out of the zero-length region (ASan sees a store)
    if (cap == 0) (void)r.cstr();
    return t;
}

// ---- reference de-framer (independent of the receiver automaton) ----------
// unescape a frame body; false if an escape is invalid or dangling
static inline bool ref_unescape(const alphabet &a, const bytes &body, bytes &out)
{
    out.clear();
    for (size_t i = 0; i < body.size(); i++)
    {
        if (body[i] == a.stub)
        {
            if (++i >= body.size()) return false;
            if (body[i] == a.s_start) out.push_back(a.start);
            else if (body[i] == a.s_stop) out.push_back(a.stop);
            else if (body[i] == a.s_stub) out.push_back(a.stub);
            else return false;
        }
        else
            out.push_back(body[i]);
    }
    return true;
}
