// Round 3, shared by harness/C04.cpp and harness/C05.cpp:
//   seq   - a SESSION on long-lived objects: ONE gstuff_context object whose contents are changed in
//           place between calls, ONE re-used output buffer, ONE gstuff_autorecv object that is
//           re-constructed / init / setbuf / reset in the middle of a stream, ONE legacy receiver struct
//   sizes - type widths the model embeds, read from the compiled code
//   long  - >= 300 KiB payloads (all markers / all escape bytes / mixed), once per codec
//   longnoise - a long noise stream through a receiver with a small buffer
#pragma once
#include "common.h"

void leg_sess_start();
void leg_sess_setbuf(uint8_t *blk, unsigned cap);
void leg_sess_reset();
size_t leg_sess_size();
void leg_sess_feed(const bytes &stream, bool can_read, std::string &sts, std::vector<bytes> &packets, size_t *maxsize);
int leg_encode_into(const bytes &p, uint8_t *out);
void leg_sizes(size_t out[4]);

static inline void set_ctx(gstuff_context &c, const alphabet &a)
{
    // in place, field by field: the object (and its address) stays the same
    c.GSTUFF_START = (char)a.start;
    c.GSTUFF_STOP = (char)a.stop;
    c.GSTUFF_STUB = (char)a.stub;
    c.GSTUFF_STUB_START = (char)a.s_start;
    c.GSTUFF_STUB_STOP = (char)a.s_stop;
    c.GSTUFF_STUB_STUB = (char)a.s_stub;
}
static inline bool same_alpha(const alphabet &a, const alphabet &b) { return !memcmp(&a, &b, sizeof a); }
static inline std::string alpha_hex(const alphabet &a) { return hex((const uint8_t *)&a, 6); }
static inline alphabet alpha_unhex(const std::string &s)
{
    bytes b = unhex(s);
    b.resize(6);
    return alphabet{b[0], b[1], b[2], b[3], b[4], b[5]};
}

// every clause of C04's frame sentence, for an explicit alphabet
static inline void frame_oracle(const alphabet &a, const bytes &p, const bytes &f, out &o)
{
    if (f.size() < 2 || f.front() != a.start || f.back() != a.stop)
        return o.fail("frame does not start/end with the markers of the alphabet current at the call");
    if (f.size() > 2 * p.size() + 4) o.fail("frame longer than 2n+4");
    if (f.size() == 2 * p.size() + 4) o.tag("worst-case-2n+4");
    bytes body(f.begin() + 1, f.end() - 1), un;
    for (uint8_t b : body)
        if (b == a.start || b == a.stop) return o.fail("unescaped marker inside the frame");
    if (!ref_unescape(a, body, un)) return o.fail("frame body has an invalid escape");
    bytes want = p;
    want.push_back(ref_crc8(p));
    if (un != want) o.fail("unescaped frame body != payload ++ crc8(payload)");
}

// soundness of every delivered packet of one stream fed from a fresh init (C05)
static inline void sound_oracle_a(const alphabet &a, const bytes &s, const trace &t, out &o)
{
    size_t pk = 0;
    for (size_t i = 0; i < t.sts.size(); i++)
    {
        if (t.sts[i] != 'N') continue;
        if (pk >= t.packets.size()) return;
        const bytes &got = t.packets[pk++];
        if (s[i] != a.stop) return o.fail("NEWPACKAGE on a byte that is not the stop marker");
        long j = (long)i - 1;
        while (j >= 0 && s[j] != a.start) j--;
        if (j < 0) return o.fail("packet delivered although no start marker precedes it");
        bytes body(s.begin() + (j + 1), s.begin() + i), un;
        if (!ref_unescape(a, body, un)) return o.fail("packet delivered from a frame with an invalid escape");
        bytes want = got;
        want.push_back(ref_crc8(got));
        if (un != want) return o.fail("delivered bytes != unescaped bytes since the last start marker minus CRC");
    }
}

static inline std::vector<bytes> split_pieces(const std::string &s)
{
    std::vector<bytes> ps;
    size_t i = 0;
    while (true)
    {
        size_t j = s.find('/', i);
        ps.push_back(unhex(s.substr(i, j == std::string::npos ? std::string::npos : j - i)));
        if (j == std::string::npos) break;
        i = j + 1;
    }
    return ps;
}

// Round 3b: the bodies of the ops below live in harness/gstuff/sess.cpp (one translation unit shared by C04 and
// C05, compiled in parallel with the per-property files: quick-tier wall time)
void run_seq(const std::vector<std::string> &w, out &o);
void run_sizes(out &o);
void run_long(const std::vector<std::string> &w, out &o);
void run_longnoise(const std::vector<std::string> &w, out &o);
void run_premain(out &o);
