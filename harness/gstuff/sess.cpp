// Round 3 ops shared by harness/C04.cpp and harness/C05.cpp (seq, sizes, long, longnoise, premain); a separate
// translation unit since round 3b (see sess.h)
#include "sess.h"

struct recv_side
{
    bool att = false, clean = false, sound_ok = false;
    unsigned cap = 0;
    alphabet a{};
    bytes guard;       // blk[cap ..) at the time of init: must never change
    bytes stream;      // fed since the last init (while sound_ok)
    trace tr;
};

// seq <outcap> <blkcap> <step>...
void run_seq(const std::vector<std::string> &w, out &o)
{
    size_t outcap = strtoul(w[1].c_str(), 0, 10), blkcap = strtoul(w[2].c_str(), 0, 10);
    gstuff_context *ctx = new gstuff_context;           // THE context object of the session
    alphabet cur = alpha_of(*ctx);
    exact_buf outbuf(outcap), blk(blkcap), lblk(blkcap);
    gstuff_autorecv *robj = new gstuff_autorecv(*ctx);  // THE receiver object of the session
    leg_sess_start();
    recv_side R, L;
    R.a = cur;
    L.a = alpha_leg();
    bytes frame, fpayload;
    alphabet falpha = cur;
    bool fvalid = false;
    std::string res;
    o.tag("session");
    int nenc = 0;
    for (size_t i = 3; i < w.size(); i++)
    {
        const std::string &t = w[i];
        std::string r = ".";
        auto after_feed = [&](recv_side &S, exact_buf &B, const bytes &s, const trace &tt, size_t maxsize, bool isframe, const char *who) {
            if (S.att)
            {
                if (maxsize > 0 && maxsize + 1 > (size_t)S.cap) o.fail(std::string(who) + " receiver stored more than capacity-1 bytes");
                if (!S.guard.empty() && memcmp(B.p + S.cap, S.guard.data(), S.guard.size())) o.fail(std::string(who) + " receiver modified memory behind the buffer it was given");
            }
            else if (maxsize > 0) o.fail(std::string(who) + " receiver without a buffer stored bytes");
            if (S.sound_ok)
            {
                S.stream.insert(S.stream.end(), s.begin(), s.end());
                S.tr.sts += tt.sts;
                S.tr.packets.insert(S.tr.packets.end(), tt.packets.begin(), tt.packets.end());
                sound_oracle_a(S.a, S.stream, S.tr, o);
            }
            if (isframe && S.clean && fvalid && same_alpha(S.a, falpha))
            {
                if ((size_t)S.cap >= fpayload.size() + 2)
                {
                    std::string want(s.size() - 1, 'C');
                    want += 'N';
                    if (tt.sts != want) o.fail(std::string(who) + ": status sequence " + tt.sts + " != C..CN (decode with the alphabet current at the call)");
                    if (tt.packets.size() != 1 || tt.packets[0] != fpayload) o.fail(std::string(who) + ": decode(encode(p)) != p with the alphabet current at the call");
                    o.tag("session-roundtrip");
                }
                else
                {
                    if (tt.sts.find('O') == std::string::npos || tt.sts.find('N') != std::string::npos)
                        o.fail(std::string(who) + ": frame that does not fit was not reported as overflow / was delivered");
                    o.tag("too-small");
                }
            }
            else
                S.clean = false;
        };
        if (t[0] == 'A')
        {
            cur = alpha_unhex(t.substr(1));
            set_ctx(*ctx, cur);
            o.tag("ctx-mutated-in-place");
        }
        else if (t[0] == 'E' || t[0] == 'V')
        {
            std::vector<bytes> pieces = split_pieces(t.substr(1));
            bytes p;
            for (auto &x : pieces) p.insert(p.end(), x.begin(), x.end());
            std::vector<exact_buf *> bufs;
            std::vector<iovec> vec;
            for (auto &x : pieces)
            {
                bufs.push_back(new exact_buf(x));
                vec.push_back(iovec{bufs.back()->p, x.size()});
            }
            if (t[0] == 'E')
            {
                bytes before = outbuf.vec();
                int n = gstuffing_v(vec.data(), vec.size(), (char *)outbuf.p, *ctx);
                if (n < 0 || (size_t)n > outcap) { o.fail("encoder returned a length outside its buffer"); n = 0; }
                frame.assign(outbuf.p, outbuf.p + n);
                if (memcmp(outbuf.p + n, before.data() + n, outcap - n)) o.fail("encoder wrote behind the frame it reported");
                if (pieces.size() == 1)
                {
                    exact_buf out2(2 * p.size() + 4);
                    int n2 = gstuffing((const char *)bufs[0]->p, p.size(), (char *)out2.p, *ctx);
                    if (n2 != n || memcmp(out2.p, outbuf.p, (size_t)n)) o.fail("gstuffing(data,size) != gstuffing_v(vec) on the same context object");
                }
                r = "e" + std::to_string(n) + ":" + hex(frame);
            }
            else
            {
                frame = gstuffing_v(vec.data(), vec.size(), *ctx);
                if (pieces.size() == 1)
                {
                    bytes g = gstuffing(igris::buffer((char *)bufs[0]->p, p.size()), *ctx);
                    if (g != frame) o.fail("gstuffing(buffer) != gstuffing_v(vec) on the same context object");
                }
                r = "v" + hex(frame);
                o.tag("self-sized");
            }
            for (auto b : bufs) delete b;
            frame_oracle(cur, p, frame, o);
            fpayload = p;
            falpha = cur;
            fvalid = true;
            if (nenc++) o.tag("encoder-called-again");
        }
        else if (t[0] == 'G')
        {
            bytes p = unhex(t.substr(1));
            bytes before = outbuf.vec();
            int n = leg_encode_into(p, outbuf.p);
            if (n < 0 || (size_t)n > outcap) { o.fail("legacy encoder returned a length outside its buffer"); n = 0; }
            frame.assign(outbuf.p, outbuf.p + n);
            if (memcmp(outbuf.p + n, before.data() + n, outcap - n)) o.fail("legacy encoder wrote behind the frame it reported");
            frame_oracle(alpha_leg(), p, frame, o);
            fpayload = p;
            falpha = alpha_leg();
            fvalid = true;
            r = "e" + std::to_string(n) + ":" + hex(frame);
        }
        else if (t == "N")
        {
            *robj = gstuff_autorecv(*ctx);   // same object, new contents: context copied, no buffer
            R = recv_side();
            R.a = cur;
            o.tag("receiver-reconstructed");
        }
        else if (t[0] == 'I' || t[0] == 'S')
        {
            unsigned cap = (unsigned)strtoul(t.c_str() + 1, 0, 10);
            if (cap > blkcap) { o.result = "bad-op"; return; }
            if (R.att && !R.clean) o.tag("init-mid-stream");
            if (t[0] == 'I') robj->init(blk.p, (int)cap);
            else robj->setbuf(blk.p, (int)cap);
            alphabet keep = R.a;
            R = recv_side();
            R.a = keep;
            R.att = R.clean = R.sound_ok = true;
            R.cap = cap;
            R.guard.assign(blk.p + cap, blk.p + blkcap);
        }
        else if (t == "R")
        {
            robj->reset();
            // reset() in the middle of a frame drops the bytes stored so far but stays in the frame:
            // "the bytes since the last start marker" is then not what the packet is made of
            if (!R.clean) { R.sound_ok = false; o.tag("reset-mid-stream"); }
        }
        else if (t[0] == 'F')
        {
            bool isframe = t.size() == 1;
            bytes s = isframe ? frame : unhex(t.substr(1));
            trace tt;
            size_t maxsize = 0;
            for (uint8_t b : s)
            {
                int st = robj->newchar((char)b);
                tt.sts.push_back(sts_char(st));
                if (robj->size() > maxsize) maxsize = robj->size();
                if (st == GSTUFF_NEWPACKAGE)
                {
                    if (R.att && R.cap >= 1)
                    {
                        const char *l = robj->cstr();
                        tt.packets.push_back(bytes((const uint8_t *)l, (const uint8_t *)l + robj->size()));
                    }
                    else
                        o.fail("packet delivered by a receiver that has no buffer");
                }
            }
            after_feed(R, blk, s, tt, maxsize, isframe, "configurable");
            r = "t" + tt.show();
        }
        else if (t == "lr")
        {
            leg_sess_reset();
            if (!L.clean) { L.sound_ok = false; o.tag("reset-mid-stream"); }
        }
        else if (t.compare(0, 2, "ls") == 0)
        {
            unsigned cap = (unsigned)strtoul(t.c_str() + 2, 0, 10);
            if (cap > blkcap) { o.result = "bad-op"; return; }
            if (L.att && !L.clean) o.tag("init-mid-stream");
            leg_sess_setbuf(lblk.p, cap);
            L = recv_side();
            L.a = alpha_leg();
            L.att = L.clean = L.sound_ok = true;
            L.cap = cap;
            L.guard.assign(lblk.p + cap, lblk.p + blkcap);
        }
        else if (t.compare(0, 2, "lf") == 0)
        {
            bool isframe = t.size() == 2;
            bytes s = isframe ? frame : unhex(t.substr(2));
            trace tt;
            size_t maxsize = 0;
            leg_sess_feed(s, L.att && L.cap >= 1, tt.sts, tt.packets, &maxsize);
            if (!(L.att && L.cap >= 1) && tt.sts.find('N') != std::string::npos) o.fail("packet delivered by a legacy receiver that has no buffer");
            after_feed(L, lblk, s, tt, maxsize, isframe, "legacy");
            r = "t" + tt.show();
        }
        else { o.result = "bad-op"; return; }
        res += (i > 3 ? ";" : "") + r;
    }
    delete robj;
    delete ctx;
    o.result = res;
}

template <class R, class... A> static size_t ret_size_of(R (*)(A...)) { return sizeof(R); }

// Round 3b (fragility sweep).  COMPARED with the model: only the widths that the public signatures fix - return
// type of gstuffing_v / gstuffing (int), size_t, iov_len, return type and `size` parameter of gstuffing_v1.
// NOT fixed by the property (a harmless change may widen the sline counters, add a member to gstuff_context,
// rename or retype the legacy crc/state members): widths of sline::cap/len/cursor, sizeof(gstuff_context),
// legacy crc/state - read when the members exist under these names (`requires`), reported as a TAG.  Oracle:
// a counter of the receive line that is narrower than the `int` capacity parameter of init()/setbuf_v1()
// cannot hold "every receive buffer size" (the behavioural probes for that are the `long` ops at 65535..65537).
template <class S> static size_t w_cap(S &s) { if constexpr (requires { s.cap; }) return sizeof(s.cap); else return 0; }
template <class S> static size_t w_len(S &s) { if constexpr (requires { s.len; }) return sizeof(s.len); else return 0; }
template <class S> static size_t w_cursor(S &s) { if constexpr (requires { s.cursor; }) return sizeof(s.cursor); else return 0; }
void run_sizes(out &o)
{
    size_t l[4];
    leg_sizes(l);
    int (*enc_v)(struct iovec *, size_t, char *, const gstuff_context &) = &gstuffing_v;
    int (*enc_1)(const char *, size_t, char *, const gstuff_context &) = &gstuffing;
    struct iovec iv;
    struct sline sl;
    size_t v[] = {ret_size_of(enc_v), sizeof(size_t), sizeof(iv.iov_len), l[0], l[1]};
    if (ret_size_of(enc_1) != ret_size_of(enc_v)) o.fail("gstuffing and gstuffing_v return different types");
    std::string s;
    for (size_t i = 0; i < sizeof v / sizeof v[0]; i++) s += (i ? " " : "") + std::to_string(v[i]);
    o.result = s;
    size_t wc = w_cap(sl), wl = w_len(sl), wu = w_cursor(sl);
    for (size_t x : {wc, wl, wu})
        if (x != 0 && x < sizeof(int)) o.fail("a counter of struct sline is narrower than the int capacity of init()/setbuf_v1()");
    o.tag(("sline-counters=" + std::to_string(wc) + "/" + std::to_string(wl) + "/" + std::to_string(wu)).c_str());
    o.tag(("sizeof-context=" + std::to_string(sizeof(gstuff_context))).c_str());
    o.tag(("legacy-crc-state=" + std::to_string(l[2]) + "/" + std::to_string(l[3])).c_str());
}

static inline uint32_t fnv(const uint8_t *p, size_t n)
{
    uint32_t h = 2166136261u;
    for (size_t i = 0; i < n; i++) h = (h ^ p[i]) * 16777619u;
    return h;
}
static inline bytes long_payload(const std::string &kind, const alphabet &a, size_t n, uint64_t seed)
{
    bytes p(n);
    if (kind == "mark") for (size_t i = 0; i < n; i++) p[i] = i % 3 == 0 ? a.start : i % 3 == 1 ? a.stop : a.stub;
    else if (kind == "esc") for (size_t i = 0; i < n; i++) p[i] = a.stub;
    else
    {
        uint64_t x = seed;
        for (size_t i = 0; i < n; i++)
        {
            x = (x * 1103515245ull + 12345ull) % 2147483648ull;
            p[i] = (uint8_t)(x / 65536 % 256);
        }
    }
    return p;
}
static inline std::string long_summary(const bytes &f, int ret, const trace &t)
{
    size_t nc = 0;
    std::string others;
    for (char c : t.sts) if (c == 'C') nc++; else others.push_back(c);
    std::string s = std::to_string(f.size()) + " " + std::to_string(ret) + " " + std::to_string(fnv(f.data(), f.size())) + " C" +
                    std::to_string(nc) + " " + (others.empty() ? "-" : others) + " " + std::to_string(t.packets.size()) + " ";
    for (size_t i = 0; i < t.packets.size(); i++)
        s += (i ? " " : "") + std::to_string(t.packets[i].size()) + ":" + std::to_string(fnv(t.packets[i].data(), t.packets[i].size()));
    return s;
}

// long <codec> <kind> <n> <seed>
void run_long(const std::vector<std::string> &w, out &o)
{
    const std::string &codec = w[1], &kind = w[2];
    size_t n = strtoul(w[3].c_str(), 0, 10);
    alphabet a = alpha_by(codec);
    bytes p = long_payload(kind, a, n, strtoull(w[4].c_str(), 0, 10));
    gstuff_context ctx;
    bytes f;
    int ret;
    if (codec_ctx(codec, ctx))
    {
        exact_buf in(p), outb(2 * n + 4);
        ret = gstuffing((const char *)in.p, n, (char *)outb.p, ctx);
        if (ret < 2 || (size_t)ret > 2 * n + 4 || outb.p[ret - 1] != a.stop) o.fail("int return value of the encoder is not the frame length");
        f.assign(outb.p, outb.p + (ret > 0 ? ret : 0));
        bytes g = gstuffing(igris::buffer((char *)in.p, n), ctx);
        if (g != f) o.fail("self-sizing gstuffing(buffer) != gstuffing(data, size, out)");
        iovec iv[3] = {{in.p, n / 3}, {in.p + n / 3, 0}, {in.p + n / 3, n - n / 3}};
        bytes g2 = gstuffing_v(iv, 3, ctx);
        if (g2 != f) o.fail("self-sizing gstuffing_v(3 pieces) != gstuffing(data, size, out)");
    }
    else
    {
        exact_buf outb(2 * n + 4);
        ret = leg_encode_into(p, outb.p);
        f.assign(outb.p, outb.p + (ret > 0 ? ret : 0));
    }
    frame_oracle(a, p, f, o);
    trace t = feed_stream(codec, (unsigned)(n + 2), f);
    o.result = long_summary(f, ret, t);
    std::string want(f.size() - 1, 'C');
    want += 'N';
    if (t.sts != want) o.fail("long payload: status sequence is not C..CN");
    if (t.packets.size() != 1 || t.packets[0] != p) o.fail("long payload: decode(encode(p)) != p");
    o.tag("long-payload");
    o.tag(kind == "mark" ? "long-all-marker" : kind == "esc" ? "long-all-escape" : "long-mixed");
}

// longnoise <codec> <cap> <n> <seed>: one long noise stream (3/4 of the bytes from the marker alphabet)
static inline bytes long_noise(const alphabet &a, size_t n, uint64_t seed)
{
    const uint8_t tab[8] = {a.start, a.stop, a.stub, a.s_start, a.s_stop, a.s_stub, 0x00, 0x41};
    bytes s(n);
    uint64_t x = seed;
    for (size_t i = 0; i < n; i++)
    {
        x = (x * 1103515245ull + 12345ull) % 2147483648ull;
        uint64_t v = x / 65536;
        s[i] = v % 4 < 3 ? tab[(v / 4) % 8] : (uint8_t)((v / 4) % 256);
    }
    return s;
}
void run_longnoise(const std::vector<std::string> &w, out &o)
{
    const std::string &codec = w[1];
    unsigned cap = (unsigned)strtoul(w[2].c_str(), 0, 10);
    size_t n = strtoul(w[3].c_str(), 0, 10);
    alphabet a = alpha_by(codec);
    bytes s = long_noise(a, n, strtoull(w[4].c_str(), 0, 10));
    size_t maxsize = 0;
    trace t = feed_stream(codec, cap, s, &maxsize);
    size_t nc = 0;
    std::string others;
    for (char c : t.sts) if (c == 'C') nc++; else others.push_back(c);
    bytes all;
    for (auto &p : t.packets) { all.push_back((uint8_t)p.size()); all.insert(all.end(), p.begin(), p.end()); }
    o.result = "C" + std::to_string(nc) + " " + std::to_string(fnv((const uint8_t *)others.data(), others.size())) + " " +
               std::to_string(t.packets.size()) + " " + std::to_string(fnv(all.data(), all.size()));
    if (maxsize + 1 > (size_t)cap && maxsize > 0) o.fail("receiver stored more than capacity-1 bytes");
    sound_oracle_a(a, s, t, o);
    o.tag("long-stream");
    if (!t.packets.empty()) o.tag("packet");
    if (others.find('O') != std::string::npos) o.tag("overflow");
}

// ---- calls BEFORE main(): a static object with the earliest user init priority runs one session from its
// constructor (encoders with both shipped alphabets and a custom one, both receivers) and keeps the result; the
// op `premain` reports it.  A table or default context that the library initialised dynamically at namespace
// scope would not be initialised yet at this point.
#define PREMAIN_LINE "seq 40 16 Ea8b2c541acad/00 N I9 F Aacacadaeaeaf Eacadaea8b2c5 N S9 F V41ac A10207f7f3040 E107f20/41 N I8 F G00acad41 ls7 lf"
#include <sys/wait.h>
struct premain_runner
{
    out o;
    premain_runner()
    {
        // only in `run` mode (gen stays pure generation); in a forked child, so that a crash before main()
        // is the result of ONE op and not the end of the harness
        std::string cmd;
        if (FILE *f = fopen("/proc/self/cmdline", "r"))
        {
            char buf[512];
            size_t n = fread(buf, 1, sizeof buf, f);
            fclose(f);
            cmd.assign(buf, n);
        }
        size_t z = cmd.find('\0');
        if (z == std::string::npos || cmd.compare(z + 1, 3, "run") != 0) return;
        int fd[2];
        if (pipe(fd)) return;
        pid_t pid = fork();
        if (pid == 0)
        {
            close(fd[0]);
            out c;
            arm();
            run_seq(words(PREMAIN_LINE), c);
            std::string msg = c.result + "\t" + c.oracle + "\t" + c.tags;
            (void)!write(fd[1], msg.data(), msg.size());
            _exit(0);
        }
        close(fd[1]);
        std::string msg;
        char buf[4096];
        ssize_t n;
        while ((n = read(fd[0], buf, sizeof buf)) > 0) msg.append(buf, (size_t)n);
        close(fd[0]);
        int st = 0;
        waitpid(pid, &st, 0);
        size_t t1 = msg.find('\t'), t2 = t1 == std::string::npos ? t1 : msg.find('\t', t1 + 1);
        if (!WIFEXITED(st) || WEXITSTATUS(st) != 0 || t2 == std::string::npos)
        {
            o.result = "CRASH before-main";
            o.fail("the session run from a static constructor BEFORE main() crashed (something the encoders / receivers use is initialised dynamically at namespace scope?)");
            return;
        }
        o.result = msg.substr(0, t1);
        o.oracle = msg.substr(t1 + 1, t2 - t1 - 1);
        o.tags = msg.substr(t2 + 1);
    }
};
static premain_runner g_premain __attribute__((init_priority(101)));
void run_premain(out &o)
{
    o = g_premain.o;
    o.tag("before-main");
}
