// Legacy gstuff codec wrapper: separate translation unit because
// igris/protocols/gstuff.h and igris/protocols/gstuff_v1/gstuff.h define the
// same GSTUFF_*_V1 macro names with different values.
#include <igris/protocols/gstuff_v1/gstuff.h>
#include <igris/protocols/gstuff_v1/autorecv.h>
#include <cstdlib>
#include <cstring>
#include <vector>
#include <string>
#include <cstdint>

extern "C" void leg_constants(uint8_t out[4])
{
    out[0] = (uint8_t)GSTUFF_START_V1;
    out[1] = (uint8_t)GSTUFF_STUB_V1;
    out[2] = (uint8_t)GSTUFF_STUB_START_V1;
    out[3] = (uint8_t)GSTUFF_STUB_STUB_V1;
}

// encode into an exactly sized heap buffer of `outcap` bytes (ASan sees overflow)
std::vector<uint8_t> leg_encode(const std::vector<uint8_t> &p, size_t outcap)
{
    char *in = (char *)malloc(p.size() ? p.size() : 1);
    if (p.size()) memcpy(in, p.data(), p.size());
    char *out = (char *)malloc(outcap ? outcap : 1);
    int n = gstuffing_v1(in, (int)p.size(), out);
    std::vector<uint8_t> r(out, out + n);
    free(in);
    free(out);
    return r;
}

// feed a stream; statuses: one char per byte; packets: line (minus trailing CRC) at each NEWPACKAGE
void leg_feed(const std::vector<uint8_t> &stream, unsigned cap, std::string &sts,
              std::vector<std::vector<uint8_t>> &packets, std::vector<std::vector<uint8_t>> &rawlines,
              size_t *maxsize)
{
    struct gstuff_autorecv_v1 a;
    memset(&a, 0, sizeof a);
    // exactly sized; capacity 0 = a zero-length region at the very end of a heap block
    char *base = (char *)malloc(cap ? cap : 16);
    char *buf = cap ? base : base + 16;
    gstuff_autorecv_setbuf_v1(&a, buf, (int)cap);
    for (uint8_t b : stream)
    {
        int s = gstuff_autorecv_newchar_v1(&a, (char)b);
        char ch = '?';
        switch (s)
        {
        case GSTUFF_CONTINUE_V1: ch = 'C'; break;
        case GSTUFF_NEWPACKAGE_V1: ch = 'N'; break;
        case GSTUFF_CRC_ERROR_V1: ch = 'c'; break;
        case GSTUFF_OVERFLOW_V1: ch = 'O'; break;
        case GSTUFF_DATA_ERROR_V1: ch = 'S'; break;
        }
        sts.push_back(ch);
        if (maxsize && (size_t)sline_size(&a.line) > *maxsize) *maxsize = (size_t)sline_size(&a.line);
        if (s == GSTUFF_NEWPACKAGE_V1)
        {
            int n = sline_size(&a.line);
            const char *l = sline_getline(&a.line); // writes the terminator: must stay inside buf
            std::vector<uint8_t> raw((const uint8_t *)l, (const uint8_t *)l + n);
            rawlines.push_back(raw);
            if (n > 0) raw.pop_back();
            packets.push_back(raw);
        }
    }
    free(base);
}

// ---- round 3: one LONG-LIVED legacy receiver struct (sessions), encoder into a caller's buffer, type widths ----
static struct gstuff_autorecv_v1 g_leg;      // zero-initialised: state 0, no buffer
void leg_sess_start() { memset(&g_leg, 0, sizeof g_leg); }
void leg_sess_setbuf(uint8_t *blk, unsigned cap) { gstuff_autorecv_setbuf_v1(&g_leg, blk, (int)cap); }
void leg_sess_reset() { gstuff_autorecv_reset_v1(&g_leg); }
size_t leg_sess_size() { return (size_t)sline_size(&g_leg.line); }
// feed; `can_read`: a buffer of at least 1 byte is attached (sline_getline writes the terminator)
void leg_sess_feed(const std::vector<uint8_t> &stream, bool can_read, std::string &sts,
                   std::vector<std::vector<uint8_t>> &packets, size_t *maxsize)
{
    for (uint8_t b : stream)
    {
        int s = gstuff_autorecv_newchar_v1(&g_leg, (char)b);
        char ch = '?';
        switch (s)
        {
        case GSTUFF_CONTINUE_V1: ch = 'C'; break;
        case GSTUFF_NEWPACKAGE_V1: ch = 'N'; break;
        case GSTUFF_CRC_ERROR_V1: ch = 'c'; break;
        case GSTUFF_OVERFLOW_V1: ch = 'O'; break;
        case GSTUFF_DATA_ERROR_V1: ch = 'S'; break;
        }
        sts.push_back(ch);
        if (maxsize && (size_t)sline_size(&g_leg.line) > *maxsize) *maxsize = (size_t)sline_size(&g_leg.line);
        if (s == GSTUFF_NEWPACKAGE_V1 && can_read)
        {
            int n = sline_size(&g_leg.line);
            const char *l = sline_getline(&g_leg.line);
            std::vector<uint8_t> raw((const uint8_t *)l, (const uint8_t *)l + n);
            if (n > 0) raw.pop_back();
            packets.push_back(raw);
        }
    }
}
// gstuffing_v1 into the caller's (re-used) buffer; returns the int the encoder returned
int leg_encode_into(const std::vector<uint8_t> &p, uint8_t *out)
{
    char *in = (char *)malloc(p.size() ? p.size() : 1);
    if (p.size()) memcpy(in, p.data(), p.size());
    int n = gstuffing_v1(in, (int)p.size(), (char *)out);
    free(in);
    return n;
}
// sizeof: return type and `size` parameter of gstuffing_v1, crc and state fields of the receiver struct
template <class R, class A, class B, class C> static size_t ret_size(R (*)(A, B, C)) { return sizeof(R); }
template <class R, class A, class B, class C> static size_t arg2_size(R (*)(A, B, C)) { return sizeof(B); }
void leg_sizes(size_t out[4])
{
    out[0] = ret_size(&gstuffing_v1);
    out[1] = arg2_size(&gstuffing_v1);
    out[2] = sizeof(((struct gstuff_autorecv_v1 *)0)->crc);
    out[3] = sizeof(((struct gstuff_autorecv_v1 *)0)->state);
}
