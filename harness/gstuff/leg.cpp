// Legacy gstuff codec wrapper: separate translation unit because
// igris/protocols/gstuff.h and igris/protocols/gstuff_v1/gstuff.h define the
// same GSTUFF_*_V1 macro names with different values.
#include <igris/protocols/gstuff_v1/gstuff.h>
#include <igris/protocols/gstuff_v1/autorecv.h>
#include <cstdlib>
#include <cstring>
#include <vector>
#include <string>
#include <cstdint>

// ---- round 3b (fragility sweep): everything that is not public API named by the property is OPTIONAL ----
// The member through which callers read the packet of the legacy receiver is `line` (public struct of a
// public header, no accessor exists).  Should it be renamed, the harness still builds: the struct sline is
// then taken to be the first member of the struct (what it is in C today).
template <class T> static struct sline *leg_line(T *a)
{
    if constexpr (requires { a->line; }) return &a->line;
    else return reinterpret_cast<struct sline *>(a);
}

// The legacy alphabet: the macro names GSTUFF_*_V1 of gstuff_v1/gstuff.h are used when they exist; otherwise
// the four bytes are PROBED through the encoder (behaviour only): the frame of the empty payload starts with
// the marker; the escape byte and the two codes are read off the frames of one-byte payloads.
extern "C" void leg_constants(uint8_t out[4])
{
#if defined(GSTUFF_START_V1) && defined(GSTUFF_STUB_V1) && defined(GSTUFF_STUB_START_V1) && defined(GSTUFF_STUB_STUB_V1)
    out[0] = (uint8_t)GSTUFF_START_V1;
    out[1] = (uint8_t)GSTUFF_STUB_V1;
    out[2] = (uint8_t)GSTUFF_STUB_START_V1;
    out[3] = (uint8_t)GSTUFF_STUB_STUB_V1;
#else
    char in[1] = {0}, o[8];
    gstuffing_v1(in, 0, o);
    out[0] = (uint8_t)o[0];
    in[0] = (char)out[0];
    int n = gstuffing_v1(in, 1, o);          // marker, then (n >= 5) escape byte + code of the marker
    out[1] = n >= 5 ? (uint8_t)o[1] : 0;
    out[2] = n >= 5 ? (uint8_t)o[2] : 0;
    in[0] = (char)out[1];
    n = gstuffing_v1(in, 1, o);              // marker, escape byte + code of the escape byte
    out[3] = n >= 5 ? (uint8_t)o[2] : 0;
#endif
}

// encode into an exactly sized heap buffer of `outcap` bytes (ASan sees overflow)
std::vector<uint8_t> leg_encode(const std::vector<uint8_t> &p, size_t outcap)
{
    char *in = (char *)malloc(p.size() ? p.size() : 1);
    if (p.size()) memcpy(in, p.data(), p.size());
    char *out = (char *)malloc(outcap ? outcap : 1);
    int n = gstuffing_v1(in, (int)p.size(), out);
    std::vector<uint8_t> r(out, out + n);
    free(in);
    free(out);
    return r;
}

// feed a stream; statuses: one char per byte; packets: line (minus trailing CRC) at each NEWPACKAGE
void leg_feed(const std::vector<uint8_t> &stream, unsigned cap, std::string &sts,
              std::vector<std::vector<uint8_t>> &packets, std::vector<std::vector<uint8_t>> &rawlines,
              size_t *maxsize)
{
    struct gstuff_autorecv_v1 a;
    memset(&a, 0, sizeof a);
    // exactly sized; capacity 0 = a zero-length region at the very end of a heap block
    char *base = (char *)malloc(cap ? cap : 16);
    char *buf = cap ? base : base + 16;
    gstuff_autorecv_setbuf_v1(&a, buf, (int)cap);
    for (uint8_t b : stream)
    {
        int s = gstuff_autorecv_newchar_v1(&a, (char)b);
        char ch = '?';
        switch (s)
        {
        case GSTUFF_CONTINUE_V1: ch = 'C'; break;
        case GSTUFF_NEWPACKAGE_V1: ch = 'N'; break;
        case GSTUFF_CRC_ERROR_V1: ch = 'c'; break;
        case GSTUFF_OVERFLOW_V1: ch = 'O'; break;
        case GSTUFF_DATA_ERROR_V1: ch = 'S'; break;
        }
        sts.push_back(ch);
        if (maxsize && (size_t)sline_size(leg_line(&a)) > *maxsize) *maxsize = (size_t)sline_size(leg_line(&a));
        if (s == GSTUFF_NEWPACKAGE_V1)
        {
            int n = sline_size(leg_line(&a));
            const char *l = sline_getline(leg_line(&a)); // writes the terminator: must stay inside buf
            std::vector<uint8_t> raw((const uint8_t *)l, (const uint8_t *)l + n);
            rawlines.push_back(raw);
            if (n > 0) raw.pop_back();
            packets.push_back(raw);
        }
    }
    if (cap == 0) (void)sline_getline(leg_line(&a));   // round 3b: no terminator into a zero-length region
    free(base);
}

// ---- round 3: one LONG-LIVED legacy receiver struct (sessions), encoder into a caller's buffer, type widths ----
static struct gstuff_autorecv_v1 g_leg;      // zero-initialised: state 0, no buffer
void leg_sess_start() { memset(&g_leg, 0, sizeof g_leg); }
void leg_sess_setbuf(uint8_t *blk, unsigned cap) { gstuff_autorecv_setbuf_v1(&g_leg, blk, (int)cap); }
void leg_sess_reset() { gstuff_autorecv_reset_v1(&g_leg); }
size_t leg_sess_size() { return (size_t)sline_size(leg_line(&g_leg)); }
// feed; `can_read`: a buffer of at least 1 byte is attached (sline_getline writes the terminator)
void leg_sess_feed(const std::vector<uint8_t> &stream, bool can_read, std::string &sts,
                   std::vector<std::vector<uint8_t>> &packets, size_t *maxsize)
{
    for (uint8_t b : stream)
    {
        int s = gstuff_autorecv_newchar_v1(&g_leg, (char)b);
        char ch = '?';
        switch (s)
        {
        case GSTUFF_CONTINUE_V1: ch = 'C'; break;
        case GSTUFF_NEWPACKAGE_V1: ch = 'N'; break;
        case GSTUFF_CRC_ERROR_V1: ch = 'c'; break;
        case GSTUFF_OVERFLOW_V1: ch = 'O'; break;
        case GSTUFF_DATA_ERROR_V1: ch = 'S'; break;
        }
        sts.push_back(ch);
        if (maxsize && (size_t)sline_size(leg_line(&g_leg)) > *maxsize) *maxsize = (size_t)sline_size(leg_line(&g_leg));
        if (s == GSTUFF_NEWPACKAGE_V1 && can_read)
        {
            int n = sline_size(leg_line(&g_leg));
            const char *l = sline_getline(leg_line(&g_leg));
            std::vector<uint8_t> raw((const uint8_t *)l, (const uint8_t *)l + n);
            if (n > 0) raw.pop_back();
            packets.push_back(raw);
        }
    }
}
// gstuffing_v1 into the caller's (re-used) buffer; returns the int the encoder returned
int leg_encode_into(const std::vector<uint8_t> &p, uint8_t *out)
{
    char *in = (char *)malloc(p.size() ? p.size() : 1);
    if (p.size()) memcpy(in, p.data(), p.size());
    int n = gstuffing_v1(in, (int)p.size(), (char *)out);
    free(in);
    return n;
}
// sizeof: return type and `size` parameter of gstuffing_v1, crc and state fields of the receiver struct
template <class R, class A, class B, class C> static size_t ret_size(R (*)(A, B, C)) { return sizeof(R); }
template <class R, class A, class B, class C> static size_t arg2_size(R (*)(A, B, C)) { return sizeof(B); }
// out[0], out[1]: public signature of gstuffing_v1.  out[2], out[3]: widths of the receiver struct's `crc`
// and `state` members - internal, not fixed by the property: 0 when the members do not exist under these
// names; reported as a tag by op `sizes`, not compared
template <class T> static size_t leg_crc_size(T *a)
{
    if constexpr (requires { a->crc; }) return sizeof(a->crc);
    else return 0;
}
template <class T> static size_t leg_state_size(T *a)
{
    if constexpr (requires { a->state; }) return sizeof(a->state);
    else return 0;
}
void leg_sizes(size_t out[4])
{
    out[0] = ret_size(&gstuffing_v1);
    out[1] = arg2_size(&gstuffing_v1);
    out[2] = leg_crc_size((struct gstuff_autorecv_v1 *)0);
    out[3] = leg_state_size((struct gstuff_autorecv_v1 *)0);
}
