/* C13 round 3: the LONG_DOUBLE flavour of print_f (DOUBLE = long double, modfl / fmodl / powl): a third
   compilation of igris/util/printf_impl.c with the macro the source tests, public entry renamed.
   Round 3b: LONG_DOUBLE, DOUBLE and PRINT_F_BUFF_SZ are internal names - optional: when the source no longer has
   the switch (or calls it differently) c13_ld_const(4) is not sizeof(long double) and the harness reports the
   flavour as absent (a tag) instead of judging a double engine by long double standards. */
#define LONG_DOUBLE 1
#define __printf c13_ld_printf
#include <igris/util/printf_impl.c>
#undef __printf
#define C13_UNKNOWN (-1000000L)
long c13_ld_const(int i)
{
    switch (i)
    {
    case 0:
#ifdef PRINT_F_BUFF_SZ
        return PRINT_F_BUFF_SZ;
#else
        return C13_UNKNOWN;
#endif
    case 4:
#ifdef DOUBLE
        return (long)sizeof(DOUBLE);
#else
        return C13_UNKNOWN;
#endif
    }
    return C13_UNKNOWN;
}
