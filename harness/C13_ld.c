/* C13 round 3: the LONG_DOUBLE flavour of print_f (DOUBLE = long double, modfl / fmodl / powl): a third
   compilation of igris/util/printf_impl.c with the macro the source tests, public entry renamed. */
#define LONG_DOUBLE 1
#define __printf c13_ld_printf
#include <igris/util/printf_impl.c>
#undef __printf
long c13_ld_const(int i)
{
    switch (i)
    {
    case 0: return PRINT_F_BUFF_SZ;
    case 4: return (long)sizeof(DOUBLE);
    }
    return -1;
}
