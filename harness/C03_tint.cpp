// C03 harness: the igris::ring<int> object (`reset typed <n>`, `reset tempty`)
#include "C03_typed.h"
static TR<int> ti;
void ti_reset(long n, hv::out &o)
{
    if (n >= 0)
    {
        ti.t.reset(new igris::ring<int>((int)n));
        ti.q.clear(); ti.check(o);
    }
    else
    { // default-constructed ring (size 0, no storage): only resize() may follow
        ti.t.reset(new igris::ring<int>());
        ti.q.clear();
        o.tag("default-ctor");
    }
    o.result = "- " + ti.state();
}
void ti_run(const std::vector<std::string> &w, hv::out &o) { ti.run(w, o); }
