// C15 harness: line editor (sline), readline automaton + history, terminal
// automaton (vterm) of both families (C structs / C++ classes) against the
// Lean model IgrisModel/C15, with an independent reference editor and a VT100
// screen interpreter as oracle.
//
// ops (all stateless: one op = one whole session)
//   consts
//   sl  <c|x> <cap> <op>...                    p<hh> n<hex> b<n> d<n> l r z g e<hex>
//   rl  <c|x> <cap> <depth> <keys-hex>
//   vt  <c|x> <cap> <depth> <echo> <keys-hex>
//   vtx <c|x> <cap> <depth> <alpha> <L> <prefix-hex>   digest over a tree of key sequences
//   lc  <c|x> <cap> <depth> <maxlen> <keys-hex>        keys, then readline_linecpy into exactly maxlen bytes
// (ext) sl tokens: N<int>:<hex> sline_newdata with the int length as given; c igris::sline::clear;
//                  s<len>,<cur> igris::sline::set_size_and_cursor
#include "common/hv.h"
#include "C15/iface.h"
#include <deque>
#include <memory>
#include <functional>

#include <sys/mman.h>
#include <igris/datastruct/sline.h>
#include <igris/defs/vt100.h>
#include <igris/shell/vterm.h>

static_assert(sizeof(void *) == 8 && (char)-1 < 0, "LP64, char signed");

using hv::hex;
using hv::out;
using namespace c15;

// ===================================================================== C family
namespace c15
{
    struct sline_c : isline
    {
        hv::exact_buf b;
        struct sline s;
        // (a 0-byte buffer is placed at the very end of a 1-byte allocation: any store through it is seen;
        //  a buffer of 2^24 bytes and more is mapped lazily: only the pages the line touches exist)
        void *big = 0;
        size_t bigsz = 0;
        sline_c(unsigned cap) : b(cap > (1u << 24) ? 1 : (size_t)cap, cap ? 0 : 1)
        {
            if (cap > (1u << 24))
            {
                bigsz = cap;
                big = mmap(0, bigsz, PROT_READ | PROT_WRITE, MAP_PRIVATE | MAP_ANONYMOUS | MAP_NORESERVE, -1, 0);
                if (big == MAP_FAILED) abort();
                sline_init(&s, (char *)big, cap);
            }
            else
                sline_init(&s, (char *)b.p, cap);
        }
        ~sline_c() { if (big) munmap(big, bigsz); }
        int putchar(uint8_t c) override { return sline_putchar(&s, (char)c); }
        int newdata(const std::string &d, bool &has_ret) override
        {
            has_ret = true;
            hv::exact_buf src(std::vector<uint8_t>(d.begin(), d.end()));
            return sline_newdata(&s, (const char *)src.p, (int)d.size());
        }
        int newdata_n(const std::string &d, int n, bool &has_ret) override
        {
            has_ret = true;
            hv::exact_buf src(std::vector<uint8_t>(d.begin(), d.end()));
            return sline_newdata(&s, (const char *)src.p, n);
        }
        bool clear() override { return false; }
        bool set_size_cursor(unsigned, unsigned) override { return false; }
        int backspace(unsigned n) override { return sline_backspace(&s, n); }
        int del(unsigned n) override { return sline_delete(&s, n); }
        int backspace_i(int n) override { return sline_backspace(&s, (unsigned int)n); }
        int del_i(int n) override { return sline_delete(&s, (unsigned int)n); }
        int left() override { return sline_left(&s); }
        int right() override { return sline_right(&s); }
        void reset() override { sline_reset(&s); }
        std::string getline() override
        {
            const char *p = sline_getline(&s);
            return s.cap ? std::string(p) : std::string(); // no buffer: nothing to read
        }
        bool equal(const std::string &str) override
        {
            hv::exact_buf z(std::vector<uint8_t>(str.c_str(), str.c_str() + str.size() + 1));
            return sline_equal(&s, (const char *)z.p);
        }
        unsigned len() override { return s.len; }
        unsigned cursor() override { return s.cursor; }
        std::string text() override { return std::string(s.buf, s.len); }
    };
    isline *make_sline_c(unsigned cap) { return new sline_c(cap); }

    struct readline_c : ireadline
    {
        hv::exact_buf b, h;
        struct readline rl;
        unsigned depth;
        readline_c(unsigned cap, unsigned depth_) : b((size_t)cap, cap ? 0 : 1), h((size_t)cap * depth_, cap ? 0 : 1), depth(depth_)
        {
            readline_init(&rl, (char *)b.p, cap);
            if (depth)
                readline_history_init(&rl, (char *)h.p, (int)depth);
        }
        int putchar(uint8_t c) override { return readline_putchar(&rl, (char)c); }
        void newline_reset() override { readline_newline_reset(&rl); }
        unsigned len() override { return rl.line.len; }
        unsigned cursor() override { return rl.line.cursor; }
        std::string text() override { return std::string(rl.line.buf, rl.line.len); }
        int linecpy(char *dst, size_t maxlen) override { return readline_linecpy(&rl, dst, maxlen); }
        int state() override { return C15_CANON_RSTATE(rl.state); }
        std::string tail() override
        {
            // the ring as the C strings its slots hold (round 3: the bytes behind a slot's terminator are not
            // fixed by the property - a push that clears the slot first is as good)
            std::string slots;
            unsigned cap = rl.line.cap;
            for (unsigned i = 0; i < depth && cap; i++)
            {
                size_t n = strnlen((const char *)h.p + (size_t)i * cap, cap);
                slots += (i ? "." : "") + hex(h.p + (size_t)i * cap, n);
            }
            return " H" + std::to_string(rl.headhist) + "," + std::to_string(rl.curhist) + "," + std::to_string(C15_CANON_RSTATE(rl.state)) +
                   "," + (depth && cap ? slots : std::string("-"));
        }
    };
    ireadline *make_readline_c(unsigned cap, unsigned depth) { return new readline_c(cap, depth); }

    struct vterm_c : ivterm
    {
        hv::exact_buf b, h;
        struct vterm_automate v;
        static void on_write(void *p, const char *d, unsigned n) { ((vterm_c *)p)->echoed.append(d, n); }
        static void on_exec(void *p, const char *d, unsigned n)
        {
            ((vterm_c *)p)->evs.push_back(ev{true, std::string(d, n), d[n] == 0});
        }
        static void on_sig(void *p, int) { ((vterm_c *)p)->evs.push_back(ev{false, "", true}); }
        vterm_c(unsigned cap, unsigned depth, bool echo) : b((size_t)cap), h((size_t)cap * depth)
        {
            vterm_automate_init(&v, (char *)b.p, cap, (char *)h.p, depth);
            v.echo = echo ? 1 : 0;
            vterm_set_write_callback(&v, on_write, this);
            vterm_set_execute_callback(&v, on_exec, this);
            vterm_set_signal_callback(&v, on_sig, this);
        }
        void init_step() override { vterm_automate_init_step(&v); }
        void key(uint8_t c) override { vterm_automate_newdata(&v, (int16_t)c); }
        void key16(int16_t c) override { vterm_automate_newdata(&v, c); }
        std::string pstore;
        void set_prompt(const std::string &p) override { pstore = p; v.prefix_string = pstore.c_str(); } // the C API has no setter
        void set_echo(bool e) override { v.echo = e ? 1 : 0; }
        // internals of struct vterm_automate (round 3b: optional, see iface.h).  `rl.line` with buf / len / cursor
        // and `rl.state` are the state the property's record names; `state` of the terminal itself is not.
        template <class V> static constexpr bool vis = requires(V &x) { x.rl.line.len; x.rl.line.cursor; x.rl.line.buf; };
        template <class V> static int st_of(V &x)
        {
            if constexpr (requires { (int)x.state; }) return (int)x.state;
            else return NOT_VISIBLE;
        }
        template <class V> static int rst_of(V &x)
        {
            if constexpr (requires { (int)x.rl.state; }) return C15_CANON_RSTATE((int)x.rl.state);
            else return NOT_VISIBLE;
        }
        template <class V> static unsigned len_of(V &x) { if constexpr (vis<V>) return x.rl.line.len; else return 0; }
        template <class V> static unsigned cur_of(V &x) { if constexpr (vis<V>) return x.rl.line.cursor; else return 0; }
        template <class V> static std::string text_of(V &x)
        {
            if constexpr (vis<V>) return std::string(x.rl.line.buf, x.rl.line.len);
            else return std::string();
        }
        bool line_visible() override { return vis<struct vterm_automate>; }
        int state() override { return st_of(v); }
        int rlstate() override { return rst_of(v); }
        unsigned len_() override { return len_of(v); }
        unsigned cursor_() override { return cur_of(v); }
        std::string text_() override { return text_of(v); }
    };
    ivterm *make_vterm_c(unsigned cap, unsigned depth, bool echo) { return new vterm_c(cap, depth, echo); }

    std::string consts_c()
    {
        char b1[16], b2[16], b3[16];
        int n1 = vt100_left(b1, 1), n2 = vt100_left(b2, 12), n3 = vt100_left(b3, 1234567890);
        std::string s = hex(std::string(VT100_LEFT)) + " " + hex(std::string(VT100_RIGHT)) + " " +
                        hex(std::string(VT100_ERASE_LINE_AFTER_CURSOR)) + " " + hex(std::string(b1, n1)) + " " +
                        hex(std::string(b2, n2)) + " " + hex(std::string(b3, n3));
        int codes[] = {READLINE_OVERFLOW, READLINE_NOTHING, READLINE_ECHOCHAR, READLINE_NEWLINE, READLINE_BACKSPACE,
                       READLINE_DELETE, READLINE_UPDATELINE, READLINE_LEFT, READLINE_RIGHT};
        for (int c : codes)
            s += " " + std::to_string(c);
        return s;
    }
}

namespace c15
{
    // Constants the model embeds (Drv.lean consts2Line).  Round 3b: the COMPARED result holds only what the public
    // interface fixes - the width of the `int16_t` key parameter, of the `unsigned int` count parameter of
    // sline_backspace / sline_delete and of the `int` length of sline_newdata (read from the function types),
    // VTERM_INIT_STEP, the signedness of char, the bytes vt100_left needs for INT_MAX.  The widths of struct fields
    // and the numbers behind READLINE_STATE_* are not fixed by the property (a widened counter or renumbered state
    // is a harmless change): they are reported as TAGS (w-<field>=<bytes>, 0 = the field cannot be named).
    template <class F> struct arg2;
    template <class R, class A, class B> struct arg2<R (*)(A, B)> { typedef B type; };
    template <class F> struct arg3;
    template <class R, class A, class B, class C> struct arg3<R (*)(A, B, C)> { typedef C type; };
#define C15_FIELD_SIZE(obj, f) ([](auto &o_) -> size_t { if constexpr (requires { sizeof(o_.f); }) return sizeof(o_.f); else return 0; }(obj))
    std::string consts2_c(std::string &tags)
    {
        struct sline sl;
        struct readline rl;
        struct vterm_automate vt;
        char b[16];
        int n = vt100_left(b, 2147483647);
        std::string s;
        s += std::to_string(sizeof(arg2<decltype(&vterm_automate_newdata)>::type)) + " ";
        s += std::to_string(sizeof(arg2<decltype(&sline_backspace)>::type)) + " " + std::to_string(sizeof(arg2<decltype(&sline_delete)>::type)) + " ";
        s += std::to_string(sizeof(arg3<decltype(&sline_newdata)>::type)) + " ";
        s += std::to_string(VTERM_INIT_STEP) + " " + std::to_string((char)-1 < 0 ? 1 : 0) + " " + std::to_string(n);
        auto w = [&](const char *name, size_t x) { tags += std::string(tags.empty() ? "" : ",") + "w-" + name + "=" + std::to_string(x); };
        w("cap", C15_FIELD_SIZE(sl, cap)); w("len", C15_FIELD_SIZE(sl, len)); w("cursor", C15_FIELD_SIZE(sl, cursor));
        w("rl.state", C15_FIELD_SIZE(rl, state)); w("rl.last", C15_FIELD_SIZE(rl, last)); w("rl.lastsize", C15_FIELD_SIZE(rl, lastsize));
        w("history_size", C15_FIELD_SIZE(rl, history_size)); w("headhist", C15_FIELD_SIZE(rl, headhist)); w("curhist", C15_FIELD_SIZE(rl, curhist));
        w("vt.state", C15_FIELD_SIZE(vt, state)); w("vt.echo", C15_FIELD_SIZE(vt, echo));
        tags += ",rstate-numbers=" + std::to_string(READLINE_STATE_NORMAL) + "/" + std::to_string(READLINE_STATE_ESCSEQ) + "/" +
                std::to_string(READLINE_STATE_ESCSEQ_MOVE) + "/" + std::to_string(READLINE_STATE_ESCSEQ_MOVE_WAIT_7E);
        tags += "," + consts2_x();
        (void)sl; (void)rl; (void)vt;
        return s;
    }
}

// ================================================================== the oracle
// Reference editor: two strings around the cursor, a capacity, a list of
// remembered lines.  Written from the key semantics, shares nothing with igris.
struct ref_editor
{
    size_t cap, depth;
    bool ctrlc; // terminal level: 0x03 aborts the line; readline level: 0x03 is a character
    std::string left, right;
    std::deque<std::string> hist; // most recent first, always `depth` entries (empty lines at first)
    size_t browse = 0;            // 0: editing; k: showing the k-th most recent line
    int esc = 0;                  // 0 text, 1 after ESC, 2 after ESC [, 3 after ESC [ 3
    uint8_t prev = 0;             // previous byte (0 after the swallowed half of a CR LF pair)

    ref_editor(size_t cap_, size_t depth_, bool ctrlc_) : cap(cap_), depth(depth_), ctrlc(ctrlc_), hist(depth_, std::string()) {}
    std::string line() const { return left + right; }
    size_t len() const { return left.size() + right.size(); }
    void load(const std::string &s)
    {
        left = s;
        right.clear();
    }
    void fresh_line()
    {
        left.clear();
        right.clear();
        browse = 0;
        esc = 0;
    }
    // returns: 0 nothing, 1 line accepted (in `accepted`), 2 interrupt
    int key(uint8_t c, std::string &accepted)
    {
        if (ctrlc && c == 3)
        {
            fresh_line();
            return 2;
        }
        switch (esc)
        {
        case 1:
            esc = (c == '[') ? 2 : 0;
            prev = c;
            return 0;
        case 2:
            esc = 0;
            prev = c;
            switch (c)
            {
            case 'A':
                if (depth && browse < depth)
                    load(hist[browse++]);
                break;
            case 'B':
                if (depth && browse > 0)
                {
                    browse--;
                    load(browse ? hist[browse - 1] : std::string());
                }
                break;
            case 'C':
                if (!right.empty())
                {
                    left.push_back(right[0]);
                    right.erase(0, 1);
                }
                break;
            case 'D':
                if (!left.empty())
                {
                    right.insert(right.begin(), left.back());
                    left.pop_back();
                }
                break;
            case '3':
                if (!right.empty())
                    right.erase(0, 1);
                esc = 3;
                break;
            }
            return 0;
        case 3:
            esc = 0;
            prev = c;
            return 0;
        }
        if (c == '\r' || c == '\n')
        {
            if ((prev == '\r' || prev == '\n') && prev != c)
            {
                prev = 0;
                return 0;
            }
            prev = c;
            accepted = line();
            if (depth && !accepted.empty() && accepted != hist[0])
            {
                // remembered as a C string: up to the first NUL (a NUL can be typed, it is not a key of the property)
                hist.push_front(accepted.substr(0, accepted.find('\0')));
                hist.pop_back();
            }
            browse = 0;
            return 1;
        }
        prev = c;
        if (c == 8)
        {
            if (!left.empty())
                left.pop_back();
        }
        else if (c == 27)
            esc = 1;
        else if (len() + 1 < cap)
            left.push_back((char)c);
        return 0;
    }
};

// VT100 interpreter for one row: enough for what a line editor may send.
struct ref_screen
{
    std::string row;
    size_t col = 0;
    int st = 0;
    long arg = -1;
    bool unknown = false; // saw something this interpreter does not understand
    void put(uint8_t b)
    {
        switch (st)
        {
        case 0:
            if (b == 27)
                st = 1;
            else if (b == '\r')
                col = 0;
            else if (b == '\n')
                row.clear();
            else if (b >= 0x20 && b <= 0x7e)
            {
                if (col > row.size())
                    row.append(col - row.size(), ' ');
                if (col == row.size())
                    row.push_back((char)b);
                else
                    row[col] = (char)b;
                col++;
            }
            else
                unknown = true;
            break;
        case 1:
            if (b == '[')
            {
                st = 2;
                arg = -1;
            }
            else
            {
                st = 0;
                unknown = true;
            }
            break;
        case 2:
            if (b >= '0' && b <= '9')
                arg = (arg < 0 ? 0 : arg) * 10 + (b - '0');
            else
            {
                long n = arg <= 0 ? 1 : arg;
                if (b == 'D')
                    col = (size_t)n > col ? 0 : col - n;
                else if (b == 'C')
                    col += n;
                else if (b == 'K')
                {
                    if (col < row.size())
                        row.resize(col);
                }
                else
                    unknown = true;
                st = 0;
            }
            break;
        }
    }
    void feed(const std::string &s)
    {
        for (unsigned char c : s)
            put(c);
    }
};

// A terminal with W columns and auto-wrap (xterm / VT100 with DECAWM on), as a grid: a glyph in the last column
// leaves the cursor there with the wrap pending; the next glyph goes to column 0 of the next row.  CUB / CUF stay on
// the row.  Written on its own (grid + cursor), shares nothing with the Lean WScreen.
struct wterm
{
    size_t W;
    std::vector<std::string> grid{std::string()};
    size_t r = 0, c = 0;
    bool pend = false;
    int st = 0;
    long arg = -1;
    explicit wterm(size_t w) : W(w) {}
    void glyph(char b)
    {
        if (pend)
        {
            r++;
            if (r == grid.size()) grid.push_back(std::string());
            c = 0;
            pend = false;
        }
        std::string &row = grid[r];
        if (c > row.size()) row.append(c - row.size(), ' ');
        if (c == row.size()) row.push_back(b);
        else row[c] = b;
        if (c + 1 < W) c++;
        else pend = true;
    }
    void put(uint8_t b)
    {
        if (st == 0)
        {
            if (b == 27) st = 1;
            else if (b == '\r') { c = 0; pend = false; }
            else if (b == '\n')
            {
                r++;
                if (r == grid.size()) grid.push_back(std::string());
                pend = false;
            }
            else if (b == 8) { if (c) c--; pend = false; }
            else if (b >= 0x20 && b <= 0x7e) glyph((char)b);
        }
        else if (st == 1)
        {
            if (b == '[') { st = 2; arg = -1; }
            else st = 0;
        }
        else
        {
            if (b >= '0' && b <= '9') arg = (arg < 0 ? 0 : arg) * 10 + (b - '0');
            else
            {
                size_t n = arg <= 0 ? 1 : (size_t)arg;
                if (b == 'D') { c = n > c ? 0 : c - n; pend = false; }
                else if (b == 'C') { c = c + n < W ? c + n : W - 1; pend = false; }
                else if (b == 'K') { if (c < grid[r].size()) grid[r].resize(c); }
                st = 0;
            }
        }
    }
    void feed(const std::string &s) { for (unsigned char ch : s) put(ch); }
    std::string show() const { return std::to_string(r) + "," + std::to_string(c) + "," + (pend ? "1" : "0") + "," + hex(grid[r]); }
};

// Second, decoder-free oracle (the grammar of lean/IgrisModel/C15/Keys.lean): the typed bytes are cut into key
// presses (level 1: Enter = CR | LF | CR LF | LF CR, Ctrl-C transparent for the pairing; level 2: ESC [ A/B/C/D,
// ESC [ 3 x, unknown ESC x / ESC [ x ignored, Ctrl-C aborts a sequence) and a key-press editor consumes them.
// No escape state, no "previous byte": the whole session is parsed at once.
struct key_editor
{
    size_t cap, depth;
    std::string left, right;
    std::deque<std::string> hist;
    size_t browse = 0;
    std::vector<std::string> events; // "X<hex>" / "S"
    key_editor(size_t c, size_t d) : cap(c), depth(d), hist(d, std::string()) {}
    enum { NL = -1, INTR = -2 };
    void fresh() { left.clear(); right.clear(); browse = 0; }
    void run(const std::string &bytes)
    {
        std::vector<int> sy;
        int pair = -1; // the byte that would be the second half of the Enter just seen
        for (unsigned char c : bytes)
        {
            if (c == 3) sy.push_back(INTR);
            else if (c == '\r' || c == '\n')
            {
                if (pair == c) pair = -1;
                else { sy.push_back(NL); pair = c == '\r' ? '\n' : '\r'; }
            }
            else { sy.push_back(c); pair = -1; }
        }
        size_t i = 0, n = sy.size();
        auto intr = [&]() { fresh(); events.push_back("S"); };
        while (i < n)
        {
            int s = sy[i++];
            if (s == INTR) intr();
            else if (s == NL)
            {
                std::string l = left + right;
                events.push_back("X" + hex(l));
                if (depth && !l.empty() && l != hist[0]) { hist.push_front(l.substr(0, l.find('\0'))); hist.pop_back(); }
                fresh();
            }
            else if (s == 8) { if (!left.empty()) left.pop_back(); }
            else if (s != 27) { if (left.size() + right.size() + 1 < cap) left.push_back((char)s); }
            else
            {
                if (i == n) break;
                int d = sy[i++];
                if (d == INTR) { intr(); continue; }
                if (d != '[') continue; // unknown ESC x (x may be Enter)
                if (i == n) break;
                int e = sy[i++];
                if (e == INTR) { intr(); continue; }
                switch (e)
                {
                case 'A': if (depth && browse < depth) { left = hist[browse++]; right.clear(); } break;
                case 'B': if (depth && browse > 0) { browse--; left = browse ? hist[browse - 1] : std::string(); right.clear(); } break;
                case 'C': if (!right.empty()) { left.push_back(right[0]); right.erase(0, 1); } break;
                case 'D': if (!left.empty()) { right.insert(right.begin(), left.back()); left.pop_back(); } break;
                case '3':
                    if (!right.empty()) right.erase(0, 1);
                    if (i < n) { if (sy[i] == INTR) intr(); i++; }
                    break;
                default: break; // unknown ESC [ x
                }
            }
        }
    }
};


static bool screen_safe(uint8_t c) { return (c >= 0x20 && c <= 0x7e) || c == 8 || c == 13 || c == 10 || c == 27 || c == 3; }

// one terminal session: implementation, reference editor and screen side by side
struct session
{
    std::unique_ptr<ivterm> v;
    ref_editor ref;
    ref_screen scr;
    bool cxx, echo, safe = true, pending_prompt = true; // nothing is printed before the first call
    unsigned cap;
    std::string prompt_now = "$ ", PROMPT = "$ "; // what set_prompt stored last / what the current row starts with
    std::string fail;
    bool want_record = true;
    unsigned tagbits = 0;
    static const char *tagname(int i)
    {
        static const char *N[] = {"enter-empty", "enter-line", "ctrl-c", "hist-recall", "hist-recall-deep", "recall-cursor-midline",
                                  "hist-recall-nonempty", "midline-redraw", "full-line-key", "crlf-pair", "delete-key", 0};
        return N[i];
    }
    void tag(const char *t)
    {
        for (int i = 0; tagname(i); i++)
            if (!strcmp(tagname(i), t))
                tagbits |= 1u << i;
    }
    static std::string tagstr(unsigned bits)
    {
        std::string r;
        for (int i = 0; tagname(i); i++)
            if (bits & (1u << i))
                r += std::string(r.empty() ? "" : ",") + tagname(i);
        return r;
    }
    void bad(const std::string &w, const std::string &keys)
    {
        if (fail.empty())
            fail = w + " after keys " + hex(keys);
    }
    std::string keys;
    std::vector<std::string> allev; // every callback event of the session, in order
    bool last_accept = false;
    // the whole session against the key grammar (decoder-free oracle)
    void check_grammar(unsigned depth)
    {
        key_editor ke(cap, depth);
        ke.run(keys);
        if (ke.events != allev)
        {
            size_t i = 0;
            while (i < ke.events.size() && i < allev.size() && ke.events[i] == allev[i]) i++;
            bad("callback event #" + std::to_string(i) + " is " + (i < allev.size() ? allev[i] : std::string("missing")) +
                    ", the key grammar expects " + (i < ke.events.size() ? ke.events[i] : std::string("none")),
                keys);
        }
        else if (!(cxx && last_accept) && (v->text() != ke.left + ke.right || v->cursor() != ke.left.size()))
            bad("final line / cursor differ from the key-press editor's '" + hex(ke.left + ke.right) + "' / " + std::to_string(ke.left.size()), keys);
    }
    session(bool cxx_, unsigned cap_, unsigned depth, bool echo_)
        : v(cxx_ ? make_vterm_x(cap_, depth, echo_) : make_vterm_c(cap_, depth, echo_)), ref(cap_, depth, true), cxx(cxx_), echo(echo_), cap(cap_)
    {
    }
    static bool printable(const std::string &p)
    {
        for (unsigned char ch : p) if (ch < 0x20 || ch > 0x7e) return false;
        return true;
    }
    void set_prompt(const std::string &p)
    {
        prompt_now = p;
        v->set_prompt(p);
    }
    void set_echo(bool e)
    {
        echo = e;
        safe = false; // the screen has missed (or will miss) output: only lines, events, bounds are judged from here on
        v->set_echo(e);
    }
    void prompt_printed()
    {
        PROMPT = prompt_now;
        if (!printable(PROMPT)) safe = false; // a prompt the screen cannot show (witness theorem)
    }
    std::string init_step()
    {
        v->echoed.clear();
        v->evs.clear();
        bool owed = pending_prompt;
        v->init_step();
        if (owed) prompt_printed();
        pending_prompt = false;
        if (!v->evs.empty()) bad("callback event during an init step", keys);
        if (echo ? v->echoed != (owed ? PROMPT : std::string()) : !v->echoed.empty())
            bad("init step wrote '" + hex(v->echoed) + "'", keys);
        scr.feed(v->echoed);
        check_screen();
        return v->echoed;
    }
    void check_screen()
    {
        if (!echo || !safe)
            return;
        std::string want = (pending_prompt ? std::string() : PROMPT) + ref.line();
        size_t wcol = (pending_prompt ? 0 : PROMPT.size()) + ref.left.size();
        if (scr.unknown)
            bad("terminal output contains a sequence outside {printable, CR, LF, ESC[nD, ESC[nC, ESC[K}", keys);
        else if (scr.row != want)
            bad("screen row '" + scr.row + "' != prompt + line '" + want + "'", keys);
        else if (scr.col != wcol)
            bad("screen cursor column " + std::to_string(scr.col) + " != " + std::to_string(wcol), keys);
    }
    // returns the canonical record of this key.  mode 0: (int16_t)(unsigned char)c; mode 1: the byte held in a
    // `char` and passed as it is (what igris' own callers do); mode 2: the int16_t `raw` (c = its low 8 bits)
    std::string key(uint8_t c, int mode = 0, int16_t raw = 0)
    {
        if (pending_prompt) prompt_printed(); // the call starts with the prologue
        keys.push_back((char)c);
        if (!screen_safe(c))
            safe = false;
        v->echoed.clear();
        v->evs.clear();
        size_t hist_browse_before = ref.browse;
        bool midline = !ref.right.empty();
        bool full = ref.len() + 1 >= cap;
        int esc_before = ref.esc;
        size_t cur_before = ref.left.size();
        if (mode == 0) v->key(c);
        else if (mode == 1)
        {
            char ch = (char)c;
            v->key16(ch);
        }
        else v->key16(raw);
        for (auto &e : v->evs) allev.push_back(e.exec ? "X" + hex(e.line) : std::string("S"));
        std::string acc;
        int r = ref.key(c, acc);
        last_accept = r == 1;
        // ---- events
        std::string es;
        if (want_record)
        {
            for (auto &e : v->evs)
                es += std::string(es.empty() ? "" : "+") + (e.exec ? "X" + hex(e.line) : "S");
            if (es.empty())
                es = "-";
        }
        if (r == 1)
        {
            if (v->evs.size() != 1 || !v->evs[0].exec)
                bad("Enter did not produce exactly one execute callback", keys);
            else
            {
                if (v->evs[0].line != acc)
                    bad("line handed to execute '" + hex(v->evs[0].line) + "' != reference editor's '" + hex(acc) + "'", keys);
                if (!v->evs[0].nul_ok)
                    bad("line handed to execute is not NUL-terminated", keys);
            }
            tag(acc.empty() ? "enter-empty" : "enter-line");
        }
        else if (r == 2)
        {
            if (v->evs.size() != 1 || v->evs[0].exec)
                bad("Ctrl-C did not produce exactly one SIGINT", keys);
            tag("ctrl-c");
        }
        else if (!v->evs.empty())
            bad("callback event on a key that neither accepts nor aborts the line", keys);
        // after accept / abort the terminal starts a fresh line
        if (r == 1)
            ref.fresh_line();
        // ---- the automata stay in their enumerated states (the `default:` branches are dead); judged when the
        //      state fields can be named (the escape state by the READLINE_STATE_* names, not their numbers)
        {
            int st = v->state(), rs = v->rlstate();
            if (st != NOT_VISIBLE && !(st == 2 || (cxx && r == 1 && st == 1)))
                bad("terminal automaton state " + std::to_string(st) + " after a key", keys);
            if (rs != NOT_VISIBLE && (rs < 0 || rs > 3 || rs != ref.esc))
                bad("readline escape state " + std::to_string(rs) + " != reference decoder's " + std::to_string(ref.esc), keys);
        }
        // ---- editor state (the line is not visible: the record carries the reference's values, the terminal is
        //      judged by its callbacks and its output)
        if (!v->line_visible())
        {
            if (cxx && r == 1) v->shadow((unsigned)acc.size(), (unsigned)cur_before, acc);
            else v->shadow((unsigned)ref.len(), (unsigned)ref.left.size(), ref.line());
        }
        unsigned len = v->len(), cur = v->cursor();
        if (!(cur <= len && len < cap))
            bad("bounds: cursor " + std::to_string(cur) + " len " + std::to_string(len) + " cap " + std::to_string(cap), keys);
        else if (cxx && r == 1)
        {
            // igris::vtermxx returns right after the execute callback: the line is
            // reset (and the prompt printed) at the start of the next call
            if (v->text() != acc)
                bad("edit buffer after Enter != accepted line", keys);
        }
        else if (v->text() != ref.line())
            bad("edit buffer '" + hex(v->text()) + "' != reference line '" + hex(ref.line()) + "'", keys);
        else if (cur != ref.left.size())
            bad("cursor " + std::to_string(cur) + " != reference cursor " + std::to_string(ref.left.size()), keys);
        // ---- echo off: the write callback is never used
        if (!echo && !v->echoed.empty())
            bad("echo is off but " + std::to_string(v->echoed.size()) + " bytes were written", keys);
        // ---- screen
        pending_prompt = cxx && r == 1;
        if (r == 2 || (r == 1 && !cxx)) prompt_printed(); // the new prompt ends this call's output
        scr.feed(v->echoed);
        check_screen();
        // ---- coverage markers
        if (ref.browse != hist_browse_before && ref.browse)
        {
            tag("hist-recall");
            if (ref.browse >= 2)
                tag("hist-recall-deep");
            if (midline)
                tag("recall-cursor-midline");
            if (!ref.line().empty())
                tag("hist-recall-nonempty");
        }
        if (midline && v->echoed.size() > 3)
            tag("midline-redraw");
        if (full && c >= 0x20 && c < 0x7f && esc_before == 0 && r == 0)
            tag("full-line-key");
        if (r == 0 && (c == '\r' || c == '\n') && ref.prev == 0)
            tag("crlf-pair");
        if (ref.esc == 3)
            tag("delete-key");
        if (!want_record)
            return std::string();
        return std::to_string(len) + "," + std::to_string(cur) + "," + hex(v->echoed) + "," + es;
    }
};

// ------------------------------------------------------------- FNV-1a digest
struct fnv
{
    uint64_t h = 0xcbf29ce484222325ull;
    void b(unsigned x) { h = (h ^ (uint64_t)(x & 255)) * 0x100000001b3ull; }
    void bytes(const std::string &s)
    {
        b((unsigned)s.size());
        for (unsigned char c : s)
            b(c);
    }
    void key(ivterm &v)
    {
        b(v.len());
        b(v.cursor());
        bytes(v.echoed);
        b((unsigned)v.evs.size());
        for (auto &e : v.evs)
            if (e.exec)
            {
                b(1);
                bytes(e.line);
            }
            else
                b(2);
    }
};

static const std::vector<std::string> ALPHA_BYTES = {"a", "b", "\x08", "\r", "\n", "\x1b", "[", "A", "B", "C", "D", "3", "~", "\x03", "x"};
static const std::vector<std::string> ALPHA_KEYS = {"a", "b", "\x08", "\r", "\n", "\x1b[A", "\x1b[B", "\x1b[D", "\x1b[C", "\x1b[3~", "\x03"};

// ===================================================================== run
// which region of the count parameter an op reached (round 3b: the whole range of the C type)
static void count_tags(out &o, const char *what, unsigned n, size_t cursor, size_t there, bool as_int)
{
    std::string w(what);
    if (n == there) o.tag((w + "-count-exact").c_str());
    if ((size_t)n == there + 1) o.tag((w + "-count-one-more").c_str());
    if (n > 0x7fffffffu) o.tag((w + "-count-gt-INT_MAX").c_str());
    if (n == 0xffffffffu) o.tag((w + "-count-UINT_MAX").c_str());
    if (cursor && (uint64_t)cursor + n > 0xffffffffull) o.tag((w + "-cursor+count-wraps").c_str());
    if (as_int) o.tag((w + ((int)n < 0 ? "-int-negative" : "-int")).c_str());
}

static void run_sl(const std::vector<std::string> &w, out &o)
{
    bool cxx = w[1] == "x";
    unsigned cap = (unsigned)strtoul(w[2].c_str(), 0, 10);
    std::unique_ptr<isline> s(cxx ? make_sline_x(cap) : make_sline_c(cap));
    std::string L, R; // reference zipper
    std::string res;
    for (size_t i = 3; i < w.size(); i++)
    {
        const std::string &t = w[i];
        std::string arg = t.substr(1), ret = "0";
        auto fail = [&](const std::string &why) { o.fail(why + " at op " + std::to_string(i - 3) + " (" + t + ")"); };
        switch (t[0])
        {
        case 'p':
        {
            uint8_t c = hv::unhex(arg)[0];
            int r = s->putchar(c);
            int want = L.size() + R.size() + 1 < cap ? 1 : 0;
            if (want)
                L.push_back((char)c);
            else
                o.tag("putchar-full");
            if (r != want) fail("putchar result");
            if (want && !R.empty()) o.tag("insert-midline");
            ret = std::to_string(r);
            break;
        }
        case 'n':
        {
            auto d = hv::unhex(arg);
            std::string ds(d.begin(), d.end());
            bool has = false;
            int r = s->newdata(ds, has);
            size_t room = cap ? cap - 1 - (L.size() + R.size()) : 0;
            size_t k = std::min(room, ds.size());
            L += ds.substr(0, k);
            if (has && r != (int)k) fail("newdata result");
            if (k < ds.size()) o.tag("newdata-clamped");
            if (k && !R.empty()) o.tag("bulk-insert-midline");
            if (L.size() + R.size() + 1 == cap) o.tag("line-full");
            ret = has ? std::to_string(r) : "v";
            break;
        }
        case 'N':
        {
            // N<int>:<hex>  sline_newdata(data, len) with an explicit length: negative, zero, or a prefix of the data
            size_t colon = arg.find(':');
            int n = atoi(arg.substr(0, colon).c_str());
            auto d = hv::unhex(arg.substr(colon + 1));
            std::string ds(d.begin(), d.end());
            bool has = false;
            int r = s->newdata_n(ds, n, has);
            size_t room = cap ? cap - 1 - (L.size() + R.size()) : 0;
            size_t k = n <= 0 ? 0 : std::min(room, (size_t)n);
            L += ds.substr(0, k);
            if (has && r != (int)k) fail("newdata result " + std::to_string(r) + ", " + std::to_string(k) + " characters fit");
            if (n < 0) o.tag("newdata-negative-len");
            if (n == 0) o.tag("newdata-zero-len");
            if (k && !R.empty()) o.tag("bulk-insert-midline");
            ret = has ? std::to_string(r) : "v";
            break;
        }
        case 'Z':
        {
            // Z<size>:<hex>  igris::sline::newdata(data, size) with the size_t as given (the data has at least
            // as many bytes as can be inserted)
            size_t colon = arg.find(':');
            size_t sz = (size_t)strtoull(arg.substr(0, colon).c_str(), 0, 10);
            auto d = hv::unhex(arg.substr(colon + 1));
            std::string ds(d.begin(), d.end());
            if (!s->newdata_sz(ds, sz)) { o.result = "bad-op"; return; }
            size_t room = cap ? cap - 1 - (L.size() + R.size()) : 0;
            size_t k = std::min(room, sz);
            L += ds.substr(0, k);
            o.tag(sz >= (1ull << 31) ? "newdata-size-ge-2^31" : "newdata-size_t");
            ret = "v";
            break;
        }
        case 'c':
        {
            if (!s->clear()) { o.result = "bad-op"; return; }
            L.assign(L.size(), '\0');
            R.assign(R.size(), '\0');
            o.tag("clear");
            break;
        }
        case 's':
        {
            // s<len>,<cursor>: raw setter; the line it denotes is whatever the storage holds
            unsigned l = 0, c = 0;
            sscanf(arg.c_str(), "%u,%u", &l, &c);
            std::string before = s->text();
            unsigned len0 = s->len();
            if (!s->set_size_cursor(l, c)) { o.result = "bad-op"; return; }
            if (s->len() != l || s->cursor() != c) fail("set_size_and_cursor did not store its arguments");
            if (c <= l && l < cap)
            {
                std::string t = s->text();
                if (t.substr(0, std::min<size_t>(len0, l)) != before.substr(0, std::min<size_t>(len0, l)))
                    fail("set_size_and_cursor changed the stored characters");
                L = t.substr(0, c);
                R = t.substr(c);
                o.tag(l > len0 ? "set-size-grow" : "set-size");
            }
            break;
        }
        case 'b':
        case 'B':
        {
            // b<unsigned>: the count as the unsigned int of sline_backspace; B<int>: as an int through
            // igris::sline::backspace(int) (-1 = UINT_MAX, "everything left of the cursor")
            bool as_int = t[0] == 'B';
            unsigned n = as_int ? (unsigned)(int)strtol(arg.c_str(), 0, 10) : (unsigned)strtoul(arg.c_str(), 0, 10);
            size_t cur0 = L.size();
            int r = as_int ? s->backspace_i((int)n) : s->backspace(n);
            size_t k = std::min<size_t>(n, L.size());
            L.erase(L.size() - k);
            if (r != (int)k) fail("backspace removed " + std::to_string(r) + " characters, min(count, cursor) = " + std::to_string(k));
            if (k && !R.empty()) o.tag("backspace-midline");
            if (k < n) o.tag("backspace-clamped");
            count_tags(o, "backspace", n, cur0, cur0, as_int);
            ret = std::to_string(r);
            break;
        }
        case 'd':
        case 'D':
        {
            bool as_int = t[0] == 'D';
            unsigned n = as_int ? (unsigned)(int)strtol(arg.c_str(), 0, 10) : (unsigned)strtoul(arg.c_str(), 0, 10);
            size_t cur0 = L.size(), right0 = R.size();
            int r = as_int ? s->del_i((int)n) : s->del(n);
            size_t k = std::min<size_t>(n, R.size());
            R.erase(0, k);
            if (r != (int)k) fail("delete removed " + std::to_string(r) + " characters, min(count, characters right of the cursor) = " + std::to_string(k));
            if (k) o.tag("delete");
            if (k < n) o.tag("delete-clamped");
            count_tags(o, "delete", n, cur0, right0, as_int);
            ret = std::to_string(r);
            break;
        }
        case 'l':
        {
            int r = s->left();
            int want = L.empty() ? 0 : 1;
            if (want)
            {
                R.insert(R.begin(), L.back());
                L.pop_back();
            }
            if (r != want) fail("left result");
            ret = std::to_string(r);
            break;
        }
        case 'r':
        {
            int r = s->right();
            int want = R.empty() ? 0 : 1;
            if (want)
            {
                L.push_back(R[0]);
                R.erase(0, 1);
            }
            if (r != want) fail("right result");
            ret = std::to_string(r);
            break;
        }
        case 'z':
            s->reset();
            L.clear();
            R.clear();
            break;
        case 'g':
        {
            std::string g = s->getline();
            std::string want = L + R;
            if (g != want.substr(0, want.find('\0'))) fail("getline returned '" + hex(g) + "', reference line '" + hex(want) + "'");
            o.tag("getline");
            break;
        }
        case 'e':
        {
            auto d = hv::unhex(arg);
            std::string ds(d.begin(), d.end());
            bool r = s->equal(ds);
            bool want = (L + R) == ds;
            if (r != want) fail("equal result");
            if (r) o.tag("equal-true");
            ret = r ? "1" : "0";
            break;
        }
        default:
            o.result = "bad-op";
            return;
        }
        unsigned len = s->len(), cur = s->cursor();
        // a line without a buffer (cap 0, outside the property's quantifier) must stay the empty line
        if (cap == 0 ? !(len == 0 && cur == 0) : !(cur <= len && len < cap))
            fail("bounds: cursor " + std::to_string(cur) + " len " + std::to_string(len) + " cap " + std::to_string(cap));
        else if (s->text() != L + R || cur != L.size())
            fail("line '" + hex(s->text()) + "' cursor " + std::to_string(cur) + " != reference '" + hex(L + R) + "' cursor " + std::to_string(L.size()));
        res += (res.empty() ? "" : " ") + ret + "," + std::to_string(len) + "," + std::to_string(cur) + "," + hex(s->text());
    }
    if (cap == 0) o.tag("capacity-zero");
    if (cap == 1) o.tag("capacity-one");
    if (cap > (1u << 24)) o.tag(cap >= (1u << 31) ? "capacity-ge-2^31" : "capacity-large");
    o.result = res.empty() ? "-" : res;
}

static void run_rl(const std::vector<std::string> &w, out &o)
{
    bool cxx = w[1] == "x";
    unsigned cap = (unsigned)strtoul(w[2].c_str(), 0, 10), depth = (unsigned)strtoul(w[3].c_str(), 0, 10);
    auto keys = hv::unhex(w[4]);
    std::unique_ptr<ireadline> rl(cxx ? make_readline_x(cap, depth) : make_readline_c(cap, depth));
    ref_editor ref(cap, depth, false);
    std::string res, sofar;
    for (uint8_t c : keys)
    {
        sofar.push_back((char)c);
        size_t l0 = ref.len(), c0 = ref.left.size(), b0 = ref.browse;
        std::string line0 = ref.line();
        int ret = rl->putchar(c);
        std::string acc;
        int r = ref.key(c, acc);
        auto fail = [&](const std::string &why) { o.fail(why + " after keys " + hex(sofar)); };
        // expected return code from the reference editor's state change
        int want;
        if (r == 1) want = READLINE_NEWLINE;
        else if (ref.browse != b0) want = READLINE_UPDATELINE;
        else if (ref.len() == l0 + 1) want = READLINE_ECHOCHAR;
        else if (ref.len() + 1 == l0 && ref.left.size() + 1 == c0) want = READLINE_BACKSPACE;
        else if (ref.len() + 1 == l0) want = READLINE_DELETE;
        else if (ref.left.size() == c0 + 1) want = READLINE_RIGHT;
        else if (ref.left.size() + 1 == c0) want = READLINE_LEFT;
        else want = READLINE_NOTHING;
        bool overflow_ok = ret == READLINE_OVERFLOW && want == READLINE_NOTHING && l0 + 1 >= cap;
        if (ret != want && !overflow_ok) fail("return code " + std::to_string(ret) + ", reference expects " + std::to_string(want));
        if (ret == READLINE_OVERFLOW) o.tag("overflow-code");
        if (ret == READLINE_UPDATELINE) o.tag("updateline");
        if (r == 1 && rl->text() != acc) fail("accepted line differs from the reference editor's");
        unsigned len = rl->len(), cur = rl->cursor();
        if (!(cur <= len && len < cap))
            fail("bounds: cursor " + std::to_string(cur) + " len " + std::to_string(len));
        else if (rl->text() != ref.line() || cur != ref.left.size())
            fail("line '" + hex(rl->text()) + "' cursor " + std::to_string(cur) + " != reference '" + hex(ref.line()) + "' cursor " + std::to_string(ref.left.size()));
        res += (res.empty() ? "" : " ") + std::to_string(ret) + "," + std::to_string(len) + "," + std::to_string(cur) + "," + hex(rl->text());
        if (ret == READLINE_NEWLINE)
        {
            // what the terminal does next
            rl->newline_reset();
            ref.fresh_line();
        }
    }
    o.result = res + rl->tail();
}

// lc <c|x> <cap> <depth> <maxlen> <keys-hex>: type the keys, then readline_linecpy into a destination of
// exactly maxlen bytes (pre-filled with 0xAA, under ASan)
static void run_lc(const std::vector<std::string> &w, out &o)
{
    bool cxx = w[1] == "x";
    unsigned cap = (unsigned)strtoul(w[2].c_str(), 0, 10), depth = (unsigned)strtoul(w[3].c_str(), 0, 10);
    size_t maxlen = (size_t)strtoul(w[4].c_str(), 0, 10);
    auto keys = hv::unhex(w[5]);
    std::unique_ptr<ireadline> rl(cxx ? make_readline_x(cap, depth) : make_readline_c(cap, depth));
    ref_editor ref(cap, depth, false);
    for (uint8_t c : keys)
    {
        int ret = rl->putchar(c);
        std::string acc;
        ref.key(c, acc);
        if (ret == READLINE_NEWLINE)
        {
            rl->newline_reset();
            ref.fresh_line();
        }
    }
    // (a zero-sized destination is given one guard byte that must stay untouched)
    hv::exact_buf dst(std::vector<uint8_t>(maxlen ? maxlen : 1, 0xAA));
    int n = rl->linecpy((char *)dst.p, maxlen);
    if (maxlen == 0 && dst.p[0] != 0xAA) o.fail("linecpy wrote into a zero-sized destination");
    std::string line = ref.line();
    size_t want = maxlen == 0 ? 0 : std::min(line.size(), maxlen - 1);
    if (n != (int)want)
        o.fail("linecpy returned " + std::to_string(n) + ", min(len, maxlen - 1) = " + std::to_string(want));
    else if (maxlen)
    {
        if (memcmp(dst.p, line.data(), want) != 0) o.fail("linecpy: copied characters differ from the reference line");
        else if (dst.p[want] != 0) o.fail("linecpy: no terminator at [" + std::to_string(want) + "]");
        else
            for (size_t i = want + 1; i < maxlen; i++)
                if (dst.p[i] != 0xAA) { o.fail("linecpy wrote beyond the terminator at [" + std::to_string(i) + "]"); break; }
    }
    if (maxlen == 0) o.tag("linecpy-zero-dest");
    else if (want < line.size()) o.tag("linecpy-truncated");
    else if (want + 1 == maxlen) o.tag("linecpy-exact-fit");
    else o.tag("linecpy");
    o.result = std::to_string(n) + " " + hex(dst.p, maxlen);
}

static void run_vt(const std::vector<std::string> &w, out &o)
{
    bool cxx = w[1] == "x";
    unsigned cap = (unsigned)strtoul(w[2].c_str(), 0, 10), depth = (unsigned)strtoul(w[3].c_str(), 0, 10);
    bool echo = w[4] != "0";
    auto keys = hv::unhex(w[5]);
    session s(cxx, cap, depth, echo);
    std::string res = "I" + hex(s.init_step());
    for (uint8_t c : keys)
        res += " " + s.key(c);
    s.check_grammar(depth);
    o.result = res;
    if (!s.fail.empty()) o.fail(s.fail);
    o.tags = session::tagstr(s.tagbits);
    if (depth >= 256) o.tag("depth-ge-256");
    if (!echo) o.tag("echo-off");
}

static void run_vtx(const std::vector<std::string> &w, out &o)
{
    bool cxx = w[1] == "x";
    unsigned cap = (unsigned)strtoul(w[2].c_str(), 0, 10), depth = (unsigned)strtoul(w[3].c_str(), 0, 10);
    const auto &alpha = w[4] == "0" ? ALPHA_BYTES : ALPHA_KEYS;
    unsigned L = (unsigned)strtoul(w[5].c_str(), 0, 10);
    auto pv = hv::unhex(w[6]);
    std::string prefix(pv.begin(), pv.end());
    fnv d;
    uint64_t count = 0;
    std::string firstfail;
    unsigned alltags = 0;
    // digest of the prefix itself
    {
        session s(cxx, cap, depth, true);
        d.bytes(s.init_step());
        for (unsigned char c : prefix)
        {
            s.key(c);
            d.key(*s.v);
        }
        if (!s.fail.empty()) firstfail = s.fail;
    }
    // preorder walk; every node is replayed from a fresh terminal
    std::vector<size_t> path;
    std::function<void(unsigned)> walk = [&](unsigned left)
    {
        if (!left) return;
        for (size_t t = 0; t < alpha.size(); t++)
        {
            path.push_back(t);
            session s(cxx, cap, depth, true);
            s.want_record = false;
            s.init_step();
            for (unsigned char c : prefix) s.key(c);
            for (size_t i = 0; i + 1 < path.size(); i++)
                for (unsigned char c : alpha[path[i]]) s.key(c);
            for (unsigned char c : alpha[t])
            {
                s.key(c);
                d.key(*s.v);
            }
            count++;
            s.check_grammar(depth);
            if (!s.fail.empty() && firstfail.empty()) firstfail = s.fail;
            alltags |= s.tagbits;
            walk(left - 1);
            path.pop_back();
        }
    };
    walk(L);
    o.result = std::to_string(count) + " " + hv::hexn(d.h, 16);
    if (!firstfail.empty()) o.fail(firstfail);
    o.tags = session::tagstr(alltags);
    o.tag("tree");
}


// vs <c|x> <cap> <depth> <token>...   one terminal object, everything a caller can do between keys:
//   k<hex> keys as (int16_t)(unsigned char)   c<hex> keys held in a `char` (the call path of igris' own callers)
//   i<int> a raw int16_t   I init step   P<hex> set_prompt   E0 / E1 set_echo
static void run_vs(const std::vector<std::string> &w, out &o)
{
    bool cxx = w[1] == "x";
    unsigned cap = (unsigned)strtoul(w[2].c_str(), 0, 10), depth = (unsigned)strtoul(w[3].c_str(), 0, 10);
    session s(cxx, cap, depth, true);
    std::string res;
    auto add = [&](const std::string &r) { res += (res.empty() ? "" : " ") + r; };
    for (size_t i = 4; i < w.size(); i++)
    {
        const std::string &t = w[i];
        std::string arg = t.substr(1);
        switch (t[0])
        {
        case 'k':
            for (uint8_t c : hv::unhex(arg)) add(s.key(c));
            break;
        case 'c':
            for (uint8_t c : hv::unhex(arg))
            {
                add(s.key(c, 1));
                o.tag(c >= 0x80 ? "char-path-high-byte" : "char-path");
            }
            break;
        case 'i':
        {
            long v = strtol(arg.c_str(), 0, 10);
            if (v == -1) add("I" + hex(s.init_step()));
            else
            {
                add(s.key((uint8_t)(v & 0xff), 2, (int16_t)v));
                o.tag(v < 0 ? "int16-negative" : v > 255 ? "int16-above-255" : "int16");
            }
            break;
        }
        case 'I':
            add("I" + hex(s.init_step()));
            o.tag("init-step-midway");
            break;
        case 'P':
        {
            auto d = hv::unhex(arg);
            std::string p(d.begin(), d.end());
            s.set_prompt(p);
            add("=");
            o.tag(session::printable(p) ? "set-prompt" : "set-prompt-unprintable");
            break;
        }
        case 'E':
            s.set_echo(arg != "0");
            add("=");
            o.tag("set-echo");
            break;
        default:
            o.result = "bad-op";
            return;
        }
    }
    s.check_grammar(depth);
    o.result = res.empty() ? "-" : res;
    if (!s.fail.empty()) o.fail(s.fail);
    if (!s.tagbits) return;
    std::string ts = session::tagstr(s.tagbits);
    o.tags += (o.tags.empty() ? "" : ",") + ts;
}

// vw <c|x> <cap> <depth> <W> <strict> <keys-hex>: the echoed bytes on a W-column terminal with auto-wrap.
// Oracle: W >= |prompt| + cap: current row = prompt + line, column = |prompt| + cursor, no wrap pending after every
// key.  strict = 1: for ANY W the rows since the prompt must be the text cut every W glyphs (a correct wrapped
// display) - fails on narrow terminals (finding C15-narrow-screen).
static void run_vw(const std::vector<std::string> &w, out &o)
{
    bool cxx = w[1] == "x";
    unsigned cap = (unsigned)strtoul(w[2].c_str(), 0, 10), depth = (unsigned)strtoul(w[3].c_str(), 0, 10);
    size_t W = strtoul(w[4].c_str(), 0, 10);
    bool strict = w[5] == "1";
    auto keys = hv::unhex(w[6]);
    if (W < 2) { o.result = "bad-op"; return; }
    session s(cxx, cap, depth, true);
    wterm t(W);
    t.feed(s.init_step());
    size_t base = t.r; // grid row the current prompt starts on
    std::string res = "I" + t.show();
    bool fits = W >= s.PROMPT.size() + cap;
    std::string fail;
    bool wrapped = false;
    for (uint8_t c : keys)
    {
        bool owed = s.pending_prompt;
        s.key(c);
        if (owed) base = t.r;
        t.feed(s.v->echoed);
        if (c == 3 || (s.last_accept && !s.cxx)) base = t.r; // this call ended with a new prompt
        res += " " + t.show();
        if (t.r > base) wrapped = true;
        if (!s.safe || !fail.empty()) continue;
        std::string text = (s.pending_prompt ? std::string() : s.PROMPT) + s.ref.line();
        size_t idx = (s.pending_prompt ? 0 : s.PROMPT.size()) + s.ref.left.size();
        if (fits)
        {
            if (t.grid[t.r] != text || t.c != idx || t.pend)
                fail = "on " + std::to_string(W) + " columns the row is '" + t.grid[t.r] + "' column " + std::to_string(t.c) + (t.pend ? " (wrap pending)" : "") +
                       ", expected '" + text + "' column " + std::to_string(idx) + " after keys " + hex(s.keys);
        }
        else if (strict)
        {
            // a correct wrapped display: rows base.. = text cut every W glyphs
            std::vector<std::string> want;
            for (size_t i = 0; i < text.size() || i == 0; i += W) want.push_back(text.substr(i, W));
            std::vector<std::string> got(t.grid.begin() + base, t.grid.end());
            while (got.size() > want.size() && got.back().empty()) got.pop_back();
            if (got != want)
            {
                std::string g, x;
                for (auto &r : got) g += "'" + r + "' ";
                for (auto &r : want) x += "'" + r + "' ";
                fail = "on " + std::to_string(W) + " columns the rows are " + g + "- a correct display of prompt + line shows " + x + "after keys " + hex(s.keys);
            }
        }
    }
    o.result = res;
    if (!s.fail.empty()) o.fail(s.fail);
    else if (!fail.empty()) o.fail(fail);
    o.tag(fits ? (W == s.PROMPT.size() + cap ? "wterm-exact-fit" : "wterm-fits") : "wterm-narrow");
    if (wrapped) o.tag("wterm-wrapped");
}

// lh <c|x> <cap> <depth> <maxlen> <keys-hex>: readline_linecpy with a HUGE maxlen (2^31 - 1 .. 2^32 + 1): the
// destination really has maxlen bytes (lazily mapped); result: return value + the first min(maxlen, cap + 2) bytes
#include <sys/mman.h>
static void run_lh(const std::vector<std::string> &w, out &o)
{
    bool cxx = w[1] == "x";
    unsigned cap = (unsigned)strtoul(w[2].c_str(), 0, 10), depth = (unsigned)strtoul(w[3].c_str(), 0, 10);
    size_t maxlen = (size_t)strtoull(w[4].c_str(), 0, 10);
    auto keys = hv::unhex(w[5]);
    std::unique_ptr<ireadline> rl(cxx ? make_readline_x(cap, depth) : make_readline_c(cap, depth));
    ref_editor ref(cap, depth, false);
    for (uint8_t c : keys)
    {
        int ret = rl->putchar(c);
        std::string acc;
        ref.key(c, acc);
        if (ret == READLINE_NEWLINE) { rl->newline_reset(); ref.fresh_line(); }
    }
    size_t shown = std::min<size_t>(maxlen, cap + 2);
    void *m = mmap(0, maxlen ? maxlen : 1, PROT_READ | PROT_WRITE, MAP_PRIVATE | MAP_ANONYMOUS | MAP_NORESERVE, -1, 0);
    if (m == MAP_FAILED) { o.result = "bad-op"; return; }
    uint8_t *dst = (uint8_t *)m;
    memset(dst, 0xAA, shown);
    int n = rl->linecpy((char *)dst, maxlen);
    std::string line = ref.line();
    size_t want = maxlen == 0 ? 0 : std::min(line.size(), maxlen - 1);
    if (n != (int)want) o.fail("linecpy(maxlen " + std::to_string(maxlen) + ") returned " + std::to_string(n) + ", min(len, maxlen - 1) = " + std::to_string(want));
    else if (maxlen && (memcmp(dst, line.data(), want) != 0 || dst[want] != 0)) o.fail("linecpy: copied characters / terminator differ from the reference line");
    o.result = std::to_string(n) + " " + hex(dst, shown);
    munmap(m, maxlen ? maxlen : 1);
    o.tag(maxlen >= (1ull << 32) ? "linecpy-maxlen-ge-2^32" : maxlen >= (1ull << 31) ? "linecpy-maxlen-ge-2^31" : "linecpy-maxlen-large");
}

// the session run BEFORE main() by a static object of the highest priority: the library must not depend on the
// initialisation of any other static object
static const char PREMAIN_KEYS[] = "ab\r\x1b[Ac\x1b[Dd\n\x03\x1b[A\x1b[A\r";
struct premain_t
{
    std::string result, fail;
    premain_t()
    {
        for (int var = 0; var < 2; var++)
        {
            session s(var == 1, 4, 2, true);
            std::string res = "I" + hex(s.init_step());
            for (const char *p = PREMAIN_KEYS; *p; p++) res += " " + s.key((uint8_t)*p);
            s.check_grammar(2);
            result += (var ? " | " : "") + res;
            if (!s.fail.empty() && fail.empty()) fail = s.fail;
        }
    }
};
static premain_t premain_obj __attribute__((init_priority(101)));

// tw <cap> <depth> <echo> <keys-hex>: vterm.c and igris::vtermxx side by side, compared DIRECTLY with each other
// (events, line, cursor after every key; written bytes equal up to the prompt vtermxx still owes)
static void run_tw(const std::vector<std::string> &w, out &o)
{
    unsigned cap = (unsigned)strtoul(w[1].c_str(), 0, 10), depth = (unsigned)strtoul(w[2].c_str(), 0, 10);
    bool echo = w[3] != "0";
    auto keys = hv::unhex(w[4]);
    session a(false, cap, depth, echo), b(true, cap, depth, echo);
    std::string res = "I" + hex(a.init_step());
    std::string wa = a.v->echoed, wb;
    b.init_step();
    wb = b.v->echoed;
    std::string sofar, fail;
    for (uint8_t c : keys)
    {
        sofar.push_back((char)c);
        res += " " + a.key(c);
        b.key(c);
        wa += a.v->echoed;
        wb += b.v->echoed;
        if (!fail.empty()) continue;
        auto evs = [](ivterm &v) { std::string s; for (auto &e : v.evs) s += e.exec ? "X" + hex(e.line) + ";" : "S;"; return s; };
        bool owes = b.pending_prompt;
        if (evs(*a.v) != evs(*b.v)) fail = "callback events differ: vterm.c " + evs(*a.v) + " vtermxx " + evs(*b.v);
        else if (!owes && (a.v->text() != b.v->text() || a.v->cursor() != b.v->cursor())) fail = "line / cursor differ: vterm.c '" + hex(a.v->text()) + "' vtermxx '" + hex(b.v->text()) + "'";
        else if (wa != wb + (owes && echo ? b.prompt_now : std::string())) fail = "written bytes differ (beyond the prompt vtermxx owes)";
        else if (a.v->rlstate() != NOT_VISIBLE && b.v->rlstate() != NOT_VISIBLE && a.v->rlstate() != b.v->rlstate() && !owes) fail = "escape states differ";
        if (!fail.empty()) fail += " after keys " + hex(sofar);
    }
    o.result = res;
    if (!a.fail.empty()) o.fail(a.fail);
    else if (!b.fail.empty()) o.fail(b.fail);
    else if (!fail.empty()) o.fail("twins: " + fail);
    o.tags = session::tagstr(a.tagbits);
    o.tag("twins");
}

// ts <cap> <op>...: struct sline and igris::sline side by side on the same calls (tokens of `sl` both families have)
static void run_ts(const std::vector<std::string> &w, out &o)
{
    unsigned cap = (unsigned)strtoul(w[1].c_str(), 0, 10);
    std::vector<std::string> wc = {"sl", "c", w[1]}, wx = {"sl", "x", w[1]};
    for (size_t i = 2; i < w.size(); i++) { wc.push_back(w[i]); wx.push_back(w[i]); }
    out oc, ox;
    run_sl(wc, oc);
    run_sl(wx, ox);
    // the C family reports sline_newdata's return value, igris::sline::newdata returns nothing: compare the rest
    auto strip = [](const std::string &r)
    {
        std::string s;
        size_t i = 0;
        while (i < r.size())
        {
            size_t e = r.find(' ', i);
            if (e == std::string::npos) e = r.size();
            std::string t = r.substr(i, e - i);
            s += t.substr(t.find(',')) + " ";
            i = e + 1;
        }
        return s;
    };
    o.result = ox.result;
    o.oracle = oc.oracle != "ok" ? oc.oracle : ox.oracle;
    if (o.oracle == "ok" && strip(oc.result) != strip(ox.result)) o.fail("twins: struct sline '" + oc.result + "' != igris::sline '" + ox.result + "'");
    o.tags = ox.tags;
    o.tag("sline-twins");
    (void)cap;
}

// vl <c|x> <cap> <depth> <n> <seed>: one LONG session (n keys from a small LCG over the 15-byte alphabet, the same
// generator is in Drv.lean), compared by the FNV-1a digest of every key's record
static void run_vl(const std::vector<std::string> &w, out &o)
{
    bool cxx = w[1] == "x";
    unsigned cap = (unsigned)strtoul(w[2].c_str(), 0, 10), depth = (unsigned)strtoul(w[3].c_str(), 0, 10);
    size_t n = strtoul(w[4].c_str(), 0, 10);
    uint64_t st = strtoull(w[5].c_str(), 0, 10);
    session s(cxx, cap, depth, true);
    s.want_record = false;
    fnv d;
    d.bytes(s.init_step());
    for (size_t i = 0; i < n; i++)
    {
        st = (st * 1103515245ull + 12345ull) % 2147483648ull;
        s.key((uint8_t)ALPHA_BYTES[(st / 65536) % 15][0]);
        d.key(*s.v);
    }
    s.check_grammar(depth);
    o.result = std::to_string(n) + " " + hv::hexn(d.h, 16);
    if (!s.fail.empty()) o.fail(s.fail);
    o.tags = session::tagstr(s.tagbits);
    o.tag(n >= 300 * 1024 ? "long-session-300KiB" : "long-session");
}

static void run_op(const std::vector<std::string> &w, const std::string &, out &o)
{
    if (w.empty()) { o.result = "bad-op"; return; }
    const std::string &op = w[0];
    if (op == "reset") { o.result = "ok"; return; }
    if (op == "consts") { o.result = consts_c(); return; }
    if (op == "sl" && w.size() >= 3) return run_sl(w, o);
    if (op == "rl" && w.size() == 5) return run_rl(w, o);
    if (op == "lc" && w.size() == 6) return run_lc(w, o);
    if (op == "vt" && w.size() == 6) return run_vt(w, o);
    if (op == "vtx" && w.size() == 7) return run_vtx(w, o);
    if (op == "vl" && w.size() == 6) return run_vl(w, o);
    if (op == "vs" && w.size() >= 4) return run_vs(w, o);
    if (op == "vw" && w.size() == 7) return run_vw(w, o);
    if (op == "lh" && w.size() == 6) return run_lh(w, o);
    if (op == "tw" && w.size() == 5) return run_tw(w, o);
    if (op == "ts" && w.size() >= 2) return run_ts(w, o);
    if (op == "consts2") { o.result = consts2_c(o.tags); return; }
    if (op == "premain" && w.size() == 2)
    {
        if (w[1] != hex(std::string(PREMAIN_KEYS))) { o.result = "bad-op"; return; }
        o.result = premain_obj.result;
        if (!premain_obj.fail.empty()) o.fail("before main(): " + premain_obj.fail);
        o.tag("before-main");
        return;
    }
    o.result = "bad-op";
}

// ===================================================================== gen
static void emit(const std::string &s) { puts(s.c_str()); }

static std::string hx(const std::string &s) { return hex(s); }

// a "mostly valid" typing session: words, edits in the middle, recalls, over-long lines
static std::string typing(hv::rng &r, unsigned cap, unsigned depth, size_t maxkeys, bool wide)
{
    static const std::string UP = "\x1b[A", DOWN = "\x1b[B", LEFT = "\x1b[D", RIGHT = "\x1b[C", DEL = "\x1b[3~";
    std::string k;
    auto letters = [&](size_t n)
    {
        for (size_t i = 0; i < n; i++)
            k.push_back(wide ? (char)r.range(0x20, 0x7e) : (char)('a' + r.below(r.chance(70) ? 3 : 26)));
    };
    int nl = (int)r.below(4); // newline style of this session: CR, LF, CRLF, LFCR
    auto enter = [&]()
    {
        int s = r.chance(85) ? nl : (int)r.below(4);
        k += s == 0 ? "\r" : s == 1 ? "\n" : s == 2 ? "\r\n" : "\n\r";
    };
    while (k.size() < maxkeys)
    {
        unsigned p = (unsigned)r.below(100);
        if (p < 22) letters(r.range(1, 3));
        else if (p < 28) letters(r.chance(50) ? cap - 1 : r.range(cap - 2 > 0 ? cap - 2 : 0, cap + 3)); // fill / overfill
        else if (p < 40) enter();
        else if (p < 50) { size_t n = r.range(1, depth + 2); for (size_t i = 0; i < n; i++) k += UP; }
        else if (p < 56) { size_t n = r.range(1, depth + 1); for (size_t i = 0; i < n; i++) k += DOWN; }
        else if (p < 68) { size_t n = r.range(1, r.chance(20) ? cap + 1 : 3); for (size_t i = 0; i < n; i++) k += LEFT; }
        else if (p < 75) { size_t n = r.range(1, 3); for (size_t i = 0; i < n; i++) k += RIGHT; }
        else if (p < 83) { size_t n = r.range(1, r.chance(15) ? cap + 1 : 2); k.append(n, '\x08'); }
        else if (p < 89) k += DEL;
        else if (p < 92) k.push_back('\x03');
        else if (p < 94) { k += "\x1b"; k.push_back((char)r.range(0x20, 0x7e)); }             // unknown ESC x
        else if (p < 96) { k += "\x1b["; k.push_back("EFGHZ012456789~;?"[r.below(17)]); }      // unknown ESC [ x
        else if (p < 97) { k += "\x1b[3"; k.push_back(r.chance(50) ? '~' : (char)r.range(0x20, 0x7e)); }
        else if (p < 98) k += r.chance(50) ? "\x1b\x1b[A" : "\x1b\x03[A";
        else if (p < 99) { k += "\x1b"; enter(); }
        else k.push_back("\x1b[ABCD3~"[r.below(8)]);
    }
    return k.substr(0, maxkeys);
}

// raw bytes, any value (NUL rarely), control keys frequent
static std::string noise(hv::rng &r, size_t n)
{
    static const std::string hot = "\x08\r\n\x1b[ABCD3~\x03\x7f\t";
    std::string k;
    for (size_t i = 0; i < n; i++)
        k.push_back(r.chance(55) ? hot[r.below(hot.size())] : r.chance(80) ? (char)r.range(0x20, 0x7e) : (char)r.range(r.chance(10) ? 0 : 1, 255));
    return k;
}

static void gen_sl_exhaustive(unsigned cap, unsigned L, const char *var)
{
    static const std::vector<std::string> toks = {"p61", "p62", "n6364", "n65666768", "n-", "b1", "b2", "d1", "d2", "l", "r", "z", "g"};
    std::vector<size_t> idx(L, 0);
    for (;;)
    {
        std::string s = std::string("sl ") + var + " " + std::to_string(cap);
        for (size_t i : idx) s += " " + toks[i];
        emit(s);
        size_t p = L;
        while (p > 0 && ++idx[p - 1] == toks.size()) idx[--p] = 0;
        if (p == 0) break;
    }
}

static uint64_t gen_seed = 1;
static void gen(hv::rng &r, const std::string &tier)
{
    bool th = tier == "thorough";
    const char *VAR[2] = {"c", "x"};
    emit("consts");
    // capacity 0 is outside the contract (sline_getline needs one byte for the terminator): recorded finding
    // (the two probes `sl c 0 p61`, `sl x 0 g` of the capacity-zero finding are ordinary ops since the sline half
    //  was repaired: see round 3 below)
    // ---- sline: exhaustive short op histories, then long random ones
    // (the seed picks the capacity that gets the deepest tree, see the key trees below)
    for (unsigned cap = 2; cap <= 4; cap++)
        gen_sl_exhaustive(cap, th && cap == 2 + gen_seed % 3 ? 5 : 4, VAR[cap & 1]);
    gen_sl_exhaustive(3, 3, "x");
    gen_sl_exhaustive(2, 3, "x");
    // (ext) sline_newdata with an explicit int length <= 0 or shorter than the data (C family), and the raw
    // accessors of igris::sline: clear, set_size_and_cursor with valid arguments (C++ family): exhaustive short histories
    {
        static const std::vector<std::string> tc = {"p61", "N-1:6263", "N0:62", "N1:6263", "N2:6263", "N-2147483648:61", "l", "b1", "g"};
        for (unsigned cap = 2; cap <= 4; cap++)
        {
            std::vector<size_t> idx(cap == 4 ? 3 : 4, 0);
            for (;;)
            {
                std::string s = "sl c " + std::to_string(cap);
                for (size_t i : idx) s += " " + tc[i];
                emit(s);
                size_t p = idx.size();
                while (p > 0 && ++idx[p - 1] == tc.size()) idx[--p] = 0;
                if (p == 0) break;
            }
        }
        for (unsigned cap = 2; cap <= 4; cap++)
        {
            std::vector<std::string> tx = {"p61", "p62", "n6364", "c", "l", "d1", "g", "s0,0"};
            for (unsigned l = 1; l < cap; l++)
                for (unsigned c = 0; c <= l; c++) tx.push_back("s" + std::to_string(l) + "," + std::to_string(c));
            std::vector<size_t> idx(cap == 4 ? 3 : 4, 0);
            for (;;)
            {
                std::string s = "sl x " + std::to_string(cap);
                for (size_t i : idx) s += " " + tx[i];
                emit(s);
                size_t p = idx.size();
                while (p > 0 && ++idx[p - 1] == tx.size()) idx[--p] = 0;
                if (p == 0) break;
            }
        }
    }
    for (int i = 0; i < (th ? 6000 : 1200); i++)
    {
        unsigned cap = (unsigned)r.range(2, r.chance(85) ? 12 : 40);
        bool vx = r.below(2);
        bool ext = r.chance(35); // histories that also use the calls added by the extension
        std::string s = std::string("sl ") + VAR[vx] + " " + std::to_string(cap);
        size_t n = r.range(1, 60);
        for (size_t j = 0; j < n; j++)
        {
            unsigned p = (unsigned)r.below(100);
            if (ext && r.chance(15))
            {
                if (!vx)
                {
                    size_t m = r.range(0, 5);
                    std::string d;
                    for (size_t q = 0; q < m; q++) d.push_back((char)r.range(0x41, 0x5a));
                    long nn = r.chance(30) ? -(long)r.range(1, 3) : r.chance(5) ? -2147483647L - 1 : (long)r.below(m + 1);
                    s += " N" + std::to_string(nn) + ":" + hx(d);
                }
                else if (r.chance(30)) s += " c";
                else
                {
                    unsigned l = (unsigned)r.below(cap), c = (unsigned)r.below(l + 1);
                    s += " s" + std::to_string(l) + "," + std::to_string(c);
                }
                continue;
            }
            if (p < 25) s += " p" + hv::hexn(r.chance(2) ? 0 : r.range(0x61, 0x7a), 2);
            else if (p < 40)
            {
                size_t m = r.chance(30) ? r.range(cap - 1, cap + 3) : r.range(0, 4);
                std::string d;
                for (size_t q = 0; q < m; q++) d.push_back((char)r.range(0x41, 0x5a));
                s += " n" + hx(d);
            }
            else if (p < 52) s += " b" + std::to_string(r.chance(25) ? r.range(cap - 1, cap + 2) : r.range(0, 2));
            else if (p < 62) s += " d" + std::to_string(r.chance(25) ? r.range(cap - 1, cap + 2) : r.range(0, 2));
            else if (p < 78) s += " l";
            else if (p < 88) s += " r";
            else if (p < 91) s += " z";
            else if (p < 97) s += " g";
            else s += " e" + hx(std::string(r.below(3), 'a'));
        }
        emit(s);
    }
    // ---- readline automaton alone (return codes), history depth 0 = no history buffer
    for (int i = 0; i < (th ? 4000 : 800); i++)
    {
        unsigned cap = (unsigned)r.range(2, 12), depth = (unsigned)r.range(0, 4);
        size_t n = r.chance(10) ? 400 : r.range(1, 80);
        std::string k = r.chance(75) ? typing(r, cap, depth ? depth : 1, n, r.chance(20)) : noise(r, n);
        for (char &c : k) if (c == 3) c = 'q'; // at this level 0x03 is an ordinary character: keep the streams comparable
        emit(std::string("rl ") + VAR[r.below(2)] + " " + std::to_string(cap) + " " + std::to_string(depth) + " " + hx(k));
    }
    // ---- (ext) readline_linecpy / igris::readline::linecpy after a typing session: destination sizes 0 .. cap + 3
    for (unsigned cap = 2; cap <= 4; cap++)
        for (unsigned maxlen = 0; maxlen <= cap + 1; maxlen++)
            for (unsigned typed = 0; typed <= cap; typed++)
                for (int var = 0; var < 2; var++)
                    emit(std::string("lc ") + VAR[var] + " " + std::to_string(cap) + " 1 " + std::to_string(maxlen) + " " + hx(std::string("abcde").substr(0, typed)));
    for (int i = 0; i < (th ? 2000 : 400); i++)
    {
        unsigned cap = (unsigned)r.range(2, 12), depth = (unsigned)r.range(0, 2);
        std::string k = typing(r, cap, depth ? depth : 1, r.range(0, 40), r.chance(20));
        for (char &c : k) if (c == 3) c = 'q';
        size_t maxlen = r.chance(15) ? 0 : r.chance(40) ? r.range(1, 3) : r.range(1, cap + 3);
        emit(std::string("lc ") + VAR[r.below(2)] + " " + std::to_string(cap) + " " + std::to_string(depth) + " " + std::to_string(maxlen) + " " + hx(k));
    }
    // ---- terminal: every byte sequence of length 3 over the 15-byte alphabet, listed one by one
    for (int var = 0; var < 2; var++)
        for (size_t a = 0; a < 15; a++)
            for (size_t b = 0; b < 15; b++)
                for (size_t c = 0; c < 15; c++)
                    emit(std::string("vt ") + VAR[var] + (var ? " 3 2 1 " : " 2 1 1 ") + hx(ALPHA_BYTES[a] + ALPHA_BYTES[b] + ALPHA_BYTES[c]));
    // ---- terminal: whole trees of key sequences as digests (op = 2-token prefix + every extension of <= L tokens).
    // The trees do not depend on random choices; the seed only selects which configuration gets the deepest tree
    // (thorough runs seeds s*1000+0..7, so the eight runs cover all eight / sixteen configurations).
    {
        struct cfg { unsigned cap, depth; };
        const std::vector<cfg> small = {{2, 1}, {3, 1}, {3, 2}, {4, 2}};
        const std::vector<cfg> mid = {{2, 1}, {3, 1}, {3, 2}, {4, 1}, {4, 2}, {5, 3}, {4, 4}, {6, 2}};
        unsigned k = (unsigned)(gen_seed % 8);
        auto tree = [&](int var, cfg c, int alpha, unsigned L)
        {
            const auto &A = alpha ? ALPHA_KEYS : ALPHA_BYTES;
            for (size_t a = 0; a < A.size(); a++)
                for (size_t b = 0; b < A.size(); b++)
                    emit(std::string("vtx ") + VAR[var] + " " + std::to_string(c.cap) + " " + std::to_string(c.depth) + " " + std::to_string(alpha) + " " + std::to_string(L) + " " + hx(A[a] + A[b]));
        };
        // 15-byte alphabet: every sequence up to length 4 in all 8 configurations, up to 5 (thorough 6) in one
        for (unsigned i = 0; i < 8; i++)
            tree(i & 1, small[i / 2], 0, i == k ? (th ? 4 : 3) : 2);
        // 11 whole keys: every sequence up to length 4 in all 16 configurations, up to 5 (thorough 6) in two
        for (unsigned i = 0; i < 16; i++)
            tree(i & 1, mid[i / 2], 1, (i % 8) == k ? (th ? 4 : 3) : 2);
    }
    // ---- terminal: random sessions up to 400 keys, cap 2..12, depth 1..4
    for (int i = 0; i < (th ? 12000 : 2500); i++)
    {
        unsigned cap = (unsigned)r.range(2, 12), depth = (unsigned)r.range(1, 4);
        size_t n = r.chance(8) ? 400 : r.chance(50) ? r.range(1, 40) : r.range(40, 160);
        std::string k = r.chance(80) ? typing(r, cap, depth, n, r.chance(25)) : noise(r, n);
        emit(std::string("vt ") + VAR[r.below(2)] + " " + std::to_string(cap) + " " + std::to_string(depth) + (r.chance(6) ? " 0 " : " 1 ") + hx(k));
    }
    // ---- a few wide configurations (two-digit cursor moves, deep history)
    for (int i = 0; i < (th ? 600 : 120); i++)
    {
        unsigned cap = (unsigned)r.range(13, 130), depth = (unsigned)r.range(1, 9);
        std::string k = typing(r, cap, depth, r.range(50, 400), true);
        emit(std::string("vt ") + VAR[r.below(2)] + " " + std::to_string(cap) + " " + std::to_string(depth) + " 1 " + hx(k));
    }
    // ---- very deep history rings (history_size is a uint8_t: depths up to 255, index arithmetic near 256):
    // many distinct short lines, then recalls at every depth.  Added after seeded change C15-history-index-uint8
    // (ring index computed in 8 bits) was missed: it needs depth >= 129.
    // (ext) depths >= 256 too: the ring indices were uint8_t (fix: unsigned int), 256 divided by zero in C and
    // the browse index wrapped in C++.
    for (int i = 0; i < (th ? 170 : 32); i++)
    {
        static const unsigned DEPTHS[] = {255, 254, 200, 129, 128, 127, 130, 192, 250, 160, 100, 64, 256, 256, 257, 300, 511, 512, 260, 1000};
        const int NFIX = th ? 20 : 19;
        unsigned depth = i < NFIX ? DEPTHS[i] : (unsigned)r.range(65, r.chance(25) ? 400 : 255);
        unsigned cap = (unsigned)r.range(5, 9);
        size_t nlines = r.chance(50) && depth < 256 ? r.range(1, 70) : r.range(depth > 20 ? depth - 20 : 1, depth + 30);
        std::string k;
        size_t entered = 0;
        auto line = [&]()
        {
            // distinct 4-character lines (base-26 counter with a random first letter)
            size_t v = entered++;
            k.push_back((char)('a' + r.below(26)));
            for (int d = 0; d < 3; d++) { k.push_back((char)('a' + v % 26)); v /= 26; }
            k += "\r";
        };
        for (size_t j = 0; j < nlines; j++) line();
        for (int round = 0; round < 6; round++)
        {
            size_t ups = r.chance(30) ? 1 : r.chance(50) ? r.range(1, 8) : r.range(1, (entered < depth ? entered : depth) + 2);
            if (depth >= 256 && round == 0) ups = (entered < depth ? entered : depth) + 2; // to the oldest line and beyond
            for (size_t j = 0; j < ups; j++) k += "\x1b[A";
            size_t downs = r.below(ups + 2);
            for (size_t j = 0; j < downs; j++) k += "\x1b[B";
            if (r.chance(60)) k += "\r";          // accept the recalled line (duplicate-of-last check)
            else k.push_back('\x03');
            if (r.chance(50)) line();
        }
        emit(std::string("vt ") + VAR[i < NFIX && i >= 12 ? (i & 1) : r.below(2)] + " " + std::to_string(cap) + " " + std::to_string(depth) + " 1 " + hx(k));
    }

    // =================================================================== round 3
    emit("consts2");
    emit("premain " + hx(std::string(PREMAIN_KEYS)));
    // ---- a line without a buffer (cap 0: safe at the sline level since the two fixes) and the smallest buffer (cap 1)
    emit("sl c 0 p61");
    emit("sl x 0 g");
    emit("sl c 0 p61 g N2:6162 n6162 b1 d1 l r z g e-");
    emit("sl x 0 p61 g n6162 b1 d1 l r z c g");
    emit("@F:C15-capacity-zero rl c 0 1 1b5b41");
    gen_sl_exhaustive(0, 3, "c");
    gen_sl_exhaustive(0, 2, "x");
    gen_sl_exhaustive(1, 3, "c");
    gen_sl_exhaustive(1, 3, "x");
    // ---- buffers of 2^31 - 1 .. 2^32 - 1 bytes (lazily mapped; the line stays short): every call but the bulk
    //      insert, which misjudges the room there (finding C15-newdata-2g); the bulk insert just below 2^31
    for (const char *cap : {"2147483647", "2147483648", "2147483649", "4294967295"})
        emit(std::string("sl c ") + cap + " p61 p62 p63 l l p64 b1 d1 r g e6164 z p65 g");
    emit("sl c 2147483647 p61 N2:6263 n6465 l N1:66 g");
    emit("sl c 16777217 p61 N2:6263 n6465 l N1:66 N-1:67 g");
    emit("sl x 4 Z2:616263 Z2147483647:61626364 g");
    emit("sl x 6 p61 l Z1:6263 Z0:64 Z2147483647:6566676869 g");
    emit("@F:C15-newdata-2g sl c 2147483649 N2:6162");
    emit("@F:C15-newdata-2g sl c 2147483648 N1:62");
    emit("@F:C15-newdata-2g sl x 4 Z2147483648:61626364");
    // ---- twins, directly against each other: struct sline / igris::sline on the same calls
    {
        static const std::vector<std::string> tk = {"p61", "p62", "n6364", "n65666768", "N1:6364", "N-1:63", "b1", "d1", "l", "r", "z", "g", "e61"};
        for (unsigned cap = 2; cap <= 3; cap++)
            for (size_t a = 0; a < tk.size(); a++)
                for (size_t b = 0; b < tk.size(); b++)
                    for (size_t c = 0; c < tk.size(); c++)
                        emit("ts " + std::to_string(cap) + " " + tk[a] + " " + tk[b] + " " + tk[c]);
        for (int i = 0; i < (th ? 1500 : 250); i++)
        {
            unsigned cap = (unsigned)r.range(1, 12);
            std::string s = "ts " + std::to_string(cap);
            size_t n = r.range(1, 40);
            for (size_t j = 0; j < n; j++)
            {
                unsigned p = (unsigned)r.below(100);
                if (p < 30) s += " p" + hv::hexn(r.range(0x61, 0x7a), 2);
                else if (p < 45)
                {
                    size_t m = r.chance(30) ? r.range(cap - 1, cap + 3) : r.range(0, 4);
                    std::string d;
                    for (size_t q = 0; q < m; q++) d.push_back((char)r.range(0x41, 0x5a));
                    s += (r.chance(50) ? " n" + hx(d) : " N" + std::to_string((long)r.below(m + 2) - 1) + ":" + hx(d + "Z"));
                }
                else if (p < 55) s += " b" + std::to_string(r.range(0, 3));
                else if (p < 65) s += " d" + std::to_string(r.range(0, 3));
                else if (p < 80) s += " l";
                else if (p < 90) s += " r";
                else if (p < 93) s += " z";
                else s += " g";
            }
            emit(s);
        }
    }
    // ---- vterm.c / igris::vtermxx directly against each other (every pair of the byte alphabet, random sessions,
    //      history depth 0 = no history included)
    for (size_t a = 0; a < 15; a++)
        for (size_t b = 0; b < 15; b++)
            emit("tw 3 1 1 " + hx(ALPHA_BYTES[a] + ALPHA_BYTES[b]));
    for (int i = 0; i < (th ? 1500 : 250); i++)
    {
        unsigned cap = (unsigned)r.range(2, 12), depth = (unsigned)r.range(r.chance(15) ? 0 : 1, 4);
        size_t n = r.chance(5) ? 300 : r.range(1, 80);
        std::string k = r.chance(80) ? typing(r, cap, depth ? depth : 1, n, r.chance(25)) : noise(r, n);
        emit("tw " + std::to_string(cap) + " " + std::to_string(depth) + (r.chance(6) ? " 0 " : " 1 ") + hx(k));
    }
    // ---- history depth 0: vterm_automate_init(..., hbuffer, 0) / vtermxx::init(cap, 0) = a terminal without history
    for (int var = 0; var < 2; var++)
    {
        emit(std::string("vt ") + VAR[var] + " 4 0 1 " + hx("ab\rab\r\x1b[A\x1b[B" "c\r"));
        emit(std::string("vt ") + VAR[var] + " 2 0 1 " + hx("a\r\n\x1b[A\x1b[A\x03" "b\n"));
    }
    for (int i = 0; i < (th ? 300 : 60); i++)
    {
        unsigned cap = (unsigned)r.range(2, 10);
        std::string k = typing(r, cap, 2, r.range(1, 120), r.chance(25));
        emit(std::string("vt ") + VAR[r.below(2)] + " " + std::to_string(cap) + " 0 1 " + hx(k));
    }
    // ---- one object, everything a caller can do between keys: every script of <= 3 (C++: 2) tokens, random scripts
    {
        static const std::vector<std::string> tk = {"k61", "cc3", "c80", "cfe", "c7f", "i-1", "i353", "i-128", "i-2", "i32767", "i-32768", "i256", "I",
                                                    "P0724", "P3e", "P-", "E0", "E1", "k0d", "k03", "k1b5b41", "c0d"};
        for (int var = 0; var < 2; var++)
            for (size_t a = 0; a < tk.size(); a++)
                for (size_t b = 0; b < tk.size(); b++)
                {
                    if (var) { emit("vs x 4 1 " + tk[a] + " " + tk[b] + " k620d"); continue; }
                    for (size_t c = 0; c < tk.size(); c++)
                        emit("vs c 4 1 " + tk[a] + " " + tk[b] + " " + tk[c] + " k620d");
                }
        emit("@F:C15-char-ff vs c 4 1 I cff k0d");
        emit("@F:C15-char-ff vs x 4 1 k61 cff c0d");
        for (int i = 0; i < (th ? 2500 : 500); i++)
        {
            unsigned cap = (unsigned)r.range(2, 12), depth = (unsigned)r.range(1, 3);
            std::string s = std::string("vs ") + VAR[r.below(2)] + " " + std::to_string(cap) + " " + std::to_string(depth);
            if (r.chance(70)) s += " I";
            size_t n = r.range(1, 12);
            for (size_t j = 0; j < n; j++)
            {
                unsigned p = (unsigned)r.below(100);
                if (p < 35) s += " k" + hx(typing(r, cap, depth, r.range(1, 20), r.chance(25)));
                else if (p < 60)
                {
                    // through a `char`: ASCII, Latin-1 / UTF-8 bytes (every value but 0xff, the recorded finding)
                    std::string k;
                    size_t m = r.range(1, 6);
                    for (size_t q = 0; q < m; q++)
                        k.push_back(r.chance(50) ? (char)r.range(0x80, 0xfe) : r.chance(30) ? "\r\n\x08\x1b[AD"[r.below(7)] : (char)r.range(0x20, 0x7e));
                    s += " c" + hx(k);
                }
                else if (p < 70)
                {
                    static const long V[] = {-1, -2, -128, -129, -255, -256, -32768, 32767, 255, 256, 257, 0x141, 0x10d, 0x7f03, 127, 128, 0};
                    s += " i" + std::to_string(r.chance(70) ? V[r.below(17)] : (long)r.range(0, 65535) - 32768);
                }
                else if (p < 78) s += " I";
                else if (p < 90)
                {
                    std::string pr;
                    size_t m = r.range(0, 5);
                    for (size_t q = 0; q < m; q++) pr.push_back(r.chance(70) ? (char)r.range(0x20, 0x7e) : (char)r.range(1, 255));
                    s += " P" + hx(pr);
                }
                else s += r.chance(50) ? " E0" : " E1";
            }
            // `i-1` typed as a token is the init step; a raw -1 produced above is handled the same way
            emit(s);
        }
    }
    // ---- the echoed bytes on a terminal with W columns and auto-wrap
    {
        auto wsess = [&](unsigned cap, size_t W, bool strict, const std::string &k, const char *pre = "")
        {
            emit(std::string(pre) + "vw " + VAR[r.below(2)] + " " + std::to_string(cap) + " " + std::to_string(r.range(1, 3)) + " " + std::to_string(W) + (strict ? " 1 " : " 0 ") + hx(k));
        };
        // full line, cursor walks, inserts in the middle, Ctrl-C at the end of a full line: the exact fit and around it
        for (unsigned cap = 2; cap <= 6; cap++)
            for (int dw = 0; dw <= 3; dw++)
            {
                std::string fill(cap + 1, 'a');
                wsess(cap, 2 + cap + dw, false, fill + "\x03" + fill + "\x1b[D\x1b[D\x08" "b\x1b[3~\x1b[C\x1b[Cc\r" + fill + "\r\x1b[A\x1b[A\x03");
            }
        for (int i = 0; i < (th ? 2000 : 350); i++)
        {
            unsigned cap = (unsigned)r.range(2, 14);
            static const size_t DW[] = {0, 0, 0, 1, 2, 3, 10, 66};
            std::string k = typing(r, cap, 2, r.chance(10) ? 300 : r.range(5, 90), false);
            wsess(cap, 2 + cap + DW[r.below(8)], false, k);
        }
        // narrower than prompt + line: the two terminal emulators (Lean / C++) are compared, the display is not judged
        for (int i = 0; i < (th ? 600 : 100); i++)
        {
            unsigned cap = (unsigned)r.range(4, 30);
            std::string k = typing(r, cap, 2, r.range(5, 120), false);
            wsess(cap, r.range(2, 1 + cap), false, k);
        }
        emit("@F:C15-narrow-screen vw c 8 1 6 1 61626364651b5b441b5b4478");
        emit("@F:C15-narrow-screen vw x 12 1 8 1 " + hx(std::string("abcdefghij\x1b[D\x1b[D\x1b[D\x1b[D\x1b[D\x08")));
    }
    // ---- readline_linecpy with a destination of 65535 .. 2^32 + 1 bytes
    {
        static const char *ML[] = {"255", "256", "65535", "65536", "1048576", "2147483647", "2147483648", "2147483649", "4294967295", "4294967296", "4294967297"};
        for (const char *m : ML)
            for (int var = 0; var < 2; var++)
                for (unsigned typed = 0; typed <= 3; typed += 3)
                    emit(std::string("lh ") + VAR[var] + " 5 1 " + m + " " + hx(std::string("abcdef").substr(0, typed + (typed ? 1 : 0))));
    }
    // =================================================================== round 3b
    // ---- every count parameter over the whole range of its C type (seeded change C15-sline-delete-clamp-wrap was
    //      missed: a clamp written `cursor + count > len` wraps for count > UINT_MAX - cursor, and the stream never
    //      passed a count above cap + 2).  sline_backspace / sline_delete (unsigned int) and igris::sline::backspace /
    //      del (int): 0, 1, exactly what is there, one more, INT_MAX, INT_MAX + 1u, UINT_MAX - cursor,
    //      UINT_MAX - cursor + 1, UINT_MAX - 1, UINT_MAX, and as an int -1, -2, INT_MIN, INT_MAX; cursor at 0, 1, the
    //      middle, the end; line half full and full; then getline, an insert, getline (what a wrapped len would break)
    for (int var = 0; var < 2; var++)
        for (unsigned cap : {6u, 8u})
            for (unsigned cur : {0u, 1u, 2u, 5u})
                for (int which = 0; which < 2; which++)
                {
                    const unsigned len = 5;
                    unsigned there = which ? len - cur : cur; // characters a delete / a backspace can remove
                    std::vector<std::string> counts;
                    for (uint64_t c : {(uint64_t)0, (uint64_t)1, (uint64_t)there, (uint64_t)there + 1, (uint64_t)0x7fffffff, (uint64_t)0x80000000u,
                                       (uint64_t)0xffffffffu - cur, (uint64_t)0xffffffffu - cur + 1, (uint64_t)0xfffffffeu, (uint64_t)0xffffffffu,
                                       (uint64_t)0xffffffffu - there, (uint64_t)0x100000000ull - len})
                        if (c <= 0xffffffffull) counts.push_back(std::string(which ? "d" : "b") + std::to_string(c));
                    for (long c : {-1L, -2L, -2147483647L - 1, 2147483647L, 1L, -(long)cur, -(long)len})
                        counts.push_back(std::string(which ? "D" : "B") + std::to_string(c));
                    for (const std::string &c : counts)
                    {
                        std::string s = std::string("sl ") + VAR[var] + " " + std::to_string(cap) + " n6162636465";
                        for (unsigned j = cur; j < len; j++) s += " l";
                        emit(s + " " + c + " g p78 g " + c + " g");
                    }
                }
    // the same on a line without a buffer, on the smallest buffers and on a lazily mapped one of 2^32 - 1 bytes
    for (const char *c : {"b4294967295", "d4294967295", "B-1", "D-1", "d2147483648", "b2147483648"})
    {
        emit(std::string("sl c 0 ") + c + " g");
        emit(std::string("sl x 0 ") + c + " g");
        emit(std::string("sl c 1 ") + c + " p61 " + c + " g");
        emit(std::string("sl x 2 p61 ") + c + " p62 l " + c + " g");
        emit(std::string("sl c 4294967295 p61 p62 p63 l ") + c + " g p64 g");
    }
    // random histories in which backspace / delete counts come from the whole range
    for (int i = 0; i < (th ? 3000 : 400); i++)
    {
        unsigned cap = (unsigned)r.range(2, 12);
        bool vx = r.below(2);
        std::string s = std::string("sl ") + VAR[vx] + " " + std::to_string(cap);
        size_t n = r.range(2, 30);
        for (size_t j = 0; j < n; j++)
        {
            unsigned p = (unsigned)r.below(100);
            if (p < 30) s += " p" + hv::hexn(r.range(0x61, 0x7a), 2);
            else if (p < 40) { std::string d; size_t m = r.range(0, cap + 1); for (size_t q = 0; q < m; q++) d.push_back((char)r.range(0x41, 0x5a)); s += " n" + hx(d); }
            else if (p < 62)
            {
                const char *k = r.chance(50) ? "bB" : "dD";
                if (r.chance(40))
                {
                    // as an int: small, negative small (= UINT_MAX - k + 1), the ends of the range
                    static const long V[] = {-1, -2, -3, -4, -5, -6, -7, -8, -12, -2147483647L - 1, 2147483647L, -2147483647L, 0, 1, 2, 3};
                    s += std::string(" ") + k[1] + std::to_string(V[r.below(16)]);
                }
                else
                {
                    uint64_t c = r.chance(40) ? 0xffffffffull - r.below(cap + 2) : r.chance(30) ? 0x7fffffffull + r.below(3) : r.chance(50) ? 0x100000000ull - 1 - r.below(14) : r.range(0, cap + 1);
                    s += std::string(" ") + k[0] + std::to_string(c);
                }
            }
            else if (p < 80) s += " l";
            else if (p < 88) s += " r";
            else if (p < 90) s += " z";
            else s += " g";
        }
        emit(s);
    }
    // the twins on the same huge counts (struct sline's unsigned parameter against igris::sline's int)
    for (const char *c : {"b4294967295", "d4294967295", "B-1", "D-1", "d4294967294", "b2147483648", "D-2147483648", "d2147483647"})
        for (unsigned cur = 0; cur <= 3; cur++)
        {
            std::string s = "ts 5 n616263";
            for (unsigned j = cur; j < 3; j++) s += " l";
            emit(s + " " + c + " g p78 g");
        }
    // ---- one long session (>= 300 KiB of keys) per variant
    emit("vl c 6 3 310000 " + std::to_string(gen_seed));
    emit("vl x 5 2 " + std::string(th ? "310000 " : "40000 ") + std::to_string(gen_seed + 7));
}

int main(int argc, char **argv)
{
    if (argc >= 3) gen_seed = strtoull(argv[2], 0, 10);
    return hv::main_(argc, argv, [](hv::rng &r, const std::string &tier) { gen(r, tier); }, run_op);
}
